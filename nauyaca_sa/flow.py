"""Reaching definitions and provenance over a CFG (``cfg.Graph``).

Variables are keyed ``(activation stack, name)`` so the same local name in two
inlined activations never mixes.  Attribute stores on ``self`` are tracked as
pseudo-variables ``self.<attr>`` keyed with the *empty* stack (one object).
"""

from __future__ import annotations

import ast
from collections import deque

from .astutil import dotted, is_self_attr, target_names, walk
from .cfg import Graph, Node


def _defs_of(n: Node) -> list[tuple[str, ast.AST | None, object]]:
    """(variable name, value expression or None, selector) defined by node."""
    out: list[tuple[str, ast.AST | None, object]] = []
    a = n.ast
    if a is None:
        return out
    if n.kind == "for" and isinstance(a, (ast.For, ast.AsyncFor)):
        for nm in target_names(a.target):
            out.append((nm, a.iter, "iter"))
        return out
    if n.kind == "with" and isinstance(a, ast.withitem):
        if a.optional_vars is not None:
            for nm in target_names(a.optional_vars):
                out.append((nm, a.context_expr, "with"))
        return out
    if n.kind == "handler" and isinstance(a, ast.ExceptHandler):
        if a.name:
            out.append((a.name, None, "exc"))
        return out
    if n.kind not in ("stmt", "test"):
        return out
    if isinstance(a, ast.Assign):
        for t in a.targets:
            _target(t, a.value, None, out)
    elif isinstance(a, ast.AnnAssign):
        if a.value is not None:
            _target(a.target, a.value, None, out)
    elif isinstance(a, ast.AugAssign):
        _target(a.target, a, "aug", out)
    elif isinstance(a, (ast.FunctionDef, ast.AsyncFunctionDef, ast.ClassDef)):
        out.append((a.name, a, "def"))
    elif isinstance(a, (ast.Import, ast.ImportFrom)):
        for al in a.names:
            out.append(((al.asname or al.name).split(".")[0], None, "import"))
    for sub in walk(a):
        if isinstance(sub, ast.NamedExpr) and isinstance(sub.target, ast.Name):
            out.append((sub.target.id, sub.value, None))
    return out


def _target(t, value, sel, out) -> None:
    if isinstance(t, ast.Name):
        out.append((t.id, value, sel))
    elif is_self_attr(t):
        out.append((f"self.{t.attr}", value, sel))
    elif isinstance(t, (ast.Tuple, ast.List)):
        for i, e in enumerate(t.elts):
            _target(e, value, ("unpack", i), out)
    elif isinstance(t, ast.Attribute):
        d = dotted(t)
        if d:
            out.append((d, value, sel))
    elif isinstance(t, ast.Subscript):
        d = dotted(t.value)
        if d:
            out.append((d + "[]", value, sel))


class Defs:
    """Reaching definitions.  ``at(node, name)`` -> list of
    (def node, value expr, selector)."""

    def __init__(self, g: Graph, follow=None) -> None:
        self.g = g
        self.node_defs: dict[int, list[tuple[tuple, ast.AST | None, object]]] = {}
        for n in g.nodes:
            ds = []
            for nm, val, sel in _defs_of(n):
                ds.append((self._key(n, nm), val, sel))
            if n.kind == "entry":
                # parameters (bound at entry); value unknown unless inlined
                bind = {}
                if n.stack:
                    enter = g.nodes[n.stack[-1]]
                    bind = _bindings(enter)
                for p in n.func.params:
                    ds.append(((n.stack, p), bind.get(p), "param"))
            self.node_defs[n.id] = ds
        self.IN: dict[int, dict[tuple, frozenset[int]]] = {n.id: {} for n in g.nodes}
        self._solve(follow)

    @staticmethod
    def _key(n: Node, name: str) -> tuple:
        if name.startswith("self."):
            return ((), name)
        return (n.stack, name)

    def _solve(self, follow) -> None:
        g = self.g
        OUT: dict[int, dict[tuple, frozenset[int]]] = {n.id: {} for n in g.nodes}
        dq = deque(n.id for n in g.nodes)
        inq = set(dq)
        while dq:
            nid = dq.popleft()
            inq.discard(nid)
            merged: dict[tuple, set[int]] = {}
            for p, lab in g.pred[nid]:
                if follow is not None and not follow(lab):
                    continue
                for k, s in OUT[p].items():
                    merged.setdefault(k, set()).update(s)
            inn = {k: frozenset(v) for k, v in merged.items()}
            self.IN[nid] = inn
            out = dict(inn)
            for k, _val, _sel in self.node_defs[nid]:
                out[k] = frozenset([nid])
            if out != OUT[nid]:
                OUT[nid] = out
                for b, lab in g.succ[nid]:
                    if b not in inq:
                        inq.add(b)
                        dq.append(b)

    def at(self, n: Node, name: str) -> list[tuple[Node, ast.AST | None, object]]:
        key = self._key(n, name)
        res = []
        for d in sorted(self.IN[n.id].get(key, ())):
            for k, val, sel in self.node_defs[d]:
                if k == key:
                    res.append((self.g.nodes[d], val, sel))
        return res


def _bindings(enter: Node) -> dict[str, ast.AST]:
    """param -> argument expression for an inlined call site."""
    call: ast.Call = enter.ast  # type: ignore[assignment]
    callee = enter.extra.get("callee")
    if callee is None or not isinstance(call, ast.Call):
        return {}
    params = list(callee.params)
    if params and params[0] in ("self", "cls"):
        params = params[1:]
    out: dict[str, ast.AST] = {}
    for i, a in enumerate(call.args):
        if isinstance(a, ast.Starred):
            break
        if i < len(params):
            out[params[i]] = a
    for k in call.keywords:
        if k.arg:
            out[k.arg] = k.value
    return out


def call_returns(g: Graph, call: ast.AST) -> list[tuple[Node, ast.AST | None]] | None:
    """If ``call`` was inlined into ``g``: the Return nodes of that activation
    with their value expressions (None for a bare return / fall-through).
    Returns None when the call was not inlined."""
    enter = next((x for x in g.nodes if x.kind == "call_enter" and x.ast is call), None)
    if enter is None:
        return None
    stack = enter.stack + (enter.id,)
    out = []
    for x in g.nodes:
        if x.stack == stack and x.kind == "stmt" and isinstance(x.ast, ast.Return):
            out.append((x, x.ast.value))
    return out


def _tuple_returns(g: Graph, call: ast.AST, index: int):
    """For `a, b = helper(...)` with an inlined helper that returns literal
    tuples: the index-th element of each return, with its Return node."""
    while isinstance(call, ast.Await):
        call = call.value
    rets = call_returns(g, call)
    if not rets:
        return None
    out = []
    for rn, rv in rets:
        if isinstance(rv, ast.Tuple) and len(rv.elts) > index:
            out.append((rn, rv.elts[index]))
        else:
            return None
    return out


def origins(defs: Defs, n: Node, expr: ast.AST, _seen=None, depth: int = 0) -> list[tuple[Node, ast.AST]]:
    """Expand an expression through local definitions down to leaf
    expressions: returns (node where evaluated, leaf expr).  Names that are
    parameters without a binding or have no reaching definition stay as
    ``ast.Name`` leaves.  Only plain name copies are followed."""
    if _seen is None:
        _seen = set()
    if depth > 12:
        return [(n, expr)]
    if isinstance(expr, ast.Await):
        return origins(defs, n, expr.value, _seen, depth)
    if isinstance(expr, ast.Call):
        rets = call_returns(defs.g, expr)
        if rets:
            tag = ("call", id(expr))
            if tag in _seen:
                return []
            _seen.add(tag)
            out = []
            for rn, rv in rets:
                if rv is None:
                    out.append((rn, ast.Constant(value=None)))
                else:
                    out += origins(defs, rn, rv, _seen, depth + 1)
            return out
        return [(n, expr)]
    if isinstance(expr, ast.Name):
        ds = defs.at(n, expr.id)
        if not ds:
            return [(n, expr)]
        out = []
        for dn, val, sel in ds:
            tag = (dn.id, expr.id)
            if tag in _seen:
                continue
            _seen.add(tag)
            if sel == "param" and val is not None and dn.stack:
                enter = defs.g.nodes[dn.stack[-1]]
                out += origins(defs, enter, val, _seen, depth + 1)
            elif isinstance(sel, tuple) and sel[0] == "unpack" and isinstance(val, (ast.Call, ast.Await)) and _tuple_returns(defs.g, val, sel[1]) is not None:
                for rn, elt in _tuple_returns(defs.g, val, sel[1]):
                    out += origins(defs, rn, elt, _seen, depth + 1)
            elif val is None or sel not in (None,):
                out.append((dn, _Sel(expr.id, val, sel)))
            else:
                out += origins(defs, dn, val, _seen, depth + 1)
        return out
    return [(n, expr)]


class _Sel(ast.AST):
    """Leaf marker: name defined by something that is not a plain copy
    (parameter, tuple unpack, loop target, ``with ... as``)."""

    _fields = ()

    def __init__(self, name, value, selector):
        super().__init__()
        self.name = name
        self.value = value
        self.selector = selector

    def __repr__(self) -> str:
        return f"<{self.name} via {self.selector}>"
