"""Path enumeration over a CFG with a small, pluggable path state.

Paths use every edge at most once (so a loop body is taken zero or one time
and the loop is then left).  A *stepper* sees each (node, outgoing label) and
returns the next state or ``None`` to prune the branch as infeasible.

``BoolFacts`` is the stepper used to avoid the classic path-insensitive false
alarm: it remembers the outcome of tests on plain local names / attributes
(``if use_pyopenssl``) and the null-ness of names assigned from ``None`` or
from a call, and prunes branches that contradict a remembered outcome while
no assignment intervened.
"""

from __future__ import annotations

import ast
from typing import Callable

from .astutil import dotted, is_none, norm, stmt_targets, target_names
from .cfg import Graph, Node
from .loader import AnalysisError


def walk_paths(
    g: Graph,
    start: int,
    init_state,
    step: Callable[[object, Node, str | None], object | None],
    stop: Callable[[Node], bool] | None = None,
    follow: Callable[[str | None], bool] | None = None,
    max_paths: int = 60000,
    edge_ok: Callable[[Node, Node, str | None], bool] | None = None,
):
    """Yield (path, state) for every maximal feasible path from ``start``.
    path = list of (Node, label-of-edge-taken-out-of-it | None for the last)."""
    results = []
    path: list[tuple[Node, str | None]] = []
    used: set[tuple[int, int, str | None]] = set()

    def rec(nid: int, state) -> None:
        if len(results) > max_paths:
            raise AnalysisError(f"path explosion (> {max_paths} paths) from node {start}")
        n = g.nodes[nid]
        if stop is not None and stop(n):
            results.append((path + [(n, None)], state))
            return
        if not g.succ[nid]:
            results.append((path + [(n, None)], state))
            return
        for b, lab in g.succ[nid]:
            if follow is not None and not follow(lab):
                continue
            if edge_ok is not None and not edge_ok(n, g.nodes[b], lab):
                continue
            e = (nid, b, lab)
            if e in used:
                continue
            st2 = step(state, n, lab)
            if st2 is None:
                continue
            used.add(e)
            path.append((n, lab))
            rec(b, st2)
            path.pop()
            used.discard(e)

    rec(start, init_state)
    return results


def no_exc(label: str | None) -> bool:
    return label not in ("exc",)


def normal_only(label: str | None) -> bool:
    return label not in ("exc", "raise", "reraise")


class BoolFacts:
    """Immutable-ish path state: truthiness facts on simple expressions."""

    __slots__ = ("truth", "null", "last_def", "alias", "eq", "ne", "defn", "_key", "_eq_const")

    def __init__(self, truth=None, null=None, last_def=None, alias=None, eq=None, ne=None, defn=None):
        # name -> boolean expression it was assigned (`manual = a and b is not None`):
        # a later test of the name is a test of that expression
        self.defn: dict[str, ast.AST] = defn or {}
        self.truth: dict[str, bool] = truth or {}
        self.null: dict[str, bool] = null or {}  # name -> is None?
        self.last_def: dict[str, Node] = last_def or {}
        self.alias: dict[str, str] = alias or {}  # name -> name it was copied from
        self.eq: dict[str, str] = eq or {}  # name -> constant it is known to equal (state enums, mode strings)
        self.ne: dict[str, frozenset] = ne or {}  # name -> constants it is known to differ from
        self._key = None

    def key(self) -> tuple:
        """Hashable identity; computed once - a state must not be mutated
        after its key was taken (states are copy-on-write values)."""
        if self._key is None:
            self._key = (
                frozenset((k, v) for k, v in self.truth.items() if isinstance(v, bool)),
                frozenset(self.null.items()),
                frozenset(self.alias.items()),
                frozenset(self.eq.items()),
                frozenset(self.ne.items()),
                frozenset((k, id(v)) for k, v in self.defn.items()),
            )
        return self._key

    def copy(self) -> "BoolFacts":
        return BoolFacts(dict(self.truth), dict(self.null), dict(self.last_def), dict(self.alias), dict(self.eq), dict(self.ne), dict(self.defn))

    # -- transfer
    def kill(self, name: str) -> None:
        for d in (self.truth, self.null, self.alias, self.eq, self.ne):
            for k in list(d):
                if k == name or k.startswith(name + "."):
                    d.pop(k, None)
        for k, v in list(self.alias.items()):
            if v == name or v.startswith(name + "."):
                self.alias.pop(k, None)
        self.defn.pop(name, None)
        for k, e in list(self.defn.items()):
            if any((dotted(x) or "") == name or (dotted(x) or "").startswith(name + ".") for x in ast.walk(e) if isinstance(x, (ast.Name, ast.Attribute))):
                self.defn.pop(k, None)

    def assign(self, node: Node) -> None:
        a = node.ast
        vals = []
        if isinstance(a, ast.Assign):
            for t in a.targets:
                vals.append((t, a.value))
        elif isinstance(a, ast.AnnAssign) and a.value is not None:
            vals.append((a.target, a.value))
        elif isinstance(a, ast.AugAssign):
            vals.append((a.target, None))
        elif isinstance(a, ast.withitem) and a.optional_vars is not None:
            vals.append((a.optional_vars, a.context_expr))
        for t, v in vals:
            if isinstance(t, (ast.Tuple, ast.List)):
                for nm in target_names(t):
                    self.kill(nm)
                    self.last_def[nm] = node
                continue
            d = dotted(t)
            if not d:
                continue
            self.kill(d)
            self.last_def[d] = node
            if v is None:
                continue
            if is_none(v):
                self.null[d] = True
                self.truth[d] = False
            elif isinstance(v, ast.Constant):
                self.null[d] = False
                self.truth[d] = bool(v.value)
                self.eq[d] = repr(v.value)
            elif isinstance(v, (ast.Call, ast.Await)):
                cv = v.value if isinstance(v, ast.Await) else v
                if isinstance(cv, ast.Call) and _ctor_like(cv):
                    self.null[d] = False
            elif isinstance(v, (ast.BoolOp, ast.Compare)) or (isinstance(v, ast.UnaryOp) and isinstance(v.op, ast.Not)):
                if not any(isinstance(x, (ast.Call, ast.Await, ast.NamedExpr)) for x in ast.walk(v)):
                    self.defn[d] = v
                    # what is already known about the expression is known about the name
                    if self.holds(v) is not None:
                        self.truth[d] = self.holds(v)
            elif isinstance(v, (ast.Name, ast.Attribute)):
                src = dotted(v)
                if src and _const_like(src):
                    # an enum member / module constant: remember the identity
                    self.eq[d] = src
                    self.null[d] = False
                if src:
                    if src in self.truth:
                        self.truth[d] = self.truth[src]
                    if src in self.null:
                        self.null[d] = self.null[src]
                    # remember alias so a later test on one informs the other
                    self.alias[d] = src

    def _alias(self, d: str) -> str | None:
        return self.alias.get(d)

    def holds(self, expr: ast.AST) -> bool | None:
        """Truth value of a boolean expression under the current facts, or None."""
        t, f = self.copy(), self.copy()
        can_be_true = t.apply_expr(expr, True)
        can_be_false = f.apply_expr(expr, False)
        if can_be_true and not can_be_false:
            return True
        if can_be_false and not can_be_true:
            return False
        return None

    def apply_expr(self, expr: ast.AST, outcome: bool, depth: int = 0) -> bool:
        """Assume `expr` evaluates to `outcome`; False if that contradicts the facts."""
        if depth > 6:
            return True
        if isinstance(expr, ast.UnaryOp) and isinstance(expr.op, ast.Not):
            return self.apply_expr(expr.operand, not outcome, depth + 1)
        if isinstance(expr, ast.BoolOp):
            conj = isinstance(expr.op, ast.And)
            if outcome == conj:
                # all conjuncts true / all disjuncts false
                return all(self.apply_expr(v, outcome, depth + 1) for v in expr.values)
            # some conjunct false / some disjunct true: decide it when only one can be
            open_ = []
            for v in expr.values:
                probe = self.copy()
                if probe.apply_expr(v, outcome, depth + 1):
                    open_.append(v)
            if not open_:
                return False
            if len(open_) == 1:
                return self.apply_expr(open_[0], outcome, depth + 1)
            return True
        ok = self.test(expr, outcome)
        if ok and isinstance(expr, ast.Name) and expr.id in self.defn:
            return self.apply_expr(self.defn[expr.id], outcome, depth + 1)
        return ok

    def test(self, expr: ast.AST, outcome: bool) -> bool:
        """Record outcome; False when it contradicts what is known."""
        key, kind, neg = _classify(expr)
        if key is None:
            return True
        if kind == "eq":
            self._eq_const = _eq_const(expr)
        val = outcome != neg
        if kind == "truth":
            for k in (key, self._alias(key)):
                if k is None:
                    continue
                known = self.truth.get(k)
                if isinstance(known, bool) and known != val:
                    return False
                if self.null.get(k) is True and val:
                    return False
            self.truth[key] = val
            a = self._alias(key)
            if a:
                self.truth[a] = val
            if val:
                self.null[key] = False
        elif kind == "eq":
            const = self._eq_const
            known = self.eq.get(key)
            if known is not None:
                if (known == const) != val:
                    return False
            elif val:
                if const in self.ne.get(key, frozenset()):
                    return False
                self.eq[key] = const
                self.null[key] = False
            else:
                self.ne[key] = self.ne.get(key, frozenset()) | {const}
        elif kind == "null":
            known = self.null.get(key)
            if known is not None and known != val:
                return False
            if val and self.truth.get(key) is True:
                return False
            self.null[key] = val
            if val:
                self.truth[key] = False
        return True


def _const_like(d: str) -> bool:
    """Dotted name that denotes a constant: Enum member `State.WAITING`, or an
    ALL_CAPS module constant."""
    parts = d.split(".")
    return (len(parts) == 2 and parts[0][:1].isupper() and parts[1].isupper()) or (len(parts) == 1 and parts[0].isupper() and len(parts[0]) > 1)


def _eq_const(expr: ast.AST) -> str | None:
    while isinstance(expr, ast.UnaryOp) and isinstance(expr.op, ast.Not):
        expr = expr.operand
    if not (isinstance(expr, ast.Compare) and len(expr.ops) == 1):
        return None
    r = expr.comparators[0]
    if isinstance(r, ast.Constant) and isinstance(r.value, (str, int, bool)) :
        return repr(r.value)
    d = dotted(r)
    if d and _const_like(d):
        return d
    return None


# zero-argument query methods whose outcome is remembered along a path (until
# the receiver is re-assigned or a rule's event hook overrides the fact)
CALL_FACTS = {"is_closing", "is_delete"}


def _ctor_like(call: ast.Call) -> bool:
    """A call whose result cannot be None for the purposes of null tracking:
    constructor-looking or factory function calls (``create_*``, ``_create_*``,
    CapWords).  Deliberately narrow."""
    d = dotted(call.func) or ""
    last = d.split(".")[-1]
    return last[:1].isupper() or last.startswith(("create_", "_create_", "get_running_loop"))


def _classify(expr: ast.AST):
    neg = False
    while isinstance(expr, ast.UnaryOp) and isinstance(expr.op, ast.Not):
        neg = not neg
        expr = expr.operand
    if isinstance(expr, (ast.Name, ast.Attribute)):
        d = dotted(expr)
        return (d, "truth", neg) if d else (None, None, False)
    if (
        isinstance(expr, ast.Call)
        and not expr.args
        and not expr.keywords
        and isinstance(expr.func, ast.Attribute)
        and expr.func.attr in CALL_FACTS
    ):
        d = dotted(expr.func)
        return (d + "()", "truth", neg) if d else (None, None, False)
    if isinstance(expr, ast.Compare) and len(expr.ops) == 1 and not is_none(expr.comparators[0]) and isinstance(expr.ops[0], (ast.Eq, ast.NotEq, ast.Is, ast.IsNot)):
        d = dotted(expr.left)
        c = _eq_const(expr)
        if d is not None and c is not None:
            return (d, "eq", neg != isinstance(expr.ops[0], (ast.NotEq, ast.IsNot)))
    if isinstance(expr, ast.Compare) and len(expr.ops) == 1 and is_none(expr.comparators[0]):
        d = dotted(expr.left)
        if d is None:
            return (None, None, False)
        if isinstance(expr.ops[0], ast.Is):
            return (d, "null", neg)
        if isinstance(expr.ops[0], ast.IsNot):
            return (d, "null", not neg)
    return (None, None, False)


def _derefs(node: Node) -> tuple:
    """Chains ``X`` that the statement dereferences (``X.attr`` / ``X.m()``):
    if the statement completes normally, X was not None."""
    cached = node.extra.get("_derefs")
    if cached is not None:
        return cached
    out = set()
    if node.ast is not None:
        todo = [node.ast]
        while todo:
            n = todo.pop()
            # only unconditionally evaluated sub-expressions
            if isinstance(n, (ast.IfExp, ast.BoolOp, ast.Lambda, ast.ListComp, ast.SetComp, ast.DictComp,
                              ast.GeneratorExp, ast.FunctionDef, ast.AsyncFunctionDef, ast.ClassDef)):
                continue
            if isinstance(n, ast.Attribute):
                d = dotted(n.value)
                if d and d != "self" and d.startswith("self."):
                    out.add(d)
            todo.extend(ast.iter_child_nodes(n))
    res = tuple(sorted(out))
    node.extra["_derefs"] = res
    return res


def boolfacts_step(state: BoolFacts, node: Node, label: str | None):
    """Copy-on-write transfer: states are treated as immutable values."""
    if node.kind == "test" and label in ("T", "F") and node.ast is not None:
        a = node.ast
        neg = False
        while isinstance(a, ast.UnaryOp) and isinstance(a.op, ast.Not):
            a, neg = a.operand, not neg
        if isinstance(a, ast.NamedExpr) and isinstance(a.target, ast.Name):
            # `while chunk := read():` - the target is (re)bound, then tested
            st = state.copy()
            st.kill(a.target.id)
            val = (label == "T") != neg
            st.truth[a.target.id] = val
            if val:
                st.null[a.target.id] = False
            return st
        if _classify(node.ast)[0] is None:
            return state
        st = state.copy()
        if not st.test(node.ast, label == "T"):
            return None
        # a boolean local defined by an expression: the test is a test of that expression
        key, kind, neg2 = _classify(node.ast)
        if kind == "truth" and key in st.defn:
            if not st.apply_expr(st.defn[key], (label == "T") != neg2):
                return None
        return st
    if node.kind in ("stmt", "with"):
        a = node.ast
        derefs = _derefs(node) if label not in ("exc", "raise") else ()
        if isinstance(a, (ast.Assign, ast.AnnAssign, ast.AugAssign, ast.withitem)):
            st = state.copy()
            for d in derefs:
                st.null[d] = False
            st.assign(node)
            return st
        if derefs and any(state.null.get(d) is not False for d in derefs):
            st = state.copy()
            for d in derefs:
                st.null[d] = False
            return st
        return state
    if node.kind == "for" and isinstance(node.ast, (ast.For, ast.AsyncFor)):
        st = state.copy()
        for nm in target_names(node.ast.target):
            st.kill(nm)
        return st
    if node.kind == "call_enter" and label == "call":
        # parameters of the inlined callee inherit the facts of plain-name
        # arguments (locals are keyed by name only)
        from .flow import _bindings

        b = _bindings(node)
        if b:
            st = state.copy()
            new_t, new_n = {}, {}
            for p, a in b.items():
                d = dotted(a)
                if d is None:
                    if isinstance(a, ast.Constant):
                        new_n[p] = a.value is None
                        new_t[p] = bool(a.value)
                    continue
                if d in state.truth and isinstance(state.truth[d], bool):
                    new_t[p] = state.truth[d]
                if d in state.null:
                    new_n[p] = state.null[d]
            for p in b:
                st.kill(p)
            st.truth.update(new_t)
            st.null.update(new_n)
            return st
    return state
