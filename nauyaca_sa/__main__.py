"""Command line of the static checker.

  python -m nauyaca_sa check C07 [--tier quick|thorough]
  python -m nauyaca_sa all [--tier quick]
  python -m nauyaca_sa selfcheck
  python -m nauyaca_sa explain evidence/replay/C07-0.json
  python -m nauyaca_sa dump server.protocol:GeminiServerProtocol.data_received [--inline N]
"""

from __future__ import annotations

import argparse
import importlib
import json
import os
import sys


def _rule_module(prop: str):
    return importlib.import_module(f"nauyaca_sa.rules.{prop.lower()}")


ALL = [f"C{i:02d}" for i in range(1, 21)]


def cmd_check(prop: str, tier: str) -> int:
    from .report import run_check

    try:
        mod = _rule_module(prop)
    except ModuleNotFoundError:
        print(f"ANALYSIS-ERROR property={prop} no rules implemented")
        return 2
    rc = run_check(prop, tier, lambda chk: mod.run(chk), mod.EXPLANATION)
    if rc == 0 and tier == "thorough":
        # thorough = same verdict on /repo, plus this property's self-test
        # slice (mutants on scratch copies); a self-test failure means the
        # checker is broken (exit 2), never a violation of the property
        from .selftest import run_selftest

        rc2 = run_selftest([prop], jobs=min(16, os.cpu_count() or 4))
        if rc2 != 0:
            print(f"ANALYSIS-ERROR property={prop} self-test failed")
            return 2
        # self-test rewrote nothing under evidence/: re-emit evidence in the
        # thorough tier with the self-test counts attached
        from .selftest import LAST_SUMMARY
        from .report import EVIDENCE_DIR

        p = EVIDENCE_DIR / f"{prop}.json"
        ev = json.loads(p.read_text())
        ev["coverage"]["selftest"] = LAST_SUMMARY.get(prop, {})
        p.write_text(json.dumps(ev, indent=1))
    return rc


def main(argv=None) -> int:
    ap = argparse.ArgumentParser(prog="nauyaca_sa")
    sub = ap.add_subparsers(dest="cmd", required=True)
    c = sub.add_parser("check")
    c.add_argument("prop")
    c.add_argument("--tier", default=os.environ.get("VERIF_TIER", "quick"), choices=["quick", "thorough"])
    a = sub.add_parser("all")
    a.add_argument("--tier", default="quick", choices=["quick", "thorough"])
    sub.add_parser("selfcheck")
    e = sub.add_parser("explain")
    e.add_argument("path")
    d = sub.add_parser("dump")
    d.add_argument("func")
    d.add_argument("--inline", type=int, default=0)
    st = sub.add_parser("selftest")
    st.add_argument("props", nargs="*")
    st.add_argument("--jobs", type=int, default=16)
    args = ap.parse_args(argv)

    if args.cmd == "check":
        return cmd_check(args.prop, args.tier)
    if args.cmd == "all":
        worst = 0
        for p in ALL:
            try:
                _rule_module(p)
            except ModuleNotFoundError:
                continue
            rc = cmd_check(p, args.tier)
            worst = max(worst, rc)
        return worst
    if args.cmd == "selfcheck":
        # syntax / import self-check of the checker itself; nothing is installed
        import compileall
        import pathlib

        ok = compileall.compile_dir(str(pathlib.Path(__file__).parent), quiet=1)
        for p in ALL:
            try:
                _rule_module(p)
            except ModuleNotFoundError:
                pass
        print("selfcheck ok" if ok else "selfcheck FAILED")
        return 0 if ok else 2
    if args.cmd == "explain":
        data = json.loads(open(args.path).read())
        print(json.dumps(data, indent=1))
        prop = data["property"]
        print(f"--- re-running {prop} on the current source ---")
        return cmd_check(prop, "quick")
    if args.cmd == "dump":
        from .cfg import build_cfg, inline_none, inline_self_methods
        from .loader import load_project

        proj = load_project()
        g = build_cfg(proj, proj.func(args.func), inline_self_methods if args.inline else inline_none, args.inline or 1)
        for n in g.nodes:
            print(n.id, n.kind, n.where(), n.func.qualname, repr(n.text(70)), g.succ[n.id])
        return 0
    if args.cmd == "selftest":
        from .selftest import run_selftest

        return run_selftest(args.props or None, jobs=args.jobs)
    return 2


if __name__ == "__main__":
    sys.setrecursionlimit(20000)
    try:
        rc = main()
    except SystemExit:
        raise
    except Exception:  # noqa: BLE001
        import traceback

        print("ANALYSIS-ERROR internal error:\n" + traceback.format_exc())
        rc = 2
    sys.stdout.flush()
    sys.exit(rc)
