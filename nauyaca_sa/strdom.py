"""Abstract string / integer domain, evaluated path-sensitively.

Values
  IntV(lo, hi)           integer interval (None = unbounded)
  StrV(kind, no_cr, no_lf, maxb, prefix, exact)
                         str or bytes; ``maxb`` bounds the UTF-8 byte length,
                         ``prefix`` is a known literal prefix, ``exact`` the
                         literal value when known
  TOP                    anything

The interpreter walks one CFG path at a time (paths come from
``paths.walk_paths``), applying assignments and refining on the outcome of
each test, so correlations such as "the body is non-empty only if the status
test succeeded" are kept without a relational domain.  Helper functions of the
package are summarised by interpreting their body with the abstract arguments
(depth-bounded), so a sanitiser is accepted for what it provably does, not for
its name.
"""

from __future__ import annotations

import ast
import re
from dataclasses import dataclass, replace

from .astutil import dotted, method_call, norm, walk
from .cfg import Graph, Node, Resolver, build_cfg
from .loader import ClassInfo, FunctionInfo, Project
from .paths import normal_only, walk_paths

INT_FMT_BYTES = 32  # assumed bound on the decimal rendering of an int field


class _Top:
    def __repr__(self) -> str:
        return "TOP"


TOP = _Top()


@dataclass(frozen=True)
class IntV:
    lo: int | None = None
    hi: int | None = None

    def within(self, lo: int, hi: int) -> bool:
        return self.lo is not None and self.hi is not None and lo <= self.lo and self.hi <= hi

    def __repr__(self) -> str:
        return f"Int[{self.lo},{self.hi}]"


@dataclass(frozen=True)
class StrV:
    kind: str = "str"  # str | bytes
    no_cr: bool = False
    no_lf: bool = False
    maxb: int | None = None
    prefix: str | None = None
    exact: str | bytes | None = None

    def __repr__(self) -> str:
        if self.exact is not None:
            return f"{self.kind}={self.exact!r}"
        return f"{self.kind}(no_cr={self.no_cr},no_lf={self.no_lf},maxb={self.maxb},prefix={self.prefix!r})"


@dataclass(frozen=True)
class NoneV:
    pass


@dataclass(frozen=True)
class BoolV:
    value: bool | None = None


@dataclass(frozen=True)
class SetV:
    """A finite collection of exact strings (list / set / tuple / frozenset)."""

    items: frozenset = frozenset()


@dataclass(frozen=True)
class ObjV:
    """Some non-None object about which nothing else is known.  ``truth`` is
    its truthiness: True for ordinary objects, None when its class defines
    __bool__ / __len__ (an empty container-like object is falsy)."""

    tag: str = "obj"
    truth: bool | None = True


@dataclass(frozen=True)
class TupleV:
    elts: tuple = ()


def lit(v) -> StrV:
    if isinstance(v, bytes):
        s = v.decode("latin-1")
        return StrV("bytes", "\r" not in s, "\n" not in s, len(v), s, v)
    return StrV("str", "\r" not in v, "\n" not in v, len(v.encode("utf-8", "surrogatepass")), v, v)


def concat(a, b):
    if not isinstance(a, StrV) or not isinstance(b, StrV):
        return StrV("str") if isinstance(a, StrV) or isinstance(b, StrV) else TOP
    exact = None
    if a.exact is not None and b.exact is not None and type(a.exact) is type(b.exact):
        exact = a.exact + b.exact
        return lit(exact)
    maxb = None if a.maxb is None or b.maxb is None else a.maxb + b.maxb
    prefix = None
    if a.exact is not None:
        ax = a.exact if isinstance(a.exact, str) else a.exact.decode("latin-1")
        prefix = ax + (b.prefix or "")
    elif a.prefix is not None:
        prefix = a.prefix
    return StrV(a.kind, a.no_cr and b.no_cr, a.no_lf and b.no_lf, maxb, prefix, None)


def truthy(v) -> bool | None:
    if isinstance(v, StrV) and v.exact is not None:
        return bool(v.exact)
    if isinstance(v, NoneV):
        return False
    if isinstance(v, BoolV):
        return v.value
    if isinstance(v, IntV) and v.lo is not None and v.hi is not None and v.lo == v.hi:
        return v.lo != 0
    if isinstance(v, SetV):
        return bool(v.items)
    if isinstance(v, ObjV):
        return v.truth
    if isinstance(v, TupleV):
        return bool(v.elts)
    return None


_STR_PREDICATES = ("isspace", "isdigit", "isdecimal", "isnumeric", "isalpha", "isalnum", "isascii", "isprintable", "islower", "isupper", "isidentifier", "istitle")


def _foldable():
    import posixpath
    import urllib.parse as up

    return {
        "urllib.parse.quote": up.quote, "urllib.parse.unquote": up.unquote,
        "urllib.parse.quote_plus": up.quote_plus, "urllib.parse.unquote_plus": up.unquote_plus,
        "posixpath.normpath": posixpath.normpath, "posixpath.join": posixpath.join,
    }


_FOLDABLE = _foldable()


class Interp:
    def __init__(self, proj: Project, fi: FunctionInfo, depth: int = 0, args: dict | None = None) -> None:
        self.proj = proj
        self.fi = fi
        self.depth = depth
        self.res = Resolver(proj)
        self.args = args or {}
        # values for names/attribute chains that the state does not define
        # (rule-supplied abstract samples, e.g. the fields of a parse result)
        self.oracle: dict = {}
        # optional hook: call node -> abstract value (or None to fall through)
        self.call_oracle = None

    # ----------------------------------------------------------- lookups
    def _field_type(self, chain: str) -> str | None:
        """Annotation of ``self.a.b`` / ``param.field`` through dataclass-like
        class annotations: returns 'int' | 'str' | 'bool' | 'float' | None."""
        parts = chain.split(".")
        if len(parts) < 2:
            return None
        base = ast.Name(id=parts[0], ctx=ast.Load())
        types = self.res.receiver_types(self.fi, base)
        for p in parts[1:-1]:
            nxt = set()
            for t in types:
                ci = self.proj.lookup_internal(t)
                if isinstance(ci, ClassInfo):
                    for c in self.res._mro(ci):
                        if p in c.attr_types:
                            for d in c.attr_types[p]:
                                nxt.add(self.proj.resolve_name(c.module, d))
                            break
            types = nxt
        last = parts[-1]
        for t in types:
            ci = self.proj.lookup_internal(t)
            if isinstance(ci, ClassInfo):
                for c in self.res._mro(ci):
                    if last in c.attr_types:
                        names = c.attr_types[last]
                        for prim in ("int", "str", "bool", "float", "bytes"):
                            if names == {prim}:
                                return prim
                        return None
        return None

    def _enum_value(self, chain: str):
        """``StatusCode.X.value`` -> int literal from the enum's class body."""
        parts = chain.split(".")
        if len(parts) == 3 and parts[2] == "value":
            ci = self.proj.class_of_type(self.fi.module, parts[0])
            if ci is not None:
                for st in ci.node.body:
                    if isinstance(st, ast.Assign) and any(isinstance(t, ast.Name) and t.id == parts[1] for t in st.targets):
                        if isinstance(st.value, ast.Constant) and isinstance(st.value.value, int):
                            return IntV(st.value.value, st.value.value)
        return None

    def _enum_range(self, cls_dotted: str):
        ci = self.proj.class_of_type(self.fi.module, cls_dotted)
        if ci is None or not any(b.split(".")[-1] in ("IntEnum", "Enum") for b in ci.bases):
            return None
        vals = [
            st.value.value for st in ci.node.body
            if isinstance(st, ast.Assign) and isinstance(st.value, ast.Constant) and isinstance(st.value.value, int)
        ]
        return IntV(min(vals), max(vals)) if vals else None

    # -------------------------------------------------------------- eval
    def eval(self, e: ast.AST | None, st: dict):
        if e is None:
            return TOP
        if isinstance(e, ast.Constant):
            v = e.value
            if isinstance(v, bool):
                return BoolV(v)
            if isinstance(v, int):
                return IntV(v, v)
            if isinstance(v, (str, bytes)):
                return lit(v)
            if v is None:
                return NoneV()
            return TOP
        if isinstance(e, (ast.Name, ast.Attribute)):
            d = dotted(e)
            if d is None:
                # attribute of a call result etc.
                if isinstance(e, ast.Attribute) and e.attr == "value":
                    return TOP
                return TOP
            if d in st:
                return st[d]
            if d in self.oracle:
                return self.oracle[d]
            ev = self._enum_value(d)
            if ev is not None:
                return ev
            if d.endswith(".value"):
                # <param typed as an IntEnum>.value
                base = d[: -len(".value")]
                for a in self.fi.node.args.args + self.fi.node.args.kwonlyargs:
                    if a.arg == base and a.annotation is not None:
                        r = self._enum_range(dotted(a.annotation) or "")
                        if r is not None:
                            return r
            cv = self.proj.const_value(self.fi.module, d) if "." not in d else None
            if isinstance(cv, bool):
                return BoolV(cv)
            if isinstance(cv, int):
                return IntV(cv, cv)
            if isinstance(cv, (str, bytes)):
                return lit(cv)
            if cv is None and "." not in d and d not in st:
                # module-level literal collection: _UTF8_NAMES = ("utf-8", "utf8")
                ce = self.proj.const_expr(self.fi.module, d)
                if ce is not None and isinstance(ce[1], (ast.Tuple, ast.List, ast.Set)) and all(isinstance(x, ast.Constant) for x in ce[1].elts):
                    return self.eval(ce[1], st)
                if ce is not None and isinstance(ce[1], ast.Call) and dotted(ce[1].func) in ("frozenset", "set", "tuple") and len(ce[1].args) == 1 and isinstance(ce[1].args[0], (ast.Tuple, ast.List, ast.Set)) and all(isinstance(x, ast.Constant) for x in ce[1].args[0].elts):
                    return self.eval(ce[1].args[0], st)
            ft = self._field_type(d)
            if ft == "int":
                return IntV(None, None)
            if ft == "bool":
                return BoolV(None)
            if ft == "str":
                return StrV("str")
            if ft == "bytes":
                return StrV("bytes")
            return TOP
        if isinstance(e, ast.JoinedStr):
            acc = lit("")
            for part in e.values:
                if isinstance(part, ast.Constant):
                    acc = concat(acc, lit(part.value))
                elif isinstance(part, ast.FormattedValue):
                    acc = concat(acc, self._to_str(self.eval(part.value, st), part))
            return acc
        if isinstance(e, ast.BinOp):
            a, b = self.eval(e.left, st), self.eval(e.right, st)
            if isinstance(e.op, ast.Add):
                if isinstance(a, StrV) or isinstance(b, StrV):
                    return concat(a if isinstance(a, StrV) else StrV(), b if isinstance(b, StrV) else StrV())
                if isinstance(a, IntV) and isinstance(b, IntV):
                    return IntV(
                        None if a.lo is None or b.lo is None else a.lo + b.lo,
                        None if a.hi is None or b.hi is None else a.hi + b.hi,
                    )
            if isinstance(e.op, ast.Sub) and isinstance(a, IntV) and isinstance(b, IntV):
                return IntV(
                    None if a.lo is None or b.hi is None else a.lo - b.hi,
                    None if a.hi is None or b.lo is None else a.hi - b.lo,
                )
            if isinstance(e.op, ast.Mult) and isinstance(a, IntV) and isinstance(b, IntV):
                if None not in (a.lo, a.hi, b.lo, b.hi):
                    ps = [a.lo * b.lo, a.lo * b.hi, a.hi * b.lo, a.hi * b.hi]
                    return IntV(min(ps), max(ps))
                if a.lo is not None and b.lo is not None and a.lo >= 0 and b.lo >= 0:
                    return IntV(a.lo * b.lo, None)
                return IntV(None, None)
            if isinstance(e.op, ast.Mod) and isinstance(a, StrV):
                return StrV(a.kind)
            return TOP
        if isinstance(e, ast.UnaryOp) and isinstance(e.op, ast.Not):
            t = self.eval_test(e.operand, st)
            return BoolV(None if t is None else not t)
        if isinstance(e, ast.Compare):
            return BoolV(self._cmp(e, st))
        if isinstance(e, ast.IfExp):
            t = self.eval_test(e.test, st)
            if t is True:
                return self.eval(e.body, self.refine(st, e.test, True))
            if t is False:
                return self.eval(e.orelse, self.refine(st, e.test, False))
            return join(self.eval(e.body, self.refine(st, e.test, True)), self.eval(e.orelse, self.refine(st, e.test, False)))
        if isinstance(e, ast.BoolOp):
            vals = [self.eval(v, st) for v in e.values]
            # short-circuit value semantics when truthiness is known
            is_or = isinstance(e.op, ast.Or)
            out = None
            for v in vals:
                t = truthy(v)
                if t is None:
                    out = None
                    break
                out = v
                if t == is_or:
                    break
            if out is not None:
                return out
            out = vals[0]
            for v in vals[1:]:
                out = join(out, v)
            return out
        if isinstance(e, ast.Subscript):
            base = self.eval(e.value, st)
            if isinstance(base, StrV) and isinstance(e.slice, ast.Slice):
                return self._slice(base, e.slice, st)
            if isinstance(base, StrV) and isinstance(base.exact, str):
                # exact string indexed by an exact integer: the character (IndexError paths are
                # the caller's concern: an out-of-range index stays unknown)
                iv = self.eval(e.slice, st)
                if isinstance(iv, IntV) and iv.lo is not None and iv.lo == iv.hi and -len(base.exact) <= iv.lo < len(base.exact):
                    return lit(base.exact[iv.lo])
            if isinstance(base, _Elems):
                return base.elem
            if isinstance(base, TupleV) and not isinstance(e.slice, ast.Slice):
                iv = self.eval(e.slice, st)
                if isinstance(iv, IntV) and iv.lo is not None and iv.lo == iv.hi and -len(base.elts) <= iv.lo < len(base.elts):
                    return base.elts[iv.lo]
            return TOP
        if isinstance(e, ast.Call):
            return self._call(e, st)
        if isinstance(e, ast.Await):
            return self.eval(e.value, st)
        if isinstance(e, ast.NamedExpr):
            return self.eval(e.value, st)
        if isinstance(e, ast.Tuple):
            return TupleV(tuple(self.eval(x, st) for x in e.elts))
        if isinstance(e, (ast.List, ast.Set)):
            vals = [self.eval(x, st) for x in e.elts]
            if all(isinstance(v, StrV) and isinstance(v.exact, str) for v in vals):
                return SetV(frozenset(v.exact for v in vals))
            return TOP
        return TOP

    def _to_str(self, v, part: ast.FormattedValue | None = None):
        if isinstance(v, IntV):
            if part is not None and part.format_spec is not None:
                return StrV("str", True, True, INT_FMT_BYTES)
            if v.lo is not None and v.hi is not None and v.lo >= 0:
                n = len(str(v.hi))
                if v.lo == v.hi:
                    return lit(str(v.lo))
                return StrV("str", True, True, n, None, None)
            return StrV("str", True, True, INT_FMT_BYTES)
        if isinstance(v, StrV) and v.kind == "str":
            return v
        if isinstance(v, BoolV):
            return StrV("str", True, True, 5)
        return StrV("str")

    def _slice(self, base: StrV, sl: ast.Slice, st):
        if sl.step is not None:
            return StrV(base.kind, base.no_cr, base.no_lf, base.maxb)
        if base.exact is not None:
            lo = self.eval(sl.lower, st) if sl.lower is not None else None
            hi = self.eval(sl.upper, st) if sl.upper is not None else None

            def exact_int(v):
                return v.lo if isinstance(v, IntV) and v.lo is not None and v.lo == v.hi else None

            a = None if lo is None else exact_int(lo)
            b = None if hi is None else exact_int(hi)
            if (lo is None or a is not None) and (hi is None or b is not None):
                return lit(base.exact[a:b])
        up = self.eval(sl.upper, st) if sl.upper is not None else None
        maxb = base.maxb
        if isinstance(up, IntV) and up.hi is not None and up.hi >= 0:
            bound = up.hi if base.kind == "bytes" else 4 * up.hi
            maxb = bound if maxb is None else min(maxb, bound)
        prefix = base.prefix if sl.lower is None else None
        if prefix is not None and isinstance(up, IntV) and up.lo is not None and up.lo >= 0:
            prefix = prefix[: up.lo]
        elif sl.upper is not None and not isinstance(up, IntV):
            prefix = None
        return StrV(base.kind, base.no_cr, base.no_lf, maxb, prefix or None)

    def _call(self, c: ast.Call, st):
        f = c.func
        d = dotted(f) or ""
        mc = method_call(c)
        if self.call_oracle is not None:
            r = self.call_oracle(c)
            if r is not None:
                return r
        rk = f"$ret:{id(c)}"
        if rk in st:
            return st[rk]
        if d in ("set", "frozenset", "list", "tuple", "sorted") and len(c.args) <= 1:
            if not c.args:
                return SetV(frozenset())
            v = self.eval(c.args[0], st)
            if isinstance(v, SetV):
                return v
            return TOP
        # builtins
        if d == "str" and len(c.args) == 1:
            return self._to_str(self.eval(c.args[0], st))
        if d == "int":
            if len(c.args) == 1 and not c.keywords:
                v = self.eval(c.args[0], st)
                if isinstance(v, StrV) and isinstance(v.exact, str):
                    try:
                        k = int(v.exact)
                        return IntV(k, k)
                    except ValueError:
                        pass
                if isinstance(v, IntV):
                    return v
            return IntV(None, None)
        if d == "re.split" and len(c.args) >= 2:
            pat, subj = self.eval(c.args[0], st), self.eval(c.args[1], st)
            ms = self.eval(c.args[2], st) if len(c.args) > 2 else next((self.eval(k.value, st) for k in c.keywords if k.arg == "maxsplit"), IntV(0, 0))
            if isinstance(pat, StrV) and isinstance(pat.exact, str) and isinstance(subj, StrV) and isinstance(subj.exact, str) and isinstance(ms, IntV) and ms.lo is not None and ms.lo == ms.hi:
                try:
                    return TupleV(tuple(lit(x) for x in re.split(pat.exact, subj.exact, maxsplit=ms.lo) if isinstance(x, str)))
                except re.error:
                    pass
        if d in ("re.fullmatch", "re.match", "re.search") and len(c.args) == 2 and not c.keywords:
            pat, subj = self.eval(c.args[0], st), self.eval(c.args[1], st)
            if isinstance(pat, StrV) and isinstance(pat.exact, str) and isinstance(subj, StrV) and isinstance(subj.exact, str):
                try:
                    return ObjV("match") if getattr(re, d[3:])(pat.exact, subj.exact) is not None else NoneV()
                except re.error:
                    pass
        if d == "float" and len(c.args) == 1:
            v = self.eval(c.args[0], st)
            return v if isinstance(v, IntV) else IntV(None, None)
        if d == "len" and c.args:
            v = self.eval(c.args[0], st)
            if isinstance(v, StrV) and v.exact is not None:
                return IntV(len(v.exact), len(v.exact))
            if isinstance(v, StrV):
                return IntV(0, v.maxb)
            if isinstance(v, _Elems):
                return IntV(v.minlen, None)
            if isinstance(v, TupleV):
                return IntV(len(v.elts), len(v.elts))
            if isinstance(v, SetV):
                return IntV(len(v.items), len(v.items))
            return IntV(0, None)
        if d in ("any", "all") and len(c.args) == 1 and isinstance(c.args[0], (ast.GeneratorExp, ast.ListComp)) and len(c.args[0].generators) == 1:
            # any(<cond(x)> for x in (<literals>)): the condition evaluated for each literal
            gen = c.args[0].generators[0]
            if isinstance(gen.target, ast.Name) and isinstance(gen.iter, (ast.Tuple, ast.List, ast.Set)) and not gen.is_async:
                results = []
                for el in gen.iter.elts:
                    st2 = dict(st)
                    st2[gen.target.id] = self.eval(el, st)
                    if any(self.eval_test(cond, st2) is not True for cond in gen.ifs):
                        if all(self.eval_test(cond, st2) is False for cond in gen.ifs if self.eval_test(cond, st2) is not True):
                            continue  # filtered out for certain
                        results.append(None)
                        continue
                    results.append(self.eval_test(c.args[0].elt, st2))
                if d == "any":
                    if any(r is True for r in results):
                        return BoolV(True)
                    if all(r is False for r in results):
                        return BoolV(False)
                else:
                    if any(r is False for r in results):
                        return BoolV(False)
                    if all(r is True for r in results):
                        return BoolV(True)
                return BoolV(None)
        if d in ("min", "max") and len(c.args) == 2:
            a, b = self.eval(c.args[0], st), self.eval(c.args[1], st)
            if isinstance(a, IntV) and isinstance(b, IntV):
                if d == "min":
                    hi = min(x for x in (a.hi, b.hi) if x is not None) if (a.hi is not None or b.hi is not None) else None
                    lo = None if a.lo is None or b.lo is None else min(a.lo, b.lo)
                    return IntV(lo, hi)
                lo = max(x for x in (a.lo, b.lo) if x is not None) if (a.lo is not None or b.lo is not None) else None
                hi = None if a.hi is None or b.hi is None else max(a.hi, b.hi)
                return IntV(lo, hi)
        if d in ("re.sub",) and len(c.args) >= 3:
            pat, repl, subj = c.args[0], self.eval(c.args[1], st), self.eval(c.args[2], st)
            if isinstance(subj, StrV) and isinstance(pat, ast.Constant) and isinstance(pat.value, str) and isinstance(repl, StrV):
                try:
                    rx = re.compile(pat.value)
                    kills_cr = rx.fullmatch("\r") is not None
                    kills_lf = rx.fullmatch("\n") is not None
                except re.error:
                    kills_cr = kills_lf = False
                grow = repl.exact is None or len(repl.exact) > 1
                return StrV(
                    "str",
                    (subj.no_cr or kills_cr) and repl.no_cr,
                    (subj.no_lf or kills_lf) and repl.no_lf,
                    None if grow else subj.maxb,
                )
            return StrV("str")
        if mc is not None and mc[1] in ("fullmatch", "match", "search") and isinstance(mc[0], ast.Name) and len(c.args) == 1 and not c.keywords:
            # <module-level compiled pattern>.fullmatch(<exact text>)
            ce = self.proj.const_expr(self.fi.module, mc[0].id)
            if ce is not None and isinstance(ce[1], ast.Call) and (dotted(ce[1].func) or "") == "re.compile" and len(ce[1].args) == 1 and isinstance(ce[1].args[0], ast.Constant) and isinstance(ce[1].args[0].value, str):
                subj = self.eval(c.args[0], st)
                if isinstance(subj, StrV) and isinstance(subj.exact, str):
                    try:
                        return ObjV("match") if getattr(re.compile(ce[1].args[0].value), mc[1])(subj.exact) is not None else NoneV()
                    except re.error:
                        pass
        folded = self._fold_stdlib(c, st)
        if folded is not None:
            return folded
        if mc is not None:
            recv_e, name = mc
            recv = self.eval(recv_e, st)
            if recv is TOP and name in ("replace", "encode", "translate", "splitlines", "strip", "lstrip", "rstrip", "split", "rsplit", "partition"):
                # duck-typed text: these calls only make sense on str/bytes
                recv = StrV("bytes" if name == "decode" else "str")
            if isinstance(recv, StrV):
                r = self._str_method(recv, name, c, st)
                if r is not None:
                    return r
            if name == "join" and isinstance(recv, StrV) and c.args:
                return self._join(recv, c.args[0], st)
        # package helper: summarise
        if self.depth < 3:
            callee = self.res.resolve(self.fi, c)
            if callee is not None and callee.node.name != "__init__":
                return summarise(self.proj, callee, c, self, st)
        return TOP

    def _fold_stdlib(self, c: ast.Call, st):
        """Constant folding of pure standard-library string functions on exact
        arguments (the library, not repository code, is evaluated)."""
        try:
            ext = self.res.external_name(self.fi, c)
        except Exception:  # noqa: BLE001
            ext = None
        if ext not in _FOLDABLE:
            return None
        args, kw = [], {}
        for a in c.args:
            v = self.eval(a, st)
            if isinstance(v, StrV) and v.exact is not None:
                args.append(v.exact)
            else:
                return None
        for k in c.keywords:
            v = self.eval(k.value, st) if k.arg else None
            if k.arg and isinstance(v, StrV) and v.exact is not None:
                kw[k.arg] = v.exact
            else:
                return None
        try:
            r = _FOLDABLE[ext](*args, **kw)
        except Exception:  # noqa: BLE001
            return None
        return lit(r) if isinstance(r, (str, bytes)) else None

    def _str_method(self, recv: StrV, name: str, c: ast.Call, st):
        args = [self.eval(a, st) for a in c.args]
        kw = {k.arg: self.eval(k.value, st) for k in c.keywords if k.arg}
        if name == "replace" and len(args) >= 2 and all(isinstance(a, StrV) and a.exact is not None for a in args[:2]):
            old, new = args[0].exact, args[1].exact
            o = old if isinstance(old, str) else old.decode("latin-1")
            n = new if isinstance(new, str) else new.decode("latin-1")
            no_cr = (recv.no_cr or o == "\r") and "\r" not in n
            no_lf = (recv.no_lf or o == "\n") and "\n" not in n
            maxb = recv.maxb if len(n.encode()) <= len(o.encode()) else None
            return StrV(recv.kind, no_cr, no_lf, maxb)
        if name == "encode":
            return StrV("bytes", recv.no_cr, recv.no_lf, recv.maxb, recv.prefix, recv.exact.encode("utf-8", "replace") if isinstance(recv.exact, str) else None)
        if name == "decode":
            errors = kw.get("errors") or (args[1] if len(args) > 1 else None)
            mode = errors.exact if isinstance(errors, StrV) else "strict"
            maxb = recv.maxb
            if mode == "replace":
                maxb = None if maxb is None else 3 * maxb
            elif mode not in ("strict", "ignore"):
                maxb = None
            return StrV("str", recv.no_cr, recv.no_lf, maxb, recv.prefix if mode in ("strict", "ignore") else None)
        if name in ("strip", "lstrip", "rstrip", "lower", "upper") and isinstance(recv.exact, str) and all(isinstance(a, StrV) and isinstance(a.exact, str) for a in args):
            return lit(getattr(recv.exact, name)(*[a.exact for a in args]))
        if name in ("strip", "lstrip", "rstrip", "lower", "upper", "casefold", "title", "capitalize", "swapcase"):
            keep_prefix = recv.prefix if name in ("rstrip",) else None
            maxb = recv.maxb if name in ("strip", "lstrip", "rstrip") else (None if recv.maxb is None else recv.maxb * 3)
            return StrV(recv.kind, recv.no_cr, recv.no_lf, maxb, keep_prefix)
        if name == "splitlines":
            return _Elems(StrV(recv.kind, True, True, recv.maxb))
        if name in ("split", "rsplit", "partition", "rpartition") and isinstance(recv.exact, str) and args and not kw:
            # exact string, exact separator (and count): the exact parts (library fact)
            ex = []
            for a in args:
                if isinstance(a, StrV) and isinstance(a.exact, str):
                    ex.append(a.exact)
                elif isinstance(a, IntV) and a.lo is not None and a.lo == a.hi:
                    ex.append(a.lo)
                else:
                    ex = None
                    break
            if ex is not None:
                try:
                    return TupleV(tuple(lit(x) for x in getattr(recv.exact, name)(*ex)))
                except (TypeError, ValueError):
                    pass
        if name in ("split", "rsplit", "partition", "rpartition"):
            sep = args[0] if args else None
            no_cr, no_lf = recv.no_cr, recv.no_lf
            if sep is None or isinstance(sep, NoneV):
                no_cr = no_lf = True  # whitespace split
            elif isinstance(sep, StrV) and sep.exact is not None:
                sx = sep.exact if isinstance(sep.exact, str) else sep.exact.decode("latin-1")
                if sx == "\r":
                    no_cr = True
                if sx == "\n":
                    no_lf = True
            ml = 3 if name in ("partition", "rpartition") else (1 if sep is not None and not isinstance(sep, NoneV) else 0)
            return _Elems(StrV(recv.kind, no_cr, no_lf, recv.maxb), ml)
        if name == "translate" and c.args:
            t = c.args[0]
            dropped = set()
            if isinstance(t, ast.Dict):
                for k, v in zip(t.keys, t.values):
                    if isinstance(k, ast.Constant) and isinstance(k.value, int):
                        vv = self.eval(v, st)
                        if isinstance(vv, NoneV) or (isinstance(vv, StrV) and vv.no_cr and vv.no_lf) or (isinstance(vv, IntV) and vv.lo == vv.hi and vv.lo not in (10, 13)):
                            dropped.add(k.value)
            elif isinstance(t, ast.Call) and (dotted(t.func) or "").endswith("maketrans") and len(t.args) >= 2:
                a0, a1 = self.eval(t.args[0], st), self.eval(t.args[1], st)
                if isinstance(a0, StrV) and isinstance(a0.exact, str) and isinstance(a1, StrV) and a1.no_cr and a1.no_lf:
                    dropped |= {ord(ch) for ch in a0.exact}
                if len(t.args) == 3:
                    a2 = self.eval(t.args[2], st)
                    if isinstance(a2, StrV) and isinstance(a2.exact, str):
                        dropped |= {ord(ch) for ch in a2.exact}
            return StrV(recv.kind, recv.no_cr or 13 in dropped, recv.no_lf or 10 in dropped, None)
        if name in ("format", "format_map", "expandtabs", "center", "ljust", "rjust", "zfill"):
            return StrV(recv.kind)
        if name in ("startswith", "endswith") and isinstance(recv.exact, str) and args and isinstance(args[0], StrV) and isinstance(args[0].exact, str):
            return BoolV(getattr(recv.exact, name)(args[0].exact))
        if name == "startswith" and recv.prefix is not None and args and isinstance(args[0], StrV) and isinstance(args[0].exact, str):
            if recv.prefix.startswith(args[0].exact):
                return BoolV(True)
        if name in _STR_PREDICATES and isinstance(recv.exact, str) and not args:
            # argument-free predicates of the str type, folded on an exact string (library fact)
            return BoolV(getattr(recv.exact, name)())
        if name in ("startswith", "endswith") or name in _STR_PREDICATES:
            return BoolV(None)
        return None

    def _join(self, sep: StrV, arg: ast.AST, st):
        # "".join(genexp filtering characters) / " ".join(x.split())
        if isinstance(arg, (ast.GeneratorExp, ast.ListComp)) and len(arg.generators) == 1:
            gen = arg.generators[0]
            src = self.eval(gen.iter, st)
            if isinstance(src, StrV) and isinstance(gen.target, ast.Name) and isinstance(arg.elt, ast.Name) and arg.elt.id == gen.target.id:
                no_cr, no_lf = src.no_cr, src.no_lf
                for cond in gen.ifs:
                    k_cr, k_lf = _char_filter(cond, gen.target.id)
                    no_cr, no_lf = no_cr or k_cr, no_lf or k_lf
                return StrV(src.kind, no_cr and sep.no_cr, no_lf and sep.no_lf, src.maxb if sep.exact in ("", b"") else None)
        v = self.eval(arg, st)
        if isinstance(v, _Elems) and isinstance(v.elem, StrV):
            e = v.elem
            return StrV(e.kind, e.no_cr and sep.no_cr, e.no_lf and sep.no_lf, e.maxb if sep.maxb is not None and sep.maxb <= 1 else None)
        return StrV(sep.kind)

    # ------------------------------------------------------------- tests
    def eval_test(self, t: ast.AST, st) -> bool | None:
        if isinstance(t, ast.UnaryOp) and isinstance(t.op, ast.Not):
            r = self.eval_test(t.operand, st)
            return None if r is None else not r
        if isinstance(t, ast.BoolOp):
            rs = [self.eval_test(v, st) for v in t.values]
            if isinstance(t.op, ast.And):
                if any(r is False for r in rs):
                    return False
                return True if all(r is True for r in rs) else None
            if any(r is True for r in rs):
                return True
            return False if all(r is False for r in rs) else None
        if isinstance(t, ast.Compare):
            return self._cmp(t, st)
        if isinstance(t, ast.Call):
            inl = self._pred_inline(t)
            if inl is not None:
                return self.eval_test(inl, st)
            return truthy(self.eval(t, st))
        return truthy(self.eval(t, st))

    def _cmp(self, t: ast.Compare, st) -> bool | None:
        vals = [self.eval(x, st) for x in [t.left] + list(t.comparators)]
        res: bool | None = True
        for i, op in enumerate(t.ops):
            a, b = vals[i], vals[i + 1]
            if isinstance(b, TupleV) and all(isinstance(x, StrV) and isinstance(x.exact, str) for x in b.elts):
                b = SetV(frozenset(x.exact for x in b.elts))
            r = None
            if isinstance(a, IntV) and isinstance(b, IntV):
                r = _cmp_int(a, op, b)
            elif isinstance(op, (ast.In, ast.NotIn)) and isinstance(a, StrV) and isinstance(b, StrV) and a.exact is not None:
                ax = a.exact if isinstance(a.exact, str) else a.exact.decode("latin-1")
                if b.exact is not None:
                    bx = b.exact if isinstance(b.exact, str) else b.exact.decode("latin-1")
                    r = ax in bx
                elif (ax == "\r" and b.no_cr) or (ax == "\n" and b.no_lf) or (("\r" in ax) and b.no_cr) or (("\n" in ax) and b.no_lf):
                    r = False
                if r is not None and isinstance(op, ast.NotIn):
                    r = not r
            elif isinstance(op, (ast.In, ast.NotIn)) and isinstance(b, SetV) and isinstance(a, StrV) and a.exact is not None:
                r = a.exact in b.items
                if isinstance(op, ast.NotIn):
                    r = not r
            elif isinstance(op, (ast.Eq, ast.NotEq)) and isinstance(a, StrV) and isinstance(b, StrV) and a.exact is not None and b.exact is not None:
                r = a.exact == b.exact
                if isinstance(op, ast.NotEq):
                    r = not r
            elif isinstance(op, (ast.Lt, ast.LtE, ast.Gt, ast.GtE)) and isinstance(a, StrV) and isinstance(b, StrV) and isinstance(a.exact, str) and isinstance(b.exact, str):
                r = {ast.Lt: a.exact < b.exact, ast.LtE: a.exact <= b.exact, ast.Gt: a.exact > b.exact, ast.GtE: a.exact >= b.exact}[type(op)]
            elif isinstance(op, (ast.Eq, ast.NotEq)) and ((isinstance(a, NoneV) and isinstance(b, StrV)) or (isinstance(b, NoneV) and isinstance(a, StrV))):
                r = isinstance(op, ast.NotEq)
            elif isinstance(op, (ast.Is, ast.IsNot)) and isinstance(b, NoneV):
                if isinstance(a, NoneV):
                    r = True
                elif isinstance(a, (IntV, StrV, BoolV, SetV, ObjV, TupleV)):
                    r = False
                if r is not None and isinstance(op, ast.IsNot):
                    r = not r
            if r is False:
                return False
            if r is None:
                res = None
        return res

    def _pred_inline(self, c: ast.Call) -> ast.AST | None:
        """Inline a pure predicate of the package: ``is_success(x)`` ->
        ``20 <= x < 30`` with the argument substituted."""
        callee = self.res.resolve(self.fi, c)
        if callee is None:
            return None
        body = [s for s in callee.node.body if not (isinstance(s, ast.Expr) and isinstance(s.value, ast.Constant))]
        if len(body) != 1 or not isinstance(body[0], ast.Return) or body[0].value is None:
            return None
        params = [p for p in callee.params if p not in ("self", "cls")]
        args = list(c.args)
        mc = method_call(c)
        bind: dict[str, ast.AST] = {}
        if callee.cls is not None and mc is not None and callee.params and callee.params[0] == "self":
            bind["self"] = mc[0]
        if len(args) > len(params):
            return None
        for p, a in zip(params, args):
            bind[p] = a
        expr = body[0].value

        class Sub(ast.NodeTransformer):
            def visit_Name(self, n):  # noqa: N802
                return bind.get(n.id, n) if isinstance(n.ctx, ast.Load) else n

        import copy

        new = Sub().visit(copy.deepcopy(expr))
        # nested predicate calls inside are resolved in the callee's module:
        # only accept when the result no longer mentions unbound params
        if any(isinstance(n, ast.Name) and n.id in params and n.id not in bind for n in ast.walk(new)):
            return None
        # calls inside the inlined body refer to the callee's namespace
        for n in ast.walk(new):
            if isinstance(n, ast.Call) and isinstance(n.func, ast.Name):
                inner = Interp(self.proj, callee, self.depth + 1)._pred_inline(n)
                if inner is None:
                    return None
                # replace in place is awkward; bail out to keep it sound
                return self._pred_inline_nested(callee, new)
        return ast.fix_missing_locations(new)

    def _pred_inline_nested(self, callee: FunctionInfo, expr: ast.AST) -> ast.AST | None:
        sub = Interp(self.proj, callee, self.depth + 1)

        class T(ast.NodeTransformer):
            def visit_Call(self2, n):  # noqa: N802,N805
                self2.generic_visit(n)
                r = sub._pred_inline(n)
                return r if r is not None else n

        return ast.fix_missing_locations(T().visit(expr))

    # ----------------------------------------------------------- refine
    def refine(self, st: dict, t: ast.AST, outcome: bool) -> dict:
        if isinstance(t, ast.UnaryOp) and isinstance(t.op, ast.Not):
            return self.refine(st, t.operand, not outcome)
        if isinstance(t, ast.BoolOp):
            if isinstance(t.op, ast.And) and outcome:
                for v in t.values:
                    st = self.refine(st, v, True)
                return st
            if isinstance(t.op, ast.Or) and not outcome:
                for v in t.values:
                    st = self.refine(st, v, False)
                return st
            return st
        if isinstance(t, ast.Call):
            inl = self._pred_inline(t)
            if inl is not None:
                return self.refine(st, inl, outcome)
            mc = method_call(t)
            if mc and mc[1] == "startswith" and outcome and t.args:
                d = dotted(mc[0])
                a = self.eval(t.args[0], st)
                if d and isinstance(a, StrV) and isinstance(a.exact, str):
                    cur = self.eval(mc[0], st)
                    cur = cur if isinstance(cur, StrV) else StrV("str")
                    if cur.exact is None:
                        st = dict(st)
                        st[d] = replace(cur, prefix=a.exact)
                return st
            if dotted(t.func) == "any" and not outcome and t.args and isinstance(t.args[0], ast.GeneratorExp):
                # not any(c in x for c in "\r\n")
                ge = t.args[0]
                if len(ge.generators) == 1 and isinstance(ge.elt, ast.Compare) and len(ge.elt.ops) == 1 and isinstance(ge.elt.ops[0], ast.In):
                    chars = self.eval(ge.generators[0].iter, st)
                    d = dotted(ge.elt.comparators[0])
                    if d and isinstance(chars, StrV) and isinstance(chars.exact, str):
                        cur = self.eval(ge.elt.comparators[0], st)
                        cur = cur if isinstance(cur, StrV) else StrV("str")
                        st = dict(st)
                        st[d] = replace(cur, no_cr=cur.no_cr or "\r" in chars.exact, no_lf=cur.no_lf or "\n" in chars.exact)
                return st
            return st
        if isinstance(t, ast.Compare):
            return self._refine_cmp(st, t, outcome)
        if isinstance(t, (ast.Name, ast.Attribute)):
            d = dotted(t)
            if d:
                cur = self.eval(t, st)
                if not outcome and isinstance(cur, StrV):
                    st = dict(st)
                    st[d] = lit(b"" if cur.kind == "bytes" else "")
            return st
        return st

    def _refine_cmp(self, st, t: ast.Compare, outcome: bool):
        operands = [t.left] + list(t.comparators)
        # membership tests on strings
        if len(t.ops) == 1 and isinstance(t.ops[0], (ast.In, ast.NotIn)):
            a = self.eval(t.left, st)
            d = dotted(t.comparators[0])
            absent = outcome == isinstance(t.ops[0], ast.NotIn)
            if d and absent and isinstance(a, StrV) and a.exact is not None:
                ax = a.exact if isinstance(a.exact, str) else a.exact.decode("latin-1")
                cur = self.eval(t.comparators[0], st)
                cur = cur if isinstance(cur, StrV) else StrV("str")
                st = dict(st)
                st[d] = replace(cur, no_cr=cur.no_cr or ax == "\r", no_lf=cur.no_lf or ax == "\n", exact=None if cur.exact is None else cur.exact)
            return st
        if not outcome and len(t.ops) > 1:
            return st  # negation of a chain is a disjunction: no refinement
        st = dict(st)
        for i, op in enumerate(t.ops):
            l, r = operands[i], operands[i + 1]
            o = op
            if not outcome:
                o = _negate(op)
                if o is None:
                    continue
            lv, rv = self.eval(l, st), self.eval(r, st)
            self._bound(st, l, o, rv, True)
            self._bound(st, r, o, lv, False)
        return st

    def _bound(self, st, target: ast.AST, op, other, target_is_left: bool) -> None:
        """Refine ``target`` given ``target op other`` (or ``other op target``)."""
        if not isinstance(other, IntV):
            return
        # length tests
        if isinstance(target, ast.Call) and dotted(target.func) == "len" and target.args:
            inner = target.args[0]
            via_encode = False
            if isinstance(inner, ast.Call) and method_call(inner) and method_call(inner)[1] == "encode":
                inner = method_call(inner)[0]
                via_encode = True
            d = dotted(inner)
            if not d:
                return
            hi = _upper(op, other, target_is_left)
            if hi is None:
                return
            cur = self.eval(inner, st)
            cur = cur if isinstance(cur, StrV) else StrV("str")
            bound = hi if (via_encode or cur.kind == "bytes") else 4 * hi
            st[d] = replace(cur, maxb=bound if cur.maxb is None else min(cur.maxb, bound))
            return
        d = dotted(target)
        if not d:
            return
        cur = self.eval(target, st)
        if not isinstance(cur, IntV):
            cur = IntV(None, None) if cur is TOP else cur
        if not isinstance(cur, IntV):
            return
        lo, hi = cur.lo, cur.hi
        nh = _upper(op, other, target_is_left)
        nl = _lower(op, other, target_is_left)
        if nh is not None:
            hi = nh if hi is None else min(hi, nh)
        if nl is not None:
            lo = nl if lo is None else max(lo, nl)
        if isinstance(op, ast.Eq) and other.lo == other.hi and other.lo is not None:
            lo = hi = other.lo
        st[d] = IntV(lo, hi)

    # ------------------------------------------------------ statements
    def exec(self, node: Node, st: dict) -> dict:
        a = node.ast
        if node.kind != "stmt" or a is None:
            return st
        if isinstance(a, ast.Assign):
            v = self.eval(a.value, st)
            st = dict(st)
            for t in a.targets:
                self._assign(st, t, v)
            return st
        if isinstance(a, ast.AnnAssign) and a.value is not None:
            st = dict(st)
            self._assign(st, a.target, self.eval(a.value, st))
            return st
        if isinstance(a, ast.AugAssign):
            d = dotted(a.target)
            if d:
                st = dict(st)
                if isinstance(a.op, (ast.Add, ast.Sub, ast.Mult)):
                    st[d] = self.eval(ast.BinOp(left=a.target, op=a.op, right=a.value), st)
                else:
                    st[d] = TOP
            return st
        return st

    def _assign(self, st, t, v) -> None:
        if isinstance(t, (ast.Tuple, ast.List)):
            if isinstance(v, TupleV) and len(v.elts) == len(t.elts):
                for e, ev in zip(t.elts, v.elts):
                    self._assign(st, e, ev)
                return
            for e in t.elts:
                self._assign(st, e, TOP)
            return
        d = dotted(t)
        if d:
            for k in [k for k in st if k.startswith(d + ".")]:
                del st[k]
            st[d] = v

    # ---------------------------------------------------------- paths
    def run_paths(self, g: Graph, watch, init: dict | None = None, max_paths: int = 20000, follow=normal_only):
        """Walk all feasible normal paths from entry to exit.  ``watch(node)``
        returns a list of expressions to evaluate when the node is reached
        (before executing it).  Yields (path, records) with records =
        [(node, [AbsVal,...], state)]."""
        interp = self

        def step(state, node: Node, label):
            st, recs = state
            if node.kind == "test" and label in ("T", "F"):
                r = interp.eval_test(node.ast, st)
                want = label == "T"
                if r is not None and r != want:
                    return None
                return (interp.refine(st, node.ast, want), recs)
            if node.kind == "for" and label == "T" and isinstance(node.ast, (ast.For, ast.AsyncFor)):
                # a loop over a provably empty iterable is not entered
                it = node.ast.iter
                empty = False
                if isinstance(it, ast.Call) and dotted(it.func) == "range":
                    a = [interp.eval(x, st) for x in it.args]
                    if all(isinstance(v, IntV) and v.lo is not None and v.lo == v.hi for v in a):
                        try:
                            empty = len(range(*[v.lo for v in a])) == 0
                        except (TypeError, ValueError):
                            empty = False
                else:
                    v = interp.eval(it, st)
                    empty = truthy(v) is False and isinstance(v, (StrV, SetV, TupleV))
                if empty:
                    return None
            exprs = watch(node)
            if exprs:
                recs = recs + ((node, tuple(interp.eval(e, st) for e in exprs), st),)
            if label in ("exc", "raise"):
                return (st, recs)
            if node.kind == "stmt" and isinstance(node.ast, ast.Return) and node.stack:
                # return from an inlined callee: remember the value for the call site
                enter = g.nodes[node.stack[-1]]
                rv = interp.eval(node.ast.value, st) if node.ast.value is not None else NoneV()
                st2 = dict(st)
                st2[f"$ret:{id(enter.ast)}"] = rv
                return (st2, recs)
            if node.kind == "call_return":
                st2 = dict(st)
                if f"$ret:{id(node.ast)}" not in st2:
                    st2[f"$ret:{id(node.ast)}"] = NoneV()  # fell off the end of the callee
                # leave the callee's scope: drop its locals, restore the caller's
                saved = st2.pop(f"$saved:{id(node.ast)}", None)
                binds = st2.pop(f"$bind:{id(node.ast)}", None) or {}
                learned = {a: st2[p_] for p_, a in binds.items() if p_ in st2}
                if saved is not None:
                    for nm, old in saved.items():
                        for k in [k for k in st2 if k == nm or k.startswith(nm + ".")]:
                            del st2[k]
                        for k, v in old.items():
                            st2[k] = v
                # what the callee's tests established about a parameter it never rebinds holds
                # for the caller's variable that was passed (integer ranges only)
                for a, v in learned.items():
                    cur = st2.get(a)
                    if isinstance(v, IntV) and isinstance(cur, IntV):
                        lo = v.lo if cur.lo is None else (cur.lo if v.lo is None else max(cur.lo, v.lo))
                        hi = v.hi if cur.hi is None else (cur.hi if v.hi is None else min(cur.hi, v.hi))
                        if lo is None or hi is None or lo <= hi:
                            st2[a] = IntV(lo, hi)
                return (st2, recs)
            if node.kind == "call_enter" and label == "call":
                # bind the inlined callee's parameters to the abstract arguments
                from .flow import _bindings

                b = _bindings(node)
                callee = node.extra.get("callee")
                if callee is not None:
                    # enter the callee's scope: its parameters and locals shadow
                    # same-named caller variables until the call returns
                    local_names = set(callee.params) - {"self", "cls"}
                    for x in walk(callee.node):
                        if isinstance(x, ast.Name) and isinstance(x.ctx, ast.Store):
                            local_names.add(x.id)
                    saved = {}
                    st = dict(st)
                    vals0 = {p: interp.eval(a, st) for p, a in b.items()}
                    attr_facts = {}
                    for p, a in b.items():
                        d = dotted(a)
                        if d:
                            attr_facts[p] = {k[len(d):]: vv for k, vv in st.items() if k.startswith(d + ".")}
                            for k, vv in interp.oracle.items():
                                if k.startswith(d + "."):
                                    attr_facts[p].setdefault(k[len(d):], vv)
                    for nm in local_names:
                        saved[nm] = {k: v for k, v in st.items() if k == nm or k.startswith(nm + ".")}
                        for k in saved[nm]:
                            del st[k]
                    st[f"$saved:{id(node.ast)}"] = saved
                    stored = {x.id for x in walk(callee.node) if isinstance(x, ast.Name) and isinstance(x.ctx, ast.Store)}
                    st[f"$bind:{id(node.ast)}"] = {p: a.id for p, a in b.items() if isinstance(a, ast.Name) and p not in stored}
                    for p, v in vals0.items():
                        st[p] = v
                        for suffix, vv in attr_facts.get(p, {}).items():
                            st[p + suffix] = vv
                    return (st, recs)
                if b:
                    st2 = dict(st)
                    vals = {p: interp.eval(a, st) for p, a in b.items()}
                    for p, v in vals.items():
                        for k in [k for k in st2 if k == p or k.startswith(p + ".")]:
                            del st2[k]
                        st2[p] = v
                        # attribute facts of plain-name arguments travel with them
                        d = dotted(b[p])
                        if d:
                            for k, vv in st.items():
                                if k.startswith(d + "."):
                                    st2[p + k[len(d):]] = vv
                            for k, vv in interp.oracle.items():
                                if k.startswith(d + ".") and (p + k[len(d):]) not in interp.oracle:
                                    st2.setdefault(p + k[len(d):], vv)
                    return (st2, recs)
                return (st, recs)
            return (interp.exec(node, st), recs)

        base = dict(init or {})
        return walk_paths(g, g.entry.id, (base, ()), step, follow=follow, max_paths=max_paths)


@dataclass(frozen=True)
class _Elems:
    """A sequence whose elements all have abstract value ``elem``."""

    elem: object
    minlen: int = 0


def _char_filter(cond: ast.AST, var: str) -> tuple[bool, bool]:
    """Does ``cond`` (a comprehension filter on character ``var``) exclude CR / LF?"""
    if isinstance(cond, ast.Compare) and len(cond.ops) == 1 and isinstance(cond.left, ast.Name) and cond.left.id == var:
        rhs = cond.comparators[0]
        if isinstance(cond.ops[0], ast.NotIn) and isinstance(rhs, ast.Constant) and isinstance(rhs.value, str):
            return "\r" in rhs.value, "\n" in rhs.value
        if isinstance(cond.ops[0], ast.NotEq) and isinstance(rhs, ast.Constant):
            return rhs.value == "\r", rhs.value == "\n"
        if isinstance(cond.ops[0], ast.NotIn) and isinstance(rhs, (ast.Tuple, ast.List, ast.Set)):
            vals = {e.value for e in rhs.elts if isinstance(e, ast.Constant)}
            return "\r" in vals, "\n" in vals
    if isinstance(cond, ast.Call) and method_call(cond) and dotted(method_call(cond)[0]) == var and method_call(cond)[1] == "isprintable":
        return True, True
    if isinstance(cond, ast.BoolOp) and isinstance(cond.op, ast.And):
        rs = [_char_filter(v, var) for v in cond.values]
        return any(r[0] for r in rs), any(r[1] for r in rs)
    return False, False


def _negate(op):
    return {
        ast.Lt: ast.GtE(), ast.LtE: ast.Gt(), ast.Gt: ast.LtE(), ast.GtE: ast.Lt(),
        ast.Eq: ast.NotEq(), ast.NotEq: ast.Eq(),
    }.get(type(op))


def _upper(op, other: IntV, target_is_left: bool):
    """Upper bound implied for the target by ``target op other`` / ``other op target``."""
    if target_is_left:
        if isinstance(op, ast.Lt) and other.hi is not None:
            return other.hi - 1
        if isinstance(op, ast.LtE) and other.hi is not None:
            return other.hi
    else:
        if isinstance(op, ast.Gt) and other.hi is not None:
            return other.hi - 1
        if isinstance(op, ast.GtE) and other.hi is not None:
            return other.hi
    return None


def _lower(op, other: IntV, target_is_left: bool):
    if target_is_left:
        if isinstance(op, ast.Gt) and other.lo is not None:
            return other.lo + 1
        if isinstance(op, ast.GtE) and other.lo is not None:
            return other.lo
    else:
        if isinstance(op, ast.Lt) and other.lo is not None:
            return other.lo + 1
        if isinstance(op, ast.LtE) and other.lo is not None:
            return other.lo
    return None


def _cmp_int(a: IntV, op, b: IntV) -> bool | None:
    def lt(x, y):  # x < y certainly?
        return x.hi is not None and y.lo is not None and x.hi < y.lo

    def le(x, y):
        return x.hi is not None and y.lo is not None and x.hi <= y.lo

    if isinstance(op, ast.Lt):
        return True if lt(a, b) else (False if le(b, a) else None)
    if isinstance(op, ast.LtE):
        return True if le(a, b) else (False if lt(b, a) else None)
    if isinstance(op, ast.Gt):
        return True if lt(b, a) else (False if le(a, b) else None)
    if isinstance(op, ast.GtE):
        return True if le(b, a) else (False if lt(a, b) else None)
    if isinstance(op, ast.Eq):
        if a.lo == a.hi == b.lo == b.hi and a.lo is not None:
            return True
        return False if (lt(a, b) or lt(b, a)) else None
    if isinstance(op, ast.NotEq):
        r = _cmp_int(a, ast.Eq(), b)
        return None if r is None else not r
    return None


def join(a, b):
    if a is TOP or b is TOP:
        return TOP
    if isinstance(a, IntV) and isinstance(b, IntV):
        return IntV(
            None if a.lo is None or b.lo is None else min(a.lo, b.lo),
            None if a.hi is None or b.hi is None else max(a.hi, b.hi),
        )
    if isinstance(a, StrV) and isinstance(b, StrV):
        if a == b:
            return a
        prefix = a.prefix if a.prefix == b.prefix else None
        return StrV(
            a.kind if a.kind == b.kind else "str",
            a.no_cr and b.no_cr,
            a.no_lf and b.no_lf,
            None if a.maxb is None or b.maxb is None else max(a.maxb, b.maxb),
            prefix,
        )
    if isinstance(a, NoneV) and isinstance(b, NoneV):
        return a
    if isinstance(a, BoolV) and isinstance(b, BoolV):
        return a if a == b else BoolV(None)
    if a == b:
        return a
    return TOP


def summarise(proj: Project, callee: FunctionInfo, call: ast.Call, caller: Interp, st: dict):
    """Abstract return value of a package helper for the given abstract
    arguments: join over the helper's feasible paths."""
    params = [p for p in callee.params if p not in ("self", "cls")]
    init: dict = {}
    for p, a in zip(params, call.args):
        init[p] = caller.eval(a, st)
    for k in call.keywords:
        if k.arg:
            init[k.arg] = caller.eval(k.value, st)
    sub = Interp(proj, callee, caller.depth + 1)
    g = build_cfg(proj, callee)
    try:
        res = sub.run_paths(g, lambda n: [n.ast.value] if n.kind == "stmt" and isinstance(n.ast, ast.Return) and n.ast.value is not None else [], init, max_paths=3000)
    except Exception:  # noqa: BLE001 - a helper we cannot walk is simply unknown
        return TOP
    out = None
    for path, (stt, recs) in res:
        if path[-1][0].kind != "exit":
            continue
        rv = None
        for node, vals, _ in recs:
            if isinstance(node.ast, ast.Return):
                rv = vals[0]
        if rv is None:
            rv = NoneV()
        out = rv if out is None else join(out, rv)
    return out if out is not None else TOP
