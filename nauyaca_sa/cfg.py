"""Statement-level control-flow graphs with optional callee inlining.

Python has no CFG in the standard library; this is a hand-built one over the
statement kinds the analysed package uses.  Properties of the graph:

* one node per simple statement; compound statements contribute *test* nodes,
  boolean operators in tests are expanded to short-circuit edges, so
  ``if a and b`` has two distinct false exits;
* every node that may raise (contains a call, await, subscript, or is a
  ``raise``) has an exception edge to the syntactically matching handlers of
  the innermost enclosing ``try`` (all handlers for an implicit raise; by
  class for ``raise X(...)``) and onward to the enclosing continuation when no
  handler certainly catches; ``finally`` bodies are copied onto each
  continuation (normal, exceptional, return, break, continue);
* a call that the *inline policy* resolves to a function of the package is
  spliced in before the statement that contains it (callee return -> the
  statement; callee raise -> the call site's exception continuation).  This
  gives one super-graph per entry point on which dominance, reachability and
  path questions are asked.  Recursion is cut; depth is bounded and stated.

Edge labels: ``T``/``F`` (test outcome), ``exc`` (implicit exception),
``raise`` (explicit raise), ``ret`` (return), ``None`` (fall through),
``call`` (into inlined callee), ``back`` (loop back edge).
"""

from __future__ import annotations

import ast
import builtins
from collections import deque
from dataclasses import dataclass, field
from typing import Callable, Iterable

from .loader import AnalysisError, ClassInfo, FunctionInfo, Project, _dotted


# --------------------------------------------------------------------- nodes
@dataclass
class Node:
    id: int
    kind: str  # entry exit raise_exit stmt test for with handler call_enter call_return join
    ast: ast.AST | None
    func: FunctionInfo
    stack: tuple = ()  # call-site Nodes (ids) leading here
    has_await: bool = False
    extra: dict = field(default_factory=dict)

    @property
    def line(self) -> int:
        return getattr(self.ast, "lineno", 0) if self.ast is not None else 0

    def text(self, limit: int = 110) -> str:
        if self.ast is None:
            return f"<{self.kind}>"
        try:
            if isinstance(self.ast, ast.ExceptHandler):
                t = "except " + (ast.unparse(self.ast.type) if self.ast.type else "")
            elif isinstance(self.ast, (ast.FunctionDef, ast.AsyncFunctionDef)):
                t = f"def {self.ast.name}(...)"
            else:
                t = ast.unparse(self.ast)
        except Exception:  # pragma: no cover
            t = type(self.ast).__name__
        t = " ".join(t.split())
        return t if len(t) <= limit else t[: limit - 3] + "..."

    def where(self) -> str:
        return f"{self.func.module.relpath}:{self.line}"

    def __hash__(self) -> int:
        return self.id

    def __repr__(self) -> str:
        return f"<Node {self.id} {self.kind} L{self.line} {self.text(40)!r}>"


class Graph:
    def __init__(self, entry_func: FunctionInfo) -> None:
        self.entry_func = entry_func
        self.nodes: list[Node] = []
        self.succ: dict[int, list[tuple[int, str | None]]] = {}
        self.pred: dict[int, list[tuple[int, str | None]]] = {}
        self.entry: Node = None  # type: ignore[assignment]
        self.exit: Node = None  # type: ignore[assignment]
        self.raise_exit: Node = None  # type: ignore[assignment]
        self.inlined: list[str] = []  # function keys spliced in (with repeats)

    def new(self, kind, astnode, func, stack=(), **extra) -> Node:
        n = Node(len(self.nodes), kind, astnode, func, stack, extra=extra)
        if astnode is not None and kind not in ("handler",):
            n.has_await = _has_await(astnode)
        self.nodes.append(n)
        self.succ[n.id] = []
        self.pred[n.id] = []
        return n

    def edge(self, a: int, b: int, label: str | None = None) -> None:
        if (b, label) not in self.succ[a]:
            self.succ[a].append((b, label))
            self.pred[b].append((a, label))

    # ------------------------------------------------------------ queries
    def select(self, pred: Callable[[Node], bool]) -> list[Node]:
        return [n for n in self.nodes if pred(n)]

    def reach(
        self,
        starts: Iterable[int],
        blocked_nodes: set[int] | None = None,
        blocked_edges: set[tuple[int, int, str | None]] | None = None,
        follow: Callable[[str | None], bool] | None = None,
    ) -> dict[int, tuple[int, str | None] | None]:
        """Forward reachability; returns parent map (node -> (pred, label))."""
        blocked_nodes = blocked_nodes or set()
        blocked_edges = blocked_edges or set()
        parent: dict[int, tuple[int, str | None] | None] = {}
        dq = deque()
        for s in starts:
            if s in blocked_nodes:
                continue
            parent[s] = None
            dq.append(s)
        while dq:
            a = dq.popleft()
            for b, lab in self.succ[a]:
                if follow is not None and not follow(lab):
                    continue
                if b in parent or b in blocked_nodes:
                    continue
                if (a, b, lab) in blocked_edges:
                    continue
                parent[b] = (a, lab)
                dq.append(b)
        return parent

    def path_to(self, parent, target: int) -> list[tuple[Node, str | None]]:
        out = []
        cur = target
        lab = None
        while cur is not None:
            out.append((self.nodes[cur], lab))
            p = parent.get(cur)
            if p is None:
                break
            cur, lab = p
        out.reverse()
        # shift labels so each entry carries the label of the edge leaving it
        res = []
        for i, (n, _) in enumerate(out):
            nxt = out[i + 1][1] if i + 1 < len(out) else None
            res.append((n, nxt))
        return res

    def fmt_path(self, path, limit: int = 40) -> list[str]:
        lines = []
        for n, lab in path:
            if n.kind in ("join",):
                continue
            tag = f" -[{lab}]->" if lab else ""
            lines.append(f"{n.where()} {n.func.qualname}: {n.kind} `{n.text(90)}`{tag}")
        if len(lines) > limit:
            lines = lines[: limit // 2] + ["..."] + lines[-limit // 2 :]
        return lines

    def all_paths(
        self,
        start: int,
        stop: Callable[[Node], bool] | None = None,
        follow: Callable[[str | None], bool] | None = None,
        max_paths: int = 20000,
    ) -> list[list[tuple[Node, str | None]]]:
        """Enumerate acyclic paths (each loop body at most once) from start to
        any node without successors or satisfying ``stop``."""
        out: list[list[tuple[Node, str | None]]] = []
        path: list[tuple[Node, str | None]] = []
        onpath: set[int] = set()

        def rec(nid: int) -> None:
            if len(out) >= max_paths:
                raise AnalysisError("path explosion (>%d paths)" % max_paths)
            n = self.nodes[nid]
            succs = [
                (b, lab)
                for b, lab in self.succ[nid]
                if (follow is None or follow(lab)) and b not in onpath
            ]
            if (stop is not None and stop(n)) or not succs:
                out.append(path + [(n, None)])
                return
            onpath.add(nid)
            for b, lab in succs:
                path.append((n, lab))
                rec(b)
                path.pop()
            onpath.discard(nid)

        rec(start)
        return out


def _has_await(node: ast.AST) -> bool:
    for n in _walk_no_nested(node):
        if isinstance(n, (ast.Await, ast.AsyncFor, ast.AsyncWith)):
            return True
    return False


def _walk_no_nested(node: ast.AST):
    """ast.walk that does not descend into nested defs / lambdas."""
    todo = [node]
    first = True
    while todo:
        n = todo.pop()
        if not first and isinstance(
            n, (ast.FunctionDef, ast.AsyncFunctionDef, ast.Lambda, ast.ClassDef)
        ):
            continue
        first = False
        yield n
        todo.extend(ast.iter_child_nodes(n))


def calls_in(node: ast.AST) -> list[ast.Call]:
    """Calls evaluated by this statement/expression itself (not in nested
    defs or lambdas), roughly in source order."""
    cs = [n for n in _walk_no_nested(node) if isinstance(n, ast.Call)]
    cs.sort(key=lambda c: (c.lineno, c.col_offset, -(c.end_col_offset or 0)))
    return cs


# calls treated as non-raising (trusted base, stated in DESIGN.md): type
# probes and the transport's own write/close/is_closing
NORAISE_FUNCS = {"isinstance", "len", "bool", "callable", "id", "type"}
NORAISE_METHODS = {"write", "close", "is_closing", "cancel", "done"}


def _noraise_call(c: ast.Call) -> bool:
    f = c.func
    if isinstance(f, ast.Name) and f.id in NORAISE_FUNCS:
        return True
    if isinstance(f, ast.Attribute) and f.attr in NORAISE_METHODS:
        d = _dotted(f.value) or ""
        return d.startswith("self.") or d == "self"
    return False


def may_raise(node: ast.AST, exclude: tuple = ()) -> bool:
    skip: set[int] = set()
    for c in exclude:
        # the inlined call raises through its own spliced body; only its
        # argument expressions are evaluated by the enclosing statement
        skip.add(id(c))
    todo = [node]
    first = True
    while todo:
        n = todo.pop()
        if not first and isinstance(n, (ast.FunctionDef, ast.AsyncFunctionDef, ast.Lambda, ast.ClassDef)):
            continue
        first = False
        if isinstance(n, ast.Call):
            if id(n) in skip:
                continue  # arguments are evaluated at the call_enter node
            if not _noraise_call(n) and not _pure_builtin_call(n):
                return True
        elif isinstance(n, ast.Subscript):
            # slicing a plain name / attribute chain never raises; indexing may
            if not (isinstance(n.slice, ast.Slice) and _dotted(n.value) is not None):
                return True
        elif isinstance(n, (ast.Await, ast.Raise, ast.Assert)):
            return True
        todo.extend(ast.iter_child_nodes(n))
    return False


def _pure_builtin_call(c: ast.Call) -> bool:
    """range()/min()/max() over simple arithmetic of names and len(): cannot raise
    for the integer arguments they are used with here."""
    return isinstance(c.func, ast.Name) and c.func.id in ("range", "min", "max") and not c.keywords


# --------------------------------------------------- exception class lattice
def _builtin_exc(name: str):
    obj = getattr(builtins, name, None)
    if isinstance(obj, type) and issubclass(obj, BaseException):
        return obj
    return None


_EXTRA_BASES = {
    # dotted names used in the package that are not builtins
    "asyncio.TimeoutError": "TimeoutError",
    "asyncio.CancelledError": "BaseException",
    "SSL.Error": "Exception",
    "SSL.WantReadError": "SSL.Error",
    "SSL.ZeroReturnError": "SSL.Error",
    "SSL.SysCallError": "SSL.Error",
    "re.error": "Exception",
    "sqlite3.Error": "Exception",
    "sqlite3.IntegrityError": "sqlite3.Error",
    "typer.Exit": "RuntimeError",
}


class ExcLattice:
    def __init__(self, proj: Project) -> None:
        self.proj = proj

    def bases(self, name: str, mi) -> list[str]:
        b = _builtin_exc(name)
        if b is not None:
            return [x.__name__ for x in b.__mro__[1:] if x is not object]
        if name in _EXTRA_BASES:
            p = _EXTRA_BASES[name]
            return [p] + self.bases(p, mi)
        ci = self.proj.class_of_type(mi, name) if mi is not None else None
        if ci is not None:
            out: list[str] = []
            for bb in ci.bases:
                out.append(bb)
                out += self.bases(bb, ci.module)
            return out
        return []

    def is_sub(self, a: str | None, b: str | None, mi) -> bool | None:
        """a subclass-of b?  None = unknown."""
        if b is None or b in ("BaseException",):
            return True
        if a is None:
            return None
        if a == b:
            return True
        known = self.bases(a, mi)
        if b in known:
            return True
        if known or _builtin_exc(a) is not None:
            return False
        return None


def handler_types(h: ast.ExceptHandler) -> list[str | None]:
    if h.type is None:
        return [None]
    if isinstance(h.type, ast.Tuple):
        return [_dotted(e) or "?" for e in h.type.elts]
    return [_dotted(h.type) or "?"]


def raised_type(node: ast.Raise) -> str | None:
    e = node.exc
    if e is None:
        return None
    if isinstance(e, ast.Call):
        return _dotted(e.func)
    return _dotted(e) if isinstance(e, (ast.Name, ast.Attribute)) and _dotted(e)[0:1].isupper() else None


# ------------------------------------------------------------------ resolver
class Resolver:
    """Hand call resolver: call expression -> FunctionInfo of the package."""

    def __init__(self, proj: Project) -> None:
        self.proj = proj

    def receiver_types(self, fi: FunctionInfo, expr: ast.AST) -> set[str]:
        """Dotted (import-expanded) type names of an expression, from
        annotations and constructor assignments; empty = unknown."""
        mi = fi.module
        out: set[str] = set()
        if isinstance(expr, ast.Name):
            if expr.id == "self" and fi.cls is not None:
                return {"@" + (mi.name + "." if mi.name else "") + fi.cls.name}
            # parameter annotation
            for a in fi.node.args.posonlyargs + fi.node.args.args + fi.node.args.kwonlyargs:
                if a.arg == expr.id and a.annotation is not None:
                    from .loader import _ann_names

                    for d in _ann_names(a.annotation):
                        out.add(self.proj.resolve_name(mi, d))
            # local constructor assignment / annotated local
            for n in _walk_no_nested(fi.node):
                if isinstance(n, ast.Assign) and len(n.targets) == 1:
                    t = n.targets[0]
                    if isinstance(t, ast.Name) and t.id == expr.id and isinstance(n.value, (ast.Attribute, ast.Name)) and _dotted(n.value) != expr.id:
                        # alias of an attribute / other local
                        if getattr(self, "_rt_depth", 0) < 4:
                            self._rt_depth = getattr(self, "_rt_depth", 0) + 1
                            try:
                                out |= self.receiver_types(fi, n.value)
                            finally:
                                self._rt_depth -= 1
                    if isinstance(t, ast.Name) and t.id == expr.id and isinstance(n.value, ast.Call):
                        d = _dotted(n.value.func)
                        if d:
                            r = self.proj.resolve_name(mi, d)
                            tgt = self.proj.lookup_internal(r)
                            if isinstance(tgt, ClassInfo) or not r.startswith("@"):
                                out.add(r)
                elif isinstance(n, ast.AnnAssign) and isinstance(n.target, ast.Name):
                    if n.target.id == expr.id:
                        from .loader import _ann_names

                        for d in _ann_names(n.annotation):
                            out.add(self.proj.resolve_name(mi, d))
                elif isinstance(n, (ast.With, ast.AsyncWith)):
                    # ``with Cls(...) as name`` where Cls.__(a)enter__ returns self
                    for item in n.items:
                        v = item.optional_vars
                        if isinstance(v, ast.Name) and v.id == expr.id and isinstance(item.context_expr, ast.Call):
                            d = _dotted(item.context_expr.func)
                            if not d:
                                continue
                            r = self.proj.resolve_name(mi, d)
                            ci = self.proj.lookup_internal(r)
                            if isinstance(ci, ClassInfo):
                                for en in ("__aenter__", "__enter__"):
                                    m = self.proj.find_method(ci, en)
                                    if m is not None and all(
                                        isinstance(rt.value, ast.Name) and rt.value.id == "self"
                                        for rt in _walk_no_nested(m.node)
                                        if isinstance(rt, ast.Return)
                                    ):
                                        out.add(r)
            return out
        if isinstance(expr, ast.Attribute):
            base_types = self.receiver_types(fi, expr.value)
            for bt in base_types:
                ci = self.proj.lookup_internal(bt)
                if isinstance(ci, ClassInfo):
                    for c in self._mro(ci):
                        if expr.attr in c.attr_types:
                            for d in c.attr_types[expr.attr]:
                                out.add(self.proj.resolve_name(c.module, d))
                            break
            return out
        return out

    def _mro(self, ci: ClassInfo) -> list[ClassInfo]:
        out, todo, seen = [], [ci], set()
        while todo:
            c = todo.pop(0)
            if c.key in seen:
                continue
            seen.add(c.key)
            out.append(c)
            for b in c.bases:
                t = self.proj.lookup_internal(self.proj.resolve_name(c.module, b))
                if isinstance(t, ClassInfo):
                    todo.append(t)
        return out

    def resolve(self, fi: FunctionInfo, call: ast.Call) -> FunctionInfo | None:
        f = call.func
        mi = fi.module
        if isinstance(f, ast.Name):
            if f.id == "cls" and fi.cls is not None:
                return self.proj.find_method(fi.cls, "__init__")
            # nested function of the enclosing function
            nested = f"{fi.qualname}.{f.id}"
            if nested in mi.functions:
                return mi.functions[nested]
            t = self.proj.lookup_internal(self.proj.resolve_name(mi, f.id))
            if isinstance(t, FunctionInfo):
                return t
            if isinstance(t, ClassInfo):
                return self.proj.find_method(t, "__init__")
            return None
        if isinstance(f, ast.Attribute):
            # module.func / Class.method
            d = _dotted(f)
            if d and not d.startswith("self."):
                t = self.proj.lookup_internal(self.proj.resolve_name(mi, d))
                if isinstance(t, FunctionInfo):
                    return t
                if isinstance(t, ClassInfo):
                    return self.proj.find_method(t, "__init__")
            for bt in self.receiver_types(fi, f.value):
                ci = self.proj.lookup_internal(bt)
                if isinstance(ci, ClassInfo):
                    m = self.proj.find_method(ci, f.attr)
                    if m is not None:
                        return m
        return None

    def external_name(self, fi: FunctionInfo, call: ast.Call) -> str | None:
        """Best-effort dotted name of a callee outside the package, e.g.
        ``OpenSSL.SSL.Connection.send`` or ``asyncio.create_task``."""
        f = call.func
        d = _dotted(f)
        if d and not d.startswith("self"):
            head = d.split(".")[0]
            if head in fi.module.imports or "." not in d:
                r = self.proj.resolve_name(fi.module, d)
                if not r.startswith("@"):
                    return r
        if isinstance(f, ast.Attribute):
            for bt in self.receiver_types(fi, f.value):
                if not bt.startswith("@"):
                    return f"{bt}.{f.attr}"
        return None


# ------------------------------------------------------------------- builder
InlinePolicy = Callable[[FunctionInfo, ast.Call, "FunctionInfo", int], bool]


def inline_self_methods(caller: FunctionInfo, call: ast.Call, callee: FunctionInfo, depth: int) -> bool:
    """Default policy: ``self.m(...)`` of the same class hierarchy."""
    f = call.func
    return (
        isinstance(f, ast.Attribute)
        and isinstance(f.value, ast.Name)
        and f.value.id == "self"
    )


def inline_local(caller: FunctionInfo, call: ast.Call, callee: FunctionInfo, depth: int) -> bool:
    """Inline helpers a refactoring typically extracts: methods called on
    ``self``, static/class helpers of the same class hierarchy, and functions
    defined in the caller's own module.  Constructors are never inlined."""
    if callee.node.name in ("__init__", "__post_init__"):
        return False
    if inline_self_methods(caller, call, callee, depth):
        return True
    return callee.module is caller.module


def inline_none(caller, call, callee, depth) -> bool:
    return False


class _ExcCont:
    def route(self, b: "Builder", frm: Node, exc_type: str | None, label: str) -> None:
        raise NotImplementedError


class _FuncRaise(_ExcCont):
    def __init__(self, node: Node) -> None:
        self.node = node

    def route(self, b, frm, exc_type, label):
        b.g.edge(frm.id, self.node.id, label)


class _TryCont(_ExcCont):
    def __init__(self, handlers, outer, mi, lattice, fin):
        self.handlers = handlers  # list[(types, handler Node)]
        self.outer = outer
        self.mi = mi
        self.lattice = lattice
        self.fin = fin  # callable(label) -> Node of an exceptional finally copy, or None

    def route(self, b, frm, exc_type, label):
        caught = False
        for types, hnode in self.handlers:
            for t in types:
                sub = self.lattice.is_sub(exc_type, t, self.mi)
                if exc_type is None:
                    # implicit: may be anything the handler names
                    b.g.edge(frm.id, hnode.id, label)
                    if t is None or t in ("Exception", "BaseException"):
                        caught = True
                    break
                if sub is True:
                    b.g.edge(frm.id, hnode.id, label)
                    caught = True
                    break
                sup = self.lattice.is_sub(t, exc_type, self.mi)
                if sub is None or sup:
                    b.g.edge(frm.id, hnode.id, label)
                    break
            if caught:
                break
        if not caught:
            if self.fin is not None:
                fin_entry = self.fin()
                b.g.edge(frm.id, fin_entry.id, label)
            else:
                self.outer.route(b, frm, exc_type, label)


class _FinallyOnly(_ExcCont):
    """Exception continuation for handler/else bodies of a try with finally."""

    def __init__(self, outer, fin):
        self.outer = outer
        self.fin = fin

    def route(self, b, frm, exc_type, label):
        if self.fin is not None:
            b.g.edge(frm.id, self.fin().id, label)
        else:
            self.outer.route(b, frm, exc_type, label)


@dataclass
class _Frame:
    fi: FunctionInfo
    depth: int
    stack: tuple
    ret_join: Node
    exc: _ExcCont
    finalizers: list = field(default_factory=list)  # list[(finalbody, exc_cont_outside)]
    loops: list = field(default_factory=list)  # (break_join, continue_node, n_finalizers)
    active: tuple = ()  # function keys on the inline stack (recursion cut)


class Builder:
    def __init__(
        self,
        proj: Project,
        policy: InlinePolicy = inline_none,
        max_depth: int = 4,
    ) -> None:
        self.proj = proj
        self.policy = policy
        self.max_depth = max_depth
        self.resolver = Resolver(proj)
        self.lattice = ExcLattice(proj)
        self.g: Graph = None  # type: ignore[assignment]

    def build(self, fi: FunctionInfo) -> Graph:
        g = Graph(fi)
        self.g = g
        g.entry = g.new("entry", None, fi)
        g.exit = g.new("exit", None, fi)
        g.raise_exit = g.new("raise_exit", None, fi)
        frame = _Frame(fi, 0, (), g.exit, _FuncRaise(g.raise_exit), active=(fi.key,))
        outs = self._block(fi.node.body, [(g.entry.id, None)], frame)
        for a, lab in outs:
            g.edge(a, g.exit.id, lab)
        return g

    # ---- helpers
    def _connect(self, preds, node: Node) -> None:
        for a, lab in preds:
            self.g.edge(a, node.id, lab)

    def _inline_calls(self, astnode: ast.AST, preds, fr: _Frame):
        """Splice inlinable callees evaluated by ``astnode`` before it.
        Returns (new dangling preds, tuple of inlined call nodes)."""
        done: list[ast.Call] = []
        if fr.depth >= self.max_depth:
            return preds, ()
        for call in calls_in(astnode):
            callee = self.resolver.resolve(fr.fi, call)
            if callee is None or callee.key in fr.active:
                continue
            if not self.policy(fr.fi, call, callee, fr.depth):
                continue
            preds = self._splice(call, callee, preds, fr)
            done.append(call)
        return preds, tuple(done)

    def _splice(self, call: ast.Call, callee: FunctionInfo, preds, fr: _Frame):
        g = self.g
        enter = g.new("call_enter", call, fr.fi, fr.stack, callee=callee)
        self._connect(preds, enter)
        # argument expressions are evaluated here
        if any(may_raise(a) for a in list(call.args) + [k.value for k in call.keywords]):
            fr.exc.route(self, enter, None, "exc")
        ret = g.new("call_return", call, fr.fi, fr.stack, callee=callee)
        g.inlined.append(callee.key)
        sub = _Frame(
            callee,
            fr.depth + 1,
            fr.stack + (enter.id,),
            ret,
            fr.exc,
            active=fr.active + (callee.key,),
        )
        centry = g.new("entry", None, callee, sub.stack)
        g.edge(enter.id, centry.id, "call")
        outs = self._block(callee.node.body, [(centry.id, None)], sub)
        for a, lab in outs:
            g.edge(a, ret.id, lab)
        return [(ret.id, None)]

    def _simple(self, kind: str, astnode: ast.AST, preds, fr: _Frame, raises=True) -> Node:
        preds, inl = self._inline_calls(astnode, preds, fr)
        n = self.g.new(kind, astnode, fr.fi, fr.stack)
        if inl:
            n.extra["inlined_calls"] = inl
        self._connect(preds, n)
        if raises and may_raise(astnode, inl):
            fr.exc.route(self, n, None, "exc")
        return n

    # ---- tests with short-circuit expansion
    def _test(self, expr: ast.expr, preds, fr: _Frame):
        if isinstance(expr, ast.BoolOp):
            if isinstance(expr.op, ast.And):
                falses = []
                cur = preds
                for v in expr.values:
                    t, f = self._test(v, cur, fr)
                    falses += f
                    cur = t
                return cur, falses
            else:
                trues = []
                cur = preds
                for v in expr.values:
                    t, f = self._test(v, cur, fr)
                    trues += t
                    cur = f
                return trues, cur
        if isinstance(expr, ast.UnaryOp) and isinstance(expr.op, ast.Not):
            t, f = self._test(expr.operand, preds, fr)
            return f, t
        n = self._simple("test", expr, preds, fr)
        if isinstance(expr, ast.Constant):
            if expr.value:
                return [(n.id, "T")], []
            return [], [(n.id, "F")]
        return [(n.id, "T")], [(n.id, "F")]

    # ---- finalizers
    def _run_finalizers(self, preds, fr: _Frame, upto: int):
        """Copy enclosing finally bodies (innermost first) down to index upto."""
        for i in range(len(fr.finalizers) - 1, upto - 1, -1):
            body, outer_exc = fr.finalizers[i]
            sub = _Frame(
                fr.fi, fr.depth, fr.stack, fr.ret_join, outer_exc,
                finalizers=fr.finalizers[:i], loops=fr.loops, active=fr.active,
            )
            preds = self._block(body, preds, sub)
        return preds

    # ---- statements
    def _block(self, stmts, preds, fr: _Frame):
        for st in stmts:
            if not preds:
                break  # unreachable code
            preds = self._stmt(st, preds, fr)
        return preds

    def _stmt(self, st: ast.stmt, preds, fr: _Frame):
        g = self.g
        if isinstance(st, ast.If):
            t, f = self._test(st.test, preds, fr)
            out = self._block(st.body, t, fr)
            out2 = self._block(st.orelse, f, fr) if st.orelse else f
            return out + out2
        if isinstance(st, ast.While):
            head = g.new("join", None, fr.fi, fr.stack)
            self._connect(preds, head)
            t, f = self._test(st.test, [(head.id, None)], fr)
            brk = g.new("join", None, fr.fi, fr.stack)
            fr.loops.append((brk, head, len(fr.finalizers)))
            body_out = self._block(st.body, t, fr)
            fr.loops.pop()
            for a, lab in body_out:
                g.edge(a, head.id, lab if lab in ("T", "F") else "back")
            out = self._block(st.orelse, f, fr) if st.orelse else f
            for a, lab in out:
                g.edge(a, brk.id, lab)
            return [(brk.id, None)]
        if isinstance(st, (ast.For, ast.AsyncFor)):
            it = self._simple("stmt", ast.Expr(value=st.iter, lineno=st.lineno, col_offset=st.col_offset), preds, fr)
            head = g.new("for", st, fr.fi, fr.stack)
            head.has_await = isinstance(st, ast.AsyncFor)
            g.edge(it.id, head.id, None)
            brk = g.new("join", None, fr.fi, fr.stack)
            fr.loops.append((brk, head, len(fr.finalizers)))
            body_out = self._block(st.body, [(head.id, "T")], fr)
            fr.loops.pop()
            for a, lab in body_out:
                g.edge(a, head.id, lab if lab in ("T", "F") else "back")
            f = [(head.id, "F")]
            out = self._block(st.orelse, f, fr) if st.orelse else f
            for a, lab in out:
                g.edge(a, brk.id, lab)
            return [(brk.id, None)]
        if isinstance(st, (ast.With, ast.AsyncWith)):
            cur = preds
            for item in st.items:
                n = self._simple("with", item, cur, fr)
                n.has_await = n.has_await or isinstance(st, ast.AsyncWith)
                n.extra["with_stmt"] = st
                cur = [(n.id, None)]
            out = self._block(st.body, cur, fr)
            if out:
                wx = g.new("with_exit", st, fr.fi, fr.stack)
                self._connect(out, wx)
                return [(wx.id, None)]
            return out
        if isinstance(st, ast.Try) or st.__class__.__name__ == "TryStar":
            return self._try(st, preds, fr)
        if isinstance(st, ast.Return):
            n = self._simple("stmt", st, preds, fr)
            outs = self._run_finalizers([(n.id, "ret")], fr, 0)
            for a, lab in outs:
                g.edge(a, fr.ret_join.id, lab if lab else "ret")
            return []
        if isinstance(st, ast.Raise):
            preds, _inl = self._inline_calls(st, preds, fr)
            n = g.new("stmt", st, fr.fi, fr.stack)
            self._connect(preds, n)
            et = raised_type(st)
            if et is not None and not et.split(".")[-1][:1].isupper() and isinstance(st.exc, ast.Call):
                # `raise self._make_error(...)`: use what the factory constructs
                et = None
                callee = self.resolver.resolve(fr.fi, st.exc)
                if callee is not None:
                    made = {
                        _dotted(r.value.func)
                        for r in _walk_no_nested(callee.node)
                        if isinstance(r, ast.Return) and isinstance(r.value, ast.Call)
                    }
                    rets = [r for r in _walk_no_nested(callee.node) if isinstance(r, ast.Return)]
                    if len(made) == 1 and len(rets) == 1 and next(iter(made)) and next(iter(made)).split(".")[-1][:1].isupper():
                        et = next(iter(made))
            fr.exc.route(self, n, et, "raise")
            return []
        if isinstance(st, ast.Break):
            n = g.new("stmt", st, fr.fi, fr.stack)
            self._connect(preds, n)
            if not fr.loops:
                raise AnalysisError("break outside loop")
            brk, _, nf = fr.loops[-1]
            outs = self._run_finalizers([(n.id, None)], fr, nf)
            for a, lab in outs:
                g.edge(a, brk.id, lab)
            return []
        if isinstance(st, ast.Continue):
            n = g.new("stmt", st, fr.fi, fr.stack)
            self._connect(preds, n)
            _, head, nf = fr.loops[-1]
            outs = self._run_finalizers([(n.id, None)], fr, nf)
            for a, lab in outs:
                g.edge(a, head.id, "back")
            return []
        if st.__class__.__name__ == "Match":
            subj = self._simple("stmt", ast.Expr(value=st.subject, lineno=st.lineno, col_offset=st.col_offset), preds, fr)
            cur = [(subj.id, None)]
            outs = []
            for case in st.cases:
                tn = g.new("test", case.pattern, fr.fi, fr.stack)
                self._connect(cur, tn)
                t = [(tn.id, "T")]
                if case.guard is not None:
                    t, gf = self._test(case.guard, t, fr)
                    cur = [(tn.id, "F")] + gf
                else:
                    cur = [(tn.id, "F")]
                outs += self._block(case.body, t, fr)
            return outs + cur
        if isinstance(st, (ast.FunctionDef, ast.AsyncFunctionDef, ast.ClassDef)):
            n = g.new("stmt", st, fr.fi, fr.stack)
            n.has_await = False
            self._connect(preds, n)
            return [(n.id, None)]
        if isinstance(st, ast.Assert):
            n = self._simple("stmt", st, preds, fr)
            return [(n.id, None)]
        # plain statement
        n = self._simple("stmt", st, preds, fr)
        return [(n.id, None)]

    def _try(self, st, preds, fr: _Frame):
        g = self.g
        has_fin = bool(st.finalbody)
        outer_exc = fr.exc

        fin_cache: dict[str, Node] = {}

        def fin_exc() -> Node:
            # one shared exceptional copy of the finally body
            if "exc" not in fin_cache:
                j = g.new("join", None, fr.fi, fr.stack)
                fin_cache["exc"] = j
                sub = _Frame(
                    fr.fi, fr.depth, fr.stack, fr.ret_join, outer_exc,
                    finalizers=list(fr.finalizers), loops=fr.loops, active=fr.active,
                )
                outs = self._block(st.finalbody, [(j.id, None)], sub)
                # after the finally body the exception continues outward
                tail = g.new("join", None, fr.fi, fr.stack)
                for a, lab in outs:
                    g.edge(a, tail.id, lab)
                if outs:
                    outer_exc.route(self, tail, None, "reraise")
            return fin_cache["exc"]

        fin = fin_exc if has_fin else None

        handler_nodes = []
        for h in st.handlers:
            hn = g.new("handler", h, fr.fi, fr.stack)
            handler_nodes.append((handler_types(h), hn))

        body_exc = _TryCont(handler_nodes, outer_exc, fr.fi.module, self.lattice, fin) if st.handlers else _FinallyOnly(outer_exc, fin)
        rest_exc = _FinallyOnly(outer_exc, fin) if has_fin else outer_exc

        def sub_frame(exc):
            f2 = _Frame(
                fr.fi, fr.depth, fr.stack, fr.ret_join, exc,
                finalizers=list(fr.finalizers), loops=fr.loops, active=fr.active,
            )
            if has_fin:
                f2.finalizers.append((st.finalbody, outer_exc))
            return f2

        outs = self._block(st.body, preds, sub_frame(body_exc))
        if st.orelse:
            outs = self._block(st.orelse, outs, sub_frame(rest_exc))
        for (types, hn), h in zip(handler_nodes, st.handlers):
            if not g.pred[hn.id]:
                # handler never targeted (body cannot raise by our rules):
                # keep it reachable conservatively from the try entry
                for a, lab in preds:
                    g.edge(a, hn.id, "exc")
            outs += self._block(h.body, [(hn.id, None)], sub_frame(rest_exc))
        if has_fin:
            outs = self._block(st.finalbody, outs, fr) if outs else outs
        return outs


def build_cfg(proj: Project, fi: FunctionInfo, policy: InlinePolicy = inline_none, max_depth: int = 4) -> Graph:
    return Builder(proj, policy, max_depth).build(fi)
