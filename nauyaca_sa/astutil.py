"""Small AST helpers shared by the rules."""

from __future__ import annotations

import ast
from typing import Callable, Iterator

from .cfg import _walk_no_nested as walk  # noqa: F401  (re-export)
from .loader import _dotted as dotted  # noqa: F401


def norm(node: ast.AST | None) -> str:
    if node is None:
        return ""
    try:
        return " ".join(ast.unparse(node).split())
    except Exception:  # pragma: no cover
        return type(node).__name__


def attr_chain(expr: ast.AST) -> list[str] | None:
    """``self.a.b`` -> ["self", "a", "b"]; None when not a pure chain."""
    out: list[str] = []
    cur = expr
    while isinstance(cur, ast.Attribute):
        out.append(cur.attr)
        cur = cur.value
    if isinstance(cur, ast.Name):
        out.append(cur.id)
        out.reverse()
        return out
    return None


def is_self_attr(expr: ast.AST, name: str | None = None) -> bool:
    return (
        isinstance(expr, ast.Attribute)
        and isinstance(expr.value, ast.Name)
        and expr.value.id == "self"
        and (name is None or expr.attr == name)
    )


def method_call(call: ast.AST) -> tuple[ast.expr, str] | None:
    """``recv.m(...)`` -> (recv, "m")."""
    if isinstance(call, ast.Call) and isinstance(call.func, ast.Attribute):
        return call.func.value, call.func.attr
    return None


def call_dotted(call: ast.AST) -> str | None:
    if isinstance(call, ast.Call):
        return dotted(call.func)
    return None


def strip_await(expr: ast.AST) -> ast.AST:
    while isinstance(expr, ast.Await):
        expr = expr.value
    return expr


def kwarg(call: ast.Call, name: str) -> ast.expr | None:
    for k in call.keywords:
        if k.arg == name:
            return k.value
    return None


def arg_or_kw(call: ast.Call, index: int, name: str) -> ast.expr | None:
    if len(call.args) > index and not any(isinstance(a, ast.Starred) for a in call.args[: index + 1]):
        return call.args[index]
    return kwarg(call, name)


def names_in(expr: ast.AST) -> set[str]:
    return {n.id for n in walk(expr) if isinstance(n, ast.Name)}


def chains_in(expr: ast.AST) -> set[str]:
    """All dotted attribute chains (and bare names) read in an expression."""
    out: set[str] = set()
    for n in walk(expr):
        if isinstance(n, (ast.Attribute, ast.Name)):
            d = dotted(n)
            if d:
                out.add(d)
    return out


def calls(node: ast.AST, pred: Callable[[ast.Call], bool] | None = None) -> Iterator[ast.Call]:
    for n in walk(node):
        if isinstance(n, ast.Call) and (pred is None or pred(n)):
            yield n


def const_str(expr: ast.AST | None) -> str | None:
    if isinstance(expr, ast.Constant) and isinstance(expr.value, str):
        return expr.value
    return None


def target_names(t: ast.AST) -> list[str]:
    if isinstance(t, ast.Name):
        return [t.id]
    if isinstance(t, (ast.Tuple, ast.List)):
        out: list[str] = []
        for e in t.elts:
            out += target_names(e)
        return out
    if isinstance(t, ast.Starred):
        return target_names(t.value)
    return []


def stmt_targets(st: ast.AST) -> list[ast.expr]:
    if isinstance(st, ast.Assign):
        return list(st.targets)
    if isinstance(st, (ast.AnnAssign, ast.AugAssign)):
        return [st.target]
    return []


def is_none(expr: ast.AST | None) -> bool:
    return isinstance(expr, ast.Constant) and expr.value is None


def func_body_no_doc(fn: ast.FunctionDef | ast.AsyncFunctionDef) -> list[ast.stmt]:
    body = list(fn.body)
    if body and isinstance(body[0], ast.Expr) and isinstance(body[0].value, ast.Constant) and isinstance(body[0].value.value, str):
        body = body[1:]
    return body


def returns_of(fn: ast.AST) -> list[ast.Return]:
    return [n for n in walk(fn) if isinstance(n, ast.Return)]
