"""Self-test of the checker: mutants on scratch copies.

Each mutant is an edit located by *function* (resolved through the AST, never
by line number) plus an exact fragment inside that function's source segment.
It is applied to a scratch copy of the package under ``$(mktemp -d)`` (outside
/repo and /verif), byte-compiled to prove it still compiles, analysed by the
very same rules (``NAUYACA_SRC`` points at the copy, evidence goes to the
scratch directory) and the copy is removed.

* a *breaking* mutant must produce a VIOLATION whose finding key contains the
  expected fragment (so the report names the mutated instance);
* a *benign* variant must produce no VIOLATION and exit 0.

The verdict on /repo never depends on this; a failure here means the checker
is broken (exit 2).
"""

from __future__ import annotations

import ast
import os
import py_compile
import shutil
import subprocess
import sys
import tempfile
from concurrent.futures import ThreadPoolExecutor
from pathlib import Path

from .loader import src_root

LAST_SUMMARY: dict[str, dict] = {}
VERIF = Path(__file__).resolve().parent.parent


class MutantError(Exception):
    pass


def _func_segment(src: str, qual: str) -> tuple[int, int]:
    """Character span of function/class ``qual`` (dotted) in ``src``."""
    tree = ast.parse(src)
    parts = qual.split(".")
    body = tree.body
    node = None
    for p in parts:
        node = None
        for st in _iter_defs(body):
            if getattr(st, "name", None) == p:
                node = st
                break
        if node is None:
            raise MutantError(f"locator: {qual!r} not found")
        body = node.body
    lines = src.splitlines(keepends=True)
    start = sum(len(x) for x in lines[: node.lineno - 1])
    end = sum(len(x) for x in lines[: node.end_lineno])
    return start, end


def _iter_defs(body):
    for st in body:
        if isinstance(st, (ast.FunctionDef, ast.AsyncFunctionDef, ast.ClassDef)):
            yield st
        elif isinstance(st, (ast.If, ast.Try, ast.With)):
            for blk in (getattr(st, "body", []), getattr(st, "orelse", []), getattr(st, "finalbody", [])):
                yield from _iter_defs(blk)
        # nested defs inside functions are reached through ``body`` of the parent


def apply_edit(src: str, qual: str | None, old: str, new: str, count: int = 1) -> str:
    if qual:
        s, e = _func_segment(src, qual)
    else:
        s, e = 0, len(src)
    seg = src[s:e]
    n = seg.count(old)
    if count == -1 and n >= 1:
        return src[:s] + seg.replace(old, new) + src[e:]
    if n != count:
        raise MutantError(f"fragment occurs {n}x (expected {count}) in {qual}: {old[:60]!r}")
    return src[:s] + seg.replace(old, new) + src[e:]


def run_mutant(m: dict) -> dict:
    """m: {prop, name, kind, edits:[(relfile, qual, old, new[, count])], expect}"""
    root = src_root()
    tmp = Path(tempfile.mkdtemp(prefix="nauyaca_sa_mut_"))
    try:
        dst = tmp / root.name
        shutil.copytree(root, dst, ignore=shutil.ignore_patterns("__pycache__"))
        try:
            for ed in m["edits"]:
                rel, qual, old, new = ed[:4]
                cnt = ed[4] if len(ed) > 4 else 1
                f = dst / rel
                f.write_text(apply_edit(f.read_text(), qual, old, new, cnt))
                py_compile.compile(str(f), cfile=str(tmp / "x.pyc"), doraise=True)
        except (MutantError, py_compile.PyCompileError) as e:
            return {"name": m["name"], "ok": False, "why": f"mutant does not apply/compile: {e}"}
        env = dict(os.environ)
        env["NAUYACA_SRC"] = str(dst)
        env["NAUYACA_SA_OUT"] = str(tmp / "evidence")
        env["PYTHONPATH"] = str(VERIF)
        p = subprocess.run(
            [sys.executable, "-m", "nauyaca_sa", "check", m["prop"], "--tier", "quick"],
            cwd=str(VERIF), env=env, capture_output=True, text=True, timeout=300,
        )
        out = p.stdout + p.stderr
        keys = [l.split("finding ", 1)[1].strip() for l in out.splitlines() if l.strip().startswith("finding ")]
        if m["kind"] == "breaking":
            exp = m.get("expect", "")
            hit = [k for k in keys if exp in k]
            ok = p.returncode == 1 and bool(hit)
            why = "" if ok else f"rc={p.returncode} findings={keys} expected fragment {exp!r}\n{out[-600:]}"
        else:
            ok = p.returncode == 0 and "VIOLATION" not in out
            why = "" if ok else f"benign variant raised an alarm: rc={p.returncode} findings={keys}\n{out[-600:]}"
        return {"name": m["name"], "ok": ok, "why": why, "keys": keys, "kind": m["kind"]}
    finally:
        shutil.rmtree(tmp, ignore_errors=True)


def run_patch(m: dict) -> dict:
    """m: {prop, name, kind, patch} - a unified diff (paths src/nauyaca/...)
    applied with patch(1) to a scratch copy."""
    root = src_root()
    tmp = Path(tempfile.mkdtemp(prefix="nauyaca_sa_pat_"))
    try:
        dst = tmp / "src" / root.name
        shutil.copytree(root, dst, ignore=shutil.ignore_patterns("__pycache__"))
        p = subprocess.run(["patch", "-p1", "-s", "-d", str(tmp), "-i", m["patch"]], capture_output=True, text=True)
        if p.returncode != 0:
            # the corpus patch no longer applies to the current tree: not a checker failure
            return {"name": m["name"], "ok": True, "why": "skipped: patch does not apply to the current tree", "kind": m["kind"], "skipped": True}
        env = dict(os.environ)
        env["NAUYACA_SRC"] = str(dst)
        env["NAUYACA_SA_OUT"] = str(tmp / "evidence")
        env["PYTHONPATH"] = str(VERIF)
        q = subprocess.run(
            [sys.executable, "-m", "nauyaca_sa", "check", m["prop"], "--tier", "quick"],
            cwd=str(VERIF), env=env, capture_output=True, text=True, timeout=600,
        )
        out = q.stdout + q.stderr
        keys = [l.split("finding ", 1)[1].strip() for l in out.splitlines() if l.strip().startswith("finding ")]
        if m["kind"] == "breaking":
            ok = q.returncode == 1 and bool(keys)
            why = "" if ok else f"seeded change not reported: rc={q.returncode}\n{out[-400:]}"
        else:
            ok = q.returncode == 0 and "VIOLATION" not in out
            why = "" if ok else f"behaviour-preserving refactoring raised an alarm: rc={q.returncode} findings={keys}\n{out[-400:]}"
        return {"name": m["name"], "ok": ok, "why": why, "keys": keys, "kind": m["kind"]}
    finally:
        shutil.rmtree(tmp, ignore_errors=True)


def corpus(props) -> list[dict]:
    """Patches contributed by independent sub-agents: /verif/benign/*.diff must be
    silent under every property; /verif/seeded/<name>/patch.diff must be reported by
    the properties recorded in its meta.json."""
    import json

    out = []
    plist = props or [f"C{i:02d}" for i in range(1, 21)]
    for d in sorted((VERIF / "benign").glob("*.diff")):
        for p in plist:
            out.append({"prop": p, "name": f"benign-corpus:{d.stem}", "kind": "benign", "patch": str(d)})
    for meta in sorted((VERIF / "seeded").glob("*/meta.json")):
        m = json.loads(meta.read_text())
        for p, v in m.get("checks_fired", {}).items():
            if v.get("rc") == 1 and p in plist:
                out.append({"prop": p, "name": f"seeded:{m['name']}", "kind": "breaking", "patch": str(meta.parent / "patch.diff")})
    return out


def run_selftest(props=None, jobs: int = 16, verbose: bool = True, with_corpus: bool = True) -> int:
    from .mutants import MUTANTS

    todo = [m for m in MUTANTS if props is None or m["prop"] in props]
    if with_corpus:
        todo = todo + corpus(props)
    if not todo:
        return 0
    with ThreadPoolExecutor(max_workers=jobs) as ex:
        results = list(ex.map(lambda m: run_patch(m) if "patch" in m else run_mutant(m), todo))
    bad = 0
    LAST_SUMMARY.clear()
    for m, r in zip(todo, results):
        s = LAST_SUMMARY.setdefault(m["prop"], {"breaking": 0, "benign": 0, "failed": [], "detected": []})
        s[m["kind"]] += 1
        if r["ok"]:
            if m["kind"] == "breaking":
                s["detected"].append(m["name"])
        else:
            bad += 1
            s["failed"].append(m["name"])
        if verbose:
            print(f"  selftest {m['prop']} {m['kind']:8s} {m['name']}: {'ok' if r['ok'] else 'FAILED ' + r['why']}")
    if verbose:
        print(f"selftest: {len(todo) - bad}/{len(todo)} mutants behaved as expected")
    return 0 if bad == 0 else 2
