"""Abstract state machine of the server protocol class, derived from its code.

The response / dispatch discipline of ``GeminiServerProtocol`` is a property of
*sequences of activations* of its entry points (``data_received`` any number of
times, the timer callback, the task done-callbacks, ``connection_lost``), not
of one function.  This module explores those sequences abstractly:

* one inlined super-CFG per entry point (``self.*`` helpers spliced in);
* inside an activation: feasible-path enumeration with ``BoolFacts`` (truth /
  null-ness facts on ``self.<attr>`` latches and locals; contradictory branches
  pruned);
* between activations only the facts on ``self.*`` survive;
* events are read off the nodes: transport ``write`` / ``close``, handler and
  upload-handler dispatch, middleware consultation, done-callback
  registration, timer arm / cancel;
* the machine state is (latch facts, closed?, #dispatches, gate, pending
  callbacks, timer fired?, connection lost?) - finite, explored to a fixpoint.

Violations (each with a witness: the activation sequence and the CFG path of
the last activation):

  write-after-close   a transport write after the response was closed
  half-response       an activation ends after a write without close
  double-dispatch     a second handler/upload-handler invocation
  ungated-dispatch    dispatch while a middleware chain is configured and has
                      not allowed the request
  timer-at-dispatch   dispatch / consultation while the request timer is armed
  orphan              activation ends with the connection open, no response,
                      no pending callback and no armed timer: nobody will
                      ever answer or disconnect this peer

This is abstract interpretation of the code's own CFG; no repository code is
executed and no solver is involved.
"""

from __future__ import annotations

import ast
from collections import deque
from dataclasses import dataclass, field

from .astutil import calls, dotted, method_call, norm, walk
from .cfg import Builder, Graph, Node, inline_self_methods
from .loader import AnalysisError, ClassInfo, FunctionInfo, Project
from .paths import BoolFacts, boolfacts_step, walk_paths


@dataclass(frozen=True)
class Event:
    kind: str  # write close dispatch consult pending cancel arm
    node: int
    info: str = ""
    allow_true: bool = False  # for dispatch: middleware verdict known truthy on this path
    mw_false: bool = False  # for dispatch: self.<middleware> known falsy on this path
    timer_off: bool = False  # timer known disarmed at this point
    chain: str = ""  # entry>callee>...:kind


@dataclass
class PathResult:
    events: tuple
    facts: BoolFacts
    end_kind: str  # exit | raise_exit
    path: list


@dataclass(frozen=True)
class MState:
    truth: frozenset
    null: frozenset
    closed: bool = False
    wrote_open: bool = False  # a write not yet followed by close
    ndisp: int = 0
    gate: str = "none"  # none | consulted | allowed
    pending: frozenset = frozenset()
    timer_fired: bool = False
    lost: bool = False
    first_disp: str = field(default="", compare=False)


@dataclass
class Violation:
    kind: str
    chain: str  # chain of the offending event (or entry for orphan)
    entry: str
    message: str
    where: str
    history: list[str]
    path: list[str]
    extra: str = ""


class ProtocolModel:
    """Naming of the protocol class's roles (discovered by the caller)."""

    def __init__(
        self,
        cls: ClassInfo,
        transport_attr: str = "transport",
        handler_attr: str = "request_handler",
        upload_attr: str = "upload_handler",
        middleware_attr: str = "middleware",
        timer_attr: str = "timeout_handle",
        timeout_method: str = "_handle_timeout",
    ) -> None:
        self.cls = cls
        self.transport = f"self.{transport_attr}"
        self.handler = f"self.{handler_attr}"
        self.upload = f"self.{upload_attr}"
        self.middleware = f"self.{middleware_attr}"
        self.timer = f"self.{timer_attr}"
        self.timeout_method = timeout_method


def _in_task_creation(call: ast.Call, root: ast.AST) -> bool:
    """Is ``call`` (transitively) an argument of create_task/ensure_future?"""
    for outer in calls(root):
        d = dotted(outer.func) or ""
        if d.split(".")[-1] in ("create_task", "ensure_future"):
            for a in list(outer.args) + [k.value for k in outer.keywords]:
                for sub in walk(a):
                    if sub is call:
                        return True
    return False


class Machine:
    def __init__(self, proj: Project, model: ProtocolModel, depth: int = 6) -> None:
        self.proj = proj
        self.m = model
        self.depth = depth
        self.builder = Builder(proj, inline_self_methods, depth)
        self.graphs: dict[str, Graph] = {}
        self.cache: dict[tuple, list[PathResult]] = {}
        self.violations: list[Violation] = []
        self.n_paths = 0
        self.n_states = 0
        self.n_activations = 0
        self._seen_v: set[tuple] = set()
        self._n_viol = 0
        self.callbacks: set[str] = set()
        self.event_sites: dict[str, set[str]] = {}

    # ------------------------------------------------------------ graphs
    def graph(self, method: str) -> Graph:
        if method not in self.graphs:
            fi = self.proj.find_method(self.m.cls, method)
            if fi is None:
                raise AnalysisError(f"anchor vanished: {self.m.cls.key}.{method}")
            g = Builder(self.proj, inline_self_methods, self.depth).build(fi)
            self.graphs[method] = g
            # classify every node once, so the event-site inventory does not
            # depend on which nodes the exploration happens to reach
            for n in g.nodes:
                self._templates(g, n)
        return self.graphs[method]

    # ------------------------------------------------------------ events
    def chain(self, g: Graph, n: Node, kind: str) -> str:
        names = [g.entry_func.node.name]
        for sid in n.stack:
            callee = g.nodes[sid].extra.get("callee")
            if callee is not None:
                names.append(callee.node.name)
        return ">".join(names) + ":" + kind

    def _templates(self, g: Graph, n: Node) -> tuple:
        """Static part of event classification, computed once per node:
        tuples (kind, info, normal_only, skip_on_exc, chain)."""
        t = n.extra.get("_ev")
        if t is not None:
            return t
        out = []
        m = self.m
        if n.ast is not None and n.kind in ("stmt", "test", "with"):
            for c in calls(n.ast):
                mc = method_call(c)
                d = dotted(c.func) or ""
                normal_only = _in_task_creation(c, n.ast)
                if mc and dotted(mc[0]) == m.transport and mc[1] in ("write", "writelines"):
                    out.append(("write", norm(c)[:80], normal_only, True, self.chain(g, n, "write")))
                elif mc and dotted(mc[0]) == m.transport and mc[1] in ("close", "abort"):
                    out.append(("close", "", normal_only, False, self.chain(g, n, "close")))
                elif d == m.handler:
                    out.append(("dispatch", "handler", normal_only, False, self.chain(g, n, "handler")))
                elif mc and dotted(mc[0]) == m.upload:
                    out.append(("dispatch", "upload", normal_only, False, self.chain(g, n, "upload")))
                elif mc and dotted(mc[0]) == m.middleware:
                    out.append(("consult", "", normal_only, False, self.chain(g, n, "consult")))
                elif mc and mc[1] == "add_done_callback" and c.args:
                    cb = _callback_target(c.args[0])
                    if cb:
                        out.append(("pending", cb, True, True, self.chain(g, n, "pending")))
                elif mc and dotted(mc[0]) == m.timer and mc[1] == "cancel":
                    out.append(("cancel", "", normal_only, False, ""))
                elif mc and mc[1] in ("call_later", "call_at") and any(
                    (dotted(a) or "") == f"self.{m.timeout_method}" for a in c.args
                ):
                    out.append(("arm", "", True, True, ""))
            for kind, *_ in out:
                self.event_sites.setdefault(kind, set()).add(f"{n.where()}:{n.text(60)}")
        t = tuple(out)
        n.extra["_ev"] = t
        return t

    def classify(self, g: Graph, n: Node, label, facts: BoolFacts) -> list[Event]:
        tmpl = self._templates(g, n)
        if not tmpl:
            return []
        out: list[Event] = []
        exc = label in ("exc", "raise")
        timer_off = facts.truth.get(self.m.timer) is False
        for kind, info, normal_only, skip_on_exc, chain in tmpl:
            if exc and (normal_only or skip_on_exc):
                continue
            if kind == "dispatch":
                out.append(self._disp(g, n, info, facts, timer_off, chain))
            elif kind == "consult":
                out.append(Event("consult", n.id, timer_off=timer_off, chain=chain))
            else:
                out.append(Event(kind, n.id, info, chain=chain))
        return out

    def _disp(self, g, n, what, facts, timer_off, chain) -> Event:
        allow_true = any(
            v is True for k, v in facts.truth.items() if k in self._allow_names(g)
        )
        return Event(
            "dispatch", n.id, what,
            allow_true=allow_true,
            mw_false=facts.truth.get(self.m.middleware) is False,
            timer_off=timer_off,
            chain=chain,
        )

    def _allow_names(self, g: Graph) -> set[str]:
        """Locals bound from element 0 of ``<task>.result()`` in a done
        callback of a middleware task = the chain's verdict."""
        key = id(g)
        if not hasattr(self, "_allow_cache"):
            self._allow_cache = {}
        if key not in self._allow_cache:
            names = set()
            for n in g.nodes:
                a = n.ast
                if n.kind == "stmt" and isinstance(a, ast.Assign) and isinstance(a.value, ast.Call):
                    mc = method_call(a.value)
                    if mc and mc[1] == "result":
                        t = a.targets[0]
                        if isinstance(t, ast.Tuple) and t.elts and isinstance(t.elts[0], ast.Name):
                            names.add(t.elts[0].id)
            self._allow_cache[key] = names
        return self._allow_cache[key]

    # ------------------------------------------------------- activations
    def activation(self, method: str, facts0: BoolFacts) -> list[PathResult]:
        key = (method,) + BoolFacts(dict(facts0.truth), dict(facts0.null), None, dict(facts0.alias), dict(facts0.eq), dict(facts0.ne)).key()
        if key in self.cache:
            return self.cache[key]
        g = self.graph(method)

        def step(state, node, label):
            facts, events = state
            f2 = boolfacts_step(facts, node, label)
            if f2 is None:
                return None
            evs = self.classify(g, node, label, f2)
            if any(e.kind == "close" for e in evs):
                f2 = f2.copy()
                f2.truth[self.m.transport + ".is_closing()"] = True
            return (f2, events + tuple(evs)) if evs else (f2, events)

        def edge_ok(a: Node, b: Node, lab):
            # implicit exceptions that would leave the entry point are out of
            # scope (no general may-raise analysis); those into handlers and
            # explicit raises are followed
            if lab == "exc" and b.kind == "raise_exit":
                return False
            # environment assumption: an event loop is running whenever a
            # protocol callback runs, so the "no running loop" RuntimeError
            # fallbacks of loop-API calls are not taken (C04.M1b checks that
            # such a fallback can never admit a request)
            if lab == "exc" and b.kind == "handler" and _loop_only_edge(a, b):
                return False
            return True

        if self._acyclic(g):
            # loop-free super-graph: exact dynamic programming over
            # (node, facts); paths that agree on events and final facts are
            # merged, one representative CFG path is kept as witness
            memo: dict[tuple, list] = {}

            def dp(nid: int, facts: BoolFacts):
                k = (nid, facts.key())
                r = memo.get(k)
                if r is not None:
                    return r
                n = g.nodes[nid]
                if not g.succ[nid]:
                    r = [((), facts, n.kind, (n, None, None))]
                else:
                    acc: dict[tuple, tuple] = {}
                    for b, lab in g.succ[nid]:
                        if not edge_ok(n, g.nodes[b], lab):
                            continue
                        st2 = step((facts, ()), n, lab)
                        if st2 is None:
                            continue
                        f2, evs = st2
                        for ev2, fend, kind, p in dp(b, f2):
                            kk = (evs + ev2, fend.key(), kind)
                            if kk not in acc:
                                acc[kk] = (evs + ev2, fend, kind, (n, lab, p))
                    r = list(acc.values())
                memo[k] = r
                return r

            out = [
                PathResult(evs, fend, kind, _unlink(path))
                for evs, fend, kind, path in dp(g.entry.id, facts0.copy())
                if kind in ("exit", "raise_exit")
            ]
        else:
            res = walk_paths(g, g.entry.id, (facts0.copy(), ()), step, edge_ok=edge_ok, max_paths=200000)
            out = []
            for path, (facts, events) in res:
                end = path[-1][0]
                if end.kind not in ("exit", "raise_exit"):
                    continue
                out.append(PathResult(events, facts, end.kind, path))
        self.n_paths += len(out)
        self.cache[key] = out
        return out

    def _acyclic(self, g: Graph) -> bool:
        if not hasattr(self, "_acyc"):
            self._acyc = {}
        if id(g) not in self._acyc:
            color: dict[int, int] = {}
            ok = True
            stack = [(g.entry.id, iter(g.succ[g.entry.id]))]
            color[g.entry.id] = 1
            while stack and ok:
                nid, it = stack[-1]
                for b, _lab in it:
                    c = color.get(b, 0)
                    if c == 1:
                        ok = False
                        break
                    if c == 0:
                        color[b] = 1
                        stack.append((b, iter(g.succ[b])))
                        break
                else:
                    color[nid] = 2
                    stack.pop()
            self._acyc[id(g)] = ok
        return self._acyc[id(g)]

    # ---------------------------------------------------------- explore
    def _latches(self) -> set[str]:
        """Attributes whose value can differ between activations in a way the
        code can observe: assigned outside __init__/connection_made, or one
        of the role attributes.  Facts on other attributes are forgotten
        between activations (sound: forgetting only adds behaviours)."""
        if not hasattr(self, "_latch_cache"):
            m = self.m
            keep = {m.transport, m.middleware, m.upload, m.timer, m.handler, m.transport + ".is_closing()"}
            for name, fi in self.m.cls.methods.items():
                if name in ("__init__", "connection_made"):
                    continue
                for st in walk(fi.node):
                    if isinstance(st, (ast.Assign, ast.AnnAssign, ast.AugAssign)):
                        tg = st.targets if isinstance(st, ast.Assign) else [st.target]
                        for t in tg:
                            d = dotted(t) or ""
                            if d.startswith("self."):
                                keep.add(".".join(d.split(".")[:2]))
            self._latch_cache = keep
        return self._latch_cache

    def _project(self, facts: BoolFacts) -> tuple[frozenset, frozenset]:
        keep = self._latches()

        def ok(k: str) -> bool:
            return k.startswith("self.") and (k in keep or ".".join(k.split(".")[:2]) in keep)

        t = frozenset((k, v) for k, v in facts.truth.items() if ok(k) and isinstance(v, bool))
        n = frozenset((k, v) for k, v in facts.null.items() if ok(k))
        # equality facts (state enums / mode strings) travel with the null-ness set
        n = n | frozenset(("=" + k, v) for k, v in facts.eq.items() if ok(k)) | frozenset(("!" + k, v) for k, v in facts.ne.items() if ok(k))
        return t, n

    def explore(self, init_methods=("__init__", "connection_made")) -> None:
        m = self.m
        # initial facts: run __init__ then connection_made abstractly
        starts = [BoolFacts()]
        for meth in init_methods:
            nxt = []
            for f0 in starts:
                for pr in self.activation(meth, f0):
                    f = _facts_from(*self._project(pr.facts))
                    # a fresh transport is not closing
                    if meth == "connection_made":
                        f.truth[m.transport + ".is_closing()"] = False
                    nxt.append(f)
            # dedupe
            uniq = {}
            for f in nxt:
                uniq[self._project(f)] = f
            starts = list(uniq.values())
        dq = deque()
        seen: dict[MState, tuple] = {}
        for f in starts:
            t, n = self._project(f)
            s = MState(t, n)
            if s not in seen:
                seen[s] = (None, "connection_made")
                dq.append(s)
        while dq:
            s = dq.popleft()
            self.n_states += 1
            if self.n_states > 20000:
                raise AnalysisError("protocol machine: state explosion")
            for entry in self._enabled(s):
                facts0 = _facts_from(s.truth, s.null)
                for pr in self.activation(entry, facts0):
                    self.n_activations += 1
                    s2 = self._apply(s, entry, pr, seen)
                    if s2 is not None and s2 not in seen:
                        seen[s2] = (s, entry)
                        dq.append(s2)
        self.seen = seen

    def _enabled(self, s: MState) -> list[str]:
        m = self.m
        out = []
        if not s.lost:
            out.append("data_received")
            timer_known_off = (m.timer, False) in s.truth
            if not s.timer_fired and not timer_known_off:
                out.append(m.timeout_method)
            out.append("connection_lost")
        for cb in sorted({p.split("#")[0] for p in s.pending}):
            out.append(cb)
        return out

    def _history(self, s: MState, seen) -> list[str]:
        h = []
        cur = s
        while cur is not None:
            prev, entry = seen.get(cur, (None, "?"))
            h.append(entry)
            cur = prev
        h.reverse()
        return h

    def _violate(self, kind, chain, entry, msg, node: Node | None, s, seen, g, pr, extra="") -> None:
        if kind in ("double-dispatch", "double-consult", "dispatch-after-response", "write-after-close", "second-header", "half-response"):
            # the run is already broken beyond repair: continuations of this
            # state would only repeat the same report
            self._n_viol += 1
        tag = (kind, chain, extra)
        if tag in self._seen_v:
            return
        self._seen_v.add(tag)
        self.violations.append(
            Violation(
                kind, chain, entry, msg,
                node.where() if node is not None else "",
                self._history(s, seen) + [entry],
                g.fmt_path(pr.path, 60),
                extra,
            )
        )

    def _apply(self, s: MState, entry: str, pr: PathResult, seen) -> MState | None:
        m = self.m
        g = self.graph(entry)
        closed, wrote_open, ndisp, gate = s.closed, s.wrote_open, s.ndisp, s.gate
        n_viol_before = self._n_viol
        pending = set(s.pending)
        first_disp = s.first_disp
        timer_fired = s.timer_fired or entry == m.timeout_method
        lost = s.lost or entry == "connection_lost"
        # pending callbacks are a multiset capped at two instances per callback
        # (`cb`, `cb#2`): two tasks started by two reads both complete
        if entry + "#2" in pending:
            pending.discard(entry + "#2")
        elif entry in pending:
            pending.discard(entry)
        in_mw_callback = entry in self.mw_callbacks
        resp_ctx = None  # sink activation (call stack) that started a response
        for e in pr.events:
            node = g.nodes[e.node]
            if e.kind == "write":
                if closed:
                    self._violate(
                        "write-after-close", e.chain, entry,
                        f"transport write `{e.info}` after the response was already written and the connection closed",
                        node, s, seen, g, pr,
                    )
                elif wrote_open and resp_ctx != node.stack:
                    self._violate(
                        "second-header", e.chain, entry,
                        f"transport write `{e.info}` starts another response although one was already (partly) written and not closed",
                        node, s, seen, g, pr,
                    )
                if not wrote_open:
                    resp_ctx = node.stack
                wrote_open = True
            elif e.kind == "close":
                closed = True
                wrote_open = False
            elif e.kind == "consult":
                if gate == "consulted":
                    self._violate(
                        "double-consult", e.chain, entry,
                        "the middleware chain is consulted a second time on one connection (each consultation charges the rate limiter and leads to its own handler invocation)",
                        node, s, seen, g, pr,
                    )
                gate = "consulted"
                if not e.timer_off and not timer_fired:
                    self._violate("timer-at-dispatch", e.chain, entry, "middleware is consulted for a complete request while the request timer is still armed", node, s, seen, g, pr)
            elif e.kind == "pending":
                pending.add(e.info + "#2" if e.info in pending else e.info)
                self.callbacks.add(e.info)
            elif e.kind == "dispatch":
                if closed:
                    self._violate(
                        "dispatch-after-response", e.chain, entry,
                        f"the {e.info}-handler is invoked after this connection was already answered and closed (e.g. by the timeout reply): the request takes effect although the client was told it failed",
                        node, s, seen, g, pr, extra=e.info,
                    )
                ndisp += 1
                if ndisp >= 2:
                    self._violate(
                        "double-dispatch", e.chain, entry,
                        f"a second {e.info}-handler invocation on one connection (first: {first_disp})",
                        node, s, seen, g, pr, extra=e.info,
                    )
                    ndisp = 2
                else:
                    first_disp = e.chain
                allowed = e.mw_false or (in_mw_callback and e.allow_true)
                if not allowed:
                    self._violate(
                        "ungated-dispatch", e.chain, entry,
                        f"{e.info}-handler is invoked although a middleware chain may be configured and has not allowed this request",
                        node, s, seen, g, pr,
                    )
                if not e.timer_off and not timer_fired:
                    self._violate("timer-at-dispatch", e.chain, entry, f"{e.info}-handler is invoked while the request timer is still armed", node, s, seen, g, pr)
        t, n = self._project(pr.facts)
        transport_gone = (m.transport, False) in t or lost
        timer_off = (m.timer, False) in t or timer_fired
        ws = [e for e in pr.events if e.kind == "write"]
        if wrote_open and not closed and pr.end_kind == "exit" and ws:
            last = ws[-1]
            self._violate("half-response", last.chain, entry, "activation ends after a transport write that is not followed by close()", g.nodes[last.node], s, seen, g, pr)
        if not closed and not pending and timer_off and not transport_gone and entry not in ("connection_lost",):
            self._violate(
                "orphan", self._end_chain(g, pr), entry,
                "activation ends with the connection open, no response written, no pending callback and the request timer disarmed: the peer is never answered nor disconnected",
                pr.path[-2][0] if len(pr.path) > 1 else None, s, seen, g, pr,
            )
        if self._n_viol != n_viol_before:
            # a violating run is reported once; its continuations add nothing
            return None
        return MState(t, n, closed, wrote_open and not closed, ndisp, gate, frozenset(pending), timer_fired, lost, first_disp)

    def _end_chain(self, g: Graph, pr: PathResult) -> str:
        # the last return statement's call chain identifies the orphan exit
        for n, lab in reversed(pr.path):
            if n.kind == "stmt" and isinstance(n.ast, ast.Return):
                return self.chain(g, n, f"return@{_guard_text(pr.path, n)}")
        return self.chain(g, pr.path[-1][0], "end")

    mw_callbacks: set[str] = set()


def _facts_from(truth, null) -> BoolFacts:
    f = BoolFacts(dict(truth), {k: v for k, v in null if not k.startswith(("=", "!"))})
    for k, v in null:
        if k.startswith("="):
            f.eq[k[1:]] = v
        elif k.startswith("!"):
            f.ne[k[1:]] = v
    return f


def _unlink(cell) -> list:
    out = []
    while cell is not None:
        n, lab, cell = cell
        out.append((n, lab))
    return out


LOOP_API = {"get_running_loop", "get_event_loop", "create_task", "ensure_future", "call_later", "call_at", "call_soon", "add_done_callback"}


def _loop_only_edge(a: Node, h: Node) -> bool:
    hd = h.ast
    if not isinstance(hd, ast.ExceptHandler) or hd.type is None:
        return False
    if dotted(hd.type) != "RuntimeError":
        return False
    if a.ast is None:
        return False
    names = {(dotted(c.func) or "").split(".")[-1] for c in calls(a.ast)}
    return bool(names & LOOP_API)


def _guard_text(path, ret: Node) -> str:
    """Text of the last two tests (with outcome) before ``ret`` on the path."""
    tests = []
    for n, lab in path:
        if n is ret:
            break
        if n.kind == "test" and lab in ("T", "F") and n.stack == ret.stack:
            tests.append(("" if lab == "T" else "not ") + n.text(40))
    return " & ".join(tests[-2:])


def _callback_target(arg: ast.AST) -> str | None:
    """``lambda t: self.cb(t, ...)`` or ``self.cb`` -> "cb"."""
    if isinstance(arg, ast.Lambda) and isinstance(arg.body, ast.Call):
        d = dotted(arg.body.func) or ""
        if d.startswith("self."):
            return d[5:]
    d = dotted(arg) or ""
    if d.startswith("self."):
        return d[5:]
    if isinstance(arg, ast.Call) and (dotted(arg.func) or "").endswith("partial") and arg.args:
        d = dotted(arg.args[0]) or ""
        if d.startswith("self."):
            return d[5:]
    return None


def build_server_machine(proj: Project, depth: int = 6) -> Machine:
    """Locate the server protocol class and explore its machine."""
    ci = proj.cls("server.protocol:GeminiServerProtocol")
    model = ProtocolModel(ci)
    # role attributes must exist (assigned in __init__)
    for attr in (model.transport, model.handler, model.upload, model.middleware, model.timer):
        if attr[5:] not in ci.attr_types:
            raise AnalysisError(f"anchor vanished: attribute {attr} of {ci.key}")
    mach = Machine(proj, model, depth)
    # which callbacks continue a middleware consultation: registered on the
    # same task that wraps the middleware call
    mw_cbs = set()
    for fi in ci.methods.values():
        task_names = set()
        for st in walk(fi.node):
            if isinstance(st, ast.Assign) and isinstance(st.value, ast.Call):
                for c in calls(st.value):
                    mc = method_call(c)
                    if mc and dotted(mc[0]) == model.middleware:
                        for t in st.targets:
                            if isinstance(t, ast.Name):
                                task_names.add(t.id)
        for c in calls(fi.node):
            mc = method_call(c)
            if mc and mc[1] == "add_done_callback" and dotted(mc[0]) in task_names and c.args:
                cb = _callback_target(c.args[0])
                if cb:
                    mw_cbs.add(cb)
    mach.mw_callbacks = mw_cbs
    mach.explore()
    return mach


_MACH: dict[str, Machine] = {}


def server_machine(proj: Project) -> Machine:
    k = proj.digest + str(proj.root)
    if k not in _MACH:
        _MACH[k] = build_server_machine(proj)
    return _MACH[k]
