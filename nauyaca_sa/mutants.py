"""Mutant table of the self-test (see selftest.py).

edits: (file relative to the package root, function locator, old, new[, count])
"""

MUTANTS: list[dict] = []


def M(prop, name, kind, edits, expect=""):
    MUTANTS.append({"prop": prop, "name": name, "kind": kind, "edits": edits, "expect": expect})


# ---------------------------------------------------------------- C20
M("C20", "drop-floor-server-context", "breaking",
  [("security/tls.py", "create_server_context", "    context.minimum_version = ssl.TLSVersion.TLSv1_2\n", "")],
  "K1:security.tls:create_server_context:no-floor")
M("C20", "floor-only-with-client-cert", "breaking",
  [("security/tls.py", "create_server_context",
    "    context.minimum_version = ssl.TLSVersion.TLSv1_2\n\n    # Load server certificate and key\n    context.load_cert_chain(certfile, keyfile)\n",
    "    context.load_cert_chain(certfile, keyfile)\n    if request_client_cert:\n        context.minimum_version = ssl.TLSVersion.TLSv1_2\n")],
  "K1:security.tls:create_server_context:no-floor")
M("C20", "client-floor-tls1", "breaking",
  [("security/tls.py", "create_client_context", "ssl.TLSVersion.TLSv1_2", "ssl.TLSVersion.TLSv1")],
  "K1:security.tls:create_client_context")
M("C20", "pyopenssl-floor-tls1_1", "breaking",
  [("security/pyopenssl_tls.py", "create_pyopenssl_server_context", "SSL.TLS1_2_VERSION", "SSL.TLS1_1_VERSION")],
  "K1:security.pyopenssl_tls:create_pyopenssl_server_context")
M("C20", "max-version-tls1_1", "breaking",
  [("server/server.py", "_create_self_signed_context",
    "        ssl_context.minimum_version = ssl.TLSVersion.TLSv1_2\n",
    "        ssl_context.minimum_version = ssl.TLSVersion.TLSv1_2\n        ssl_context.maximum_version = ssl.TLSVersion.TLSv1_1\n")],
  "K1:server.server:_create_self_signed_context:lowered")
M("C20", "stdlib-listener-ssl-none", "breaking",
  [("server/server.py", "start_server", "            ssl=ssl_context,\n", "            ssl=None,\n")],
  "K2:server.server:start_server:server-plaintext")
M("C20", "stdlib-context-skipped-without-certfile", "breaking",
  [("server/server.py", "start_server",
    "            ssl_context = _create_self_signed_context(request_client_cert=False)\n", "            pass\n")],
  "K2:server.server:start_server:server-ssl")
M("C20", "client-no-ssl", "breaking",
  [("client/session.py", "GeminiClient._get_single", "                    ssl=self.ssl_context,\n", "")],
  "K2:client.session:GeminiClient._get_single:conn-no-ssl")
M("C20", "feed-raw-on-recv-error", "breaking",
  [("server/tls_protocol.py", "TLSServerProtocol._process_application_data",
    "        except SSL.WantReadError:\n            pass  # No more data available\n",
    "        except SSL.WantReadError:\n            if self.inner_protocol and raw:\n                self.inner_protocol.data_received(raw)\n"),
   ("server/tls_protocol.py", "TLSServerProtocol._process_application_data",
    "        if self.tls_conn is None:\n            return\n",
    "        if self.tls_conn is None:\n            return\n        raw = getattr(self, '_last_raw', b'')\n")],
  "K3:server.tls_protocol:TLSServerProtocol._process_application_data:inner-feed")
M("C20", "inner-before-handshake", "breaking",
  [("server/tls_protocol.py", "TLSServerProtocol._do_handshake",
    "        except SSL.WantReadError:\n            # Handshake needs more data - send what we have\n            self._flush_outgoing()\n",
    "        except SSL.WantReadError:\n            self._flush_outgoing()\n            if self.inner_protocol is None:\n                self._initialize_inner_protocol()\n")],
  "K3:server.tls_protocol:TLSServerProtocol._initialize_inner_protocol:inner-before-handshake")
M("C20", "plaintext-error-on-handshake-failure", "breaking",
  [("server/tls_protocol.py", "TLSServerProtocol._close_with_error",
    "        if self.transport:\n            self.transport.close()\n",
    "        if self.transport:\n            self.transport.write(b'59 TLS required\\r\\n')\n            self.transport.close()\n")],
  "K4:server.tls_protocol:TLSServerProtocol._close_with_error:raw-write")
M("C20", "benign-rename-context-var", "benign",
  [("security/tls.py", "create_server_context", "context.", "tls_ctx.", -1),
   ("security/tls.py", "create_server_context", "context = ssl", "tls_ctx = ssl", -1),
   ("security/tls.py", "create_server_context", "return context", "return tls_ctx")])
M("C20", "benign-tls13-floor", "benign",
  [("security/tls.py", "create_client_context", "ssl.TLSVersion.TLSv1_2", "ssl.TLSVersion.TLSv1_3")])
M("C20", "benign-floor-after-load", "benign",
  [("security/tls.py", "create_server_context",
    "    context.minimum_version = ssl.TLSVersion.TLSv1_2\n\n    # Load server certificate and key\n    context.load_cert_chain(certfile, keyfile)\n",
    "    context.load_cert_chain(certfile, keyfile)\n    context.minimum_version = ssl.TLSVersion.TLSv1_2\n")])

# ---------------------------------------------------------------- C07
P = "server/protocol.py"
DR = "GeminiServerProtocol.data_received"
M("C07", "revert-fix-state2-latch", "breaking",
  [(P, DR, "                self.awaiting_titan_content = False\n", "")],
  "S1:server.protocol:GeminiServerProtocol.data_received:double-dispatch")
M("C07", "remove-url-line-latch", "breaking",
  [(P, DR, "                self.buffer = remaining\n                self.url_line_received = True\n", "                self.buffer = remaining\n")],
  "S1:")
M("C07", "size-check-on-chunk", "breaking",
  [(P, DR, "if len(self.buffer) > MAX_REQUEST_SIZE and CRLF not in self.buffer:", "if len(data) > MAX_REQUEST_SIZE and CRLF not in self.buffer:")],
  "S3:server.protocol:GeminiServerProtocol.data_received:chunk-use")
M("C07", "content-slice-plus-one", "breaking",
  [(P, DR, "self.buffer[: self.titan_request.size]", "self.buffer[: self.titan_request.size + 1]")],
  "S2:server.protocol:GeminiServerProtocol.data_received:content-slice")
M("C07", "content-whole-buffer", "breaking",
  [(P, "GeminiServerProtocol._handle_titan_url", "self.buffer[: self.titan_request.size]", "self.buffer")],
  "S2:server.protocol:GeminiServerProtocol._handle_titan_url:content-slice")
M("C07", "read-counter", "breaking",
  [(P, DR, "        self.buffer += data\n", "        self.buffer += data\n        self.reads = getattr(self, 'reads', 0)\n        self.reads += 1\n")],
  "S3:server.protocol:GeminiServerProtocol.data_received:counter")
M("C07", "drop-pending-after-handshake", "breaking",
  [("server/tls_protocol.py", "TLSServerProtocol._initialize_inner_protocol", "        self._process_pending_after_handshake()\n", "")],
  "S4:server.tls_protocol:TLSServerProtocol._initialize_inner_protocol:no-drain-after-handshake")
M("C07", "pump-drops-chunk", "breaking",
  [("server/tls_protocol.py", "TLSServerProtocol._process_application_data",
    "                if decrypted and self.inner_protocol:\n                    self.inner_protocol.data_received(decrypted)\n",
    "                if decrypted and self.inner_protocol and len(decrypted) < 8192:\n                    self.inner_protocol.data_received(decrypted)\n")],
  "S4:server.tls_protocol:TLSServerProtocol._process_application_data:recv-dropped")
M("C07", "client-chunk-dependent", "breaking",
  [("client/protocol.py", "GeminiClientProtocol.data_received", "        if not self.header_received and CRLF in self.buffer:", "        if not self.header_received and CRLF in data:")],
  "S3:client.protocol:GeminiClientProtocol.data_received:chunk-use")
M("C07", "benign-buffer-concat-form", "benign",
  [(P, DR, "        self.buffer += data\n", "        self.buffer = self.buffer + data\n")])
M("C07", "benign-latch-before-slice", "benign",
  [(P, DR, "                self.titan_request.content = self.buffer[: self.titan_request.size]\n                # Content is complete: leave the waiting state so that any\n                # further read cannot dispatch the upload handler again\n                self.awaiting_titan_content = False\n",
    "                self.awaiting_titan_content = False\n                self.titan_request.content = self.buffer[: self.titan_request.size]\n")])

# ---------------------------------------------------------------- C01
SR = "GeminiServerProtocol._send_response"
M("C01", "revert-fix-early-exit-latch", "breaking",
  [(P, DR, "                self.url_line_received = True\n                self._send_error_response(", "                self._send_error_response("),
   (P, DR, "        if self.response_sent:\n            return\n", ""),
   (P, SR, "        if not self.transport or self.response_sent:", "        if not self.transport:")],
  "W5:server.protocol:GeminiServerProtocol.data_received:write-after-close")
M("C01", "encode-after-header-write", "breaking",
  [(P, SR, "        self.transport.write(header)\n        if body:\n            self.transport.write(body)\n",
    "        self.transport.write(header)\n        if body:\n            self.transport.write(response.body.encode('utf-8') if isinstance(response.body, str) else body)\n")],
  "W2:server.protocol:GeminiServerProtocol._send_response:may-raise-after-write")
M("C01", "drop-meta-sanitiser", "breaking",
  [(P, SR, '        meta = meta.replace("\\r", " ").replace("\\n", " ")\n', "")],
  "W3:server.protocol:GeminiServerProtocol._send_response:header")
M("C01", "sanitise-only-lf", "breaking",
  [(P, SR, 'meta.replace("\\r", " ").replace("\\n", " ")', 'meta.replace("\\n", " ")')],
  "W3:server.protocol:GeminiServerProtocol._send_response:header")
M("C01", "drop-meta-length-cap", "breaking",
  [(P, SR, '        meta = meta.encode("utf-8", errors="replace")[:1024].decode(\n            "utf-8", errors="ignore"\n        )\n', "")],
  "W3:server.protocol:GeminiServerProtocol._send_response:header")
M("C01", "status-range-off", "breaking",
  [(P, SR, "if not 10 <= status <= 69:", "if not 10 <= status <= 99:")],
  "W3:server.protocol:GeminiServerProtocol._send_response:header")
M("C01", "body-for-any-status", "breaking",
  [(P, SR, "if is_success(status) and response.body:", "if response.body:")],
  "W4:server.protocol:GeminiServerProtocol._send_response:body")
M("C01", "timeout-literal-malformed", "breaking",
  [(P, "GeminiServerProtocol._handle_timeout", '"40 Request timeout\\r\\n"', '"40  Request timeout\\n"')],
  "W3:server.protocol:GeminiServerProtocol._handle_timeout:header")
M("C01", "timeout-no-close", "breaking",
  [(P, "GeminiServerProtocol._handle_timeout", "            self.transport.write(response.encode(\"utf-8\"))\n            self.transport.close()\n", "            self.transport.write(response.encode(\"utf-8\"))\n")],
  "_handle_timeout")
M("C01", "deny-empty-unanswered", "breaking",
  [(P, "GeminiServerProtocol._handle_middleware_result",
    "                    self._send_error_response(\n                        StatusCode.TEMPORARY_FAILURE, \"Request rejected\"\n                    )\n", "                    pass\n")],
  "W5:server.protocol:GeminiServerProtocol._handle_middleware_result:orphan")
M("C01", "callback-narrow-except", "breaking",
  [(P, "GeminiServerProtocol._handle_async_handler_result", "        except Exception as e:", "        except ValueError as e:")],
  "W6:server.protocol:GeminiServerProtocol._handle_async_handler_result:unfunnelled")
M("C01", "rate-limit-header-malformed", "breaking",
  [("server/middleware.py", "RateLimiter.process_request", 'f"44 Rate limit exceeded. Retry after {retry_after} seconds\\r\\n"', 'f"44 Rate limit exceeded.\\nRetry after {retry_after} seconds\\r\\n"')],
  "W3:server.middleware:RateLimiter.process_request:reject-header")
M("C01", "acl-header-no-crlf", "breaking",
  [("server/middleware.py", "AccessControl.process_request", '"53 Access denied\\r\\n"', '"53 Access denied"')],
  "W3:server.middleware:AccessControl.process_request:reject-header")
M("C01", "latch-set-after-writes", "breaking",
  [(P, "GeminiServerProtocol._handle_timeout", "            self.response_sent = True\n", "")],
  "W5:")
M("C01", "benign-regex-sanitiser", "benign",
  [(P, SR, 'meta = meta.replace("\\r", " ").replace("\\n", " ")', 'meta = re.sub(r"[\\r\\n]+", " ", meta)'),
   (P, None, "import asyncio\n", "import asyncio\nimport re\n")])
M("C01", "benign-helper-sanitiser", "benign",
  [(P, SR, 'meta = meta.replace("\\r", " ").replace("\\n", " ")', "meta = _one_line(meta)"),
   (P, None, "logger = get_logger(__name__)\n", "logger = get_logger(__name__)\n\n\ndef _one_line(text: str) -> str:\n    return \" \".join(text.splitlines())\n")])
M("C01", "benign-single-write", "benign",
  [(P, SR, "        self.transport.write(header)\n        if body:\n            self.transport.write(body)\n", "        self.transport.write(header + body)\n")])
M("C01", "benign-status-guard-lt70", "benign",
  [(P, SR, "if not 10 <= status <= 69:", "if status < 10 or status >= 70:")])
