"""Mutant table of the self-test (see selftest.py).

edits: (file relative to the package root, function locator, old, new[, count])
"""

MUTANTS: list[dict] = []


def M(prop, name, kind, edits, expect=""):
    MUTANTS.append({"prop": prop, "name": name, "kind": kind, "edits": edits, "expect": expect})


# ---------------------------------------------------------------- C20
M("C20", "drop-floor-server-context", "breaking",
  [("security/tls.py", "create_server_context", "    context.minimum_version = ssl.TLSVersion.TLSv1_2\n", "")],
  "K1:security.tls:create_server_context:no-floor")
M("C20", "floor-only-with-client-cert", "breaking",
  [("security/tls.py", "create_server_context",
    "    context.minimum_version = ssl.TLSVersion.TLSv1_2\n\n    # Load server certificate and key\n    context.load_cert_chain(certfile, keyfile)\n",
    "    context.load_cert_chain(certfile, keyfile)\n    if request_client_cert:\n        context.minimum_version = ssl.TLSVersion.TLSv1_2\n")],
  "K1:security.tls:create_server_context:no-floor")
M("C20", "client-floor-tls1", "breaking",
  [("security/tls.py", "create_client_context", "ssl.TLSVersion.TLSv1_2", "ssl.TLSVersion.TLSv1")],
  "K1:security.tls:create_client_context")
M("C20", "pyopenssl-floor-tls1_1", "breaking",
  [("security/pyopenssl_tls.py", "create_pyopenssl_server_context", "SSL.TLS1_2_VERSION", "SSL.TLS1_1_VERSION")],
  "K1:security.pyopenssl_tls:create_pyopenssl_server_context")
M("C20", "max-version-tls1_1", "breaking",
  [("server/server.py", "_create_self_signed_context",
    "        ssl_context.minimum_version = ssl.TLSVersion.TLSv1_2\n",
    "        ssl_context.minimum_version = ssl.TLSVersion.TLSv1_2\n        ssl_context.maximum_version = ssl.TLSVersion.TLSv1_1\n")],
  "K1:server.server:_create_self_signed_context:lowered")
M("C20", "stdlib-listener-ssl-none", "breaking",
  [("server/server.py", "start_server", "            ssl=ssl_context,\n", "            ssl=None,\n")],
  "K2:server.server:start_server:server-plaintext")
M("C20", "stdlib-context-skipped-without-certfile", "breaking",
  [("server/server.py", "start_server",
    "            ssl_context = _create_self_signed_context(request_client_cert=False)\n", "            pass\n")],
  "K2:server.server:start_server:server-ssl")
M("C20", "client-no-ssl", "breaking",
  [("client/session.py", "GeminiClient._get_single", "                    ssl=self.ssl_context,\n", "")],
  "K2:client.session:GeminiClient._get_single:conn-no-ssl")
M("C20", "feed-raw-on-recv-error", "breaking",
  [("server/tls_protocol.py", "TLSServerProtocol._process_application_data",
    "        except SSL.WantReadError:\n            pass  # No more data available\n",
    "        except SSL.WantReadError:\n            if self.inner_protocol and raw:\n                self.inner_protocol.data_received(raw)\n"),
   ("server/tls_protocol.py", "TLSServerProtocol._process_application_data",
    "        if self.tls_conn is None:\n            return\n",
    "        if self.tls_conn is None:\n            return\n        raw = getattr(self, '_last_raw', b'')\n")],
  "K3:server.tls_protocol:TLSServerProtocol._process_application_data:inner-feed")
M("C20", "inner-before-handshake", "breaking",
  [("server/tls_protocol.py", "TLSServerProtocol._do_handshake",
    "        except SSL.WantReadError:\n            # Handshake needs more data - send what we have\n            self._flush_outgoing()\n",
    "        except SSL.WantReadError:\n            self._flush_outgoing()\n            if self.inner_protocol is None:\n                self._initialize_inner_protocol()\n")],
  "K3:server.tls_protocol:TLSServerProtocol._initialize_inner_protocol:inner-before-handshake")
M("C20", "plaintext-error-on-handshake-failure", "breaking",
  [("server/tls_protocol.py", "TLSServerProtocol._close_with_error",
    "        if self.transport:\n            self.transport.close()\n",
    "        if self.transport:\n            self.transport.write(b'59 TLS required\\r\\n')\n            self.transport.close()\n")],
  "K4:server.tls_protocol:TLSServerProtocol._close_with_error:raw-write")
M("C20", "benign-rename-context-var", "benign",
  [("security/tls.py", "create_server_context", "context.", "tls_ctx.", -1),
   ("security/tls.py", "create_server_context", "context = ssl", "tls_ctx = ssl", -1),
   ("security/tls.py", "create_server_context", "return context", "return tls_ctx")])
M("C20", "benign-tls13-floor", "benign",
  [("security/tls.py", "create_client_context", "ssl.TLSVersion.TLSv1_2", "ssl.TLSVersion.TLSv1_3")])
M("C20", "benign-floor-after-load", "benign",
  [("security/tls.py", "create_server_context",
    "    context.minimum_version = ssl.TLSVersion.TLSv1_2\n\n    # Load server certificate and key\n    context.load_cert_chain(certfile, keyfile)\n",
    "    context.load_cert_chain(certfile, keyfile)\n    context.minimum_version = ssl.TLSVersion.TLSv1_2\n")])

# ---------------------------------------------------------------- C07
P = "server/protocol.py"
DR = "GeminiServerProtocol.data_received"
M("C07", "revert-fix-state2-latch", "breaking",
  [(P, DR, "                self.awaiting_titan_content = False\n", "")],
  "S1:server.protocol:GeminiServerProtocol.data_received:double-dispatch")
M("C07", "remove-url-line-latch", "breaking",
  [(P, DR, "                self.buffer = remaining\n                self.url_line_received = True\n", "                self.buffer = remaining\n")],
  "S1:")
M("C07", "size-check-on-chunk", "breaking",
  [(P, DR, "if len(self.buffer) > MAX_REQUEST_SIZE and CRLF not in self.buffer:", "if len(data) > MAX_REQUEST_SIZE and CRLF not in self.buffer:")],
  "S3:server.protocol:GeminiServerProtocol.data_received:chunk-use")
M("C07", "content-slice-plus-one", "breaking",
  [(P, DR, "self.buffer[: self.titan_request.size]", "self.buffer[: self.titan_request.size + 1]")],
  "S2:server.protocol:GeminiServerProtocol.data_received:content-slice")
M("C07", "content-whole-buffer", "breaking",
  [(P, "GeminiServerProtocol._handle_titan_url", "self.buffer[: self.titan_request.size]", "self.buffer")],
  "S2:server.protocol:GeminiServerProtocol._handle_titan_url:content-slice")
M("C07", "read-counter", "breaking",
  [(P, DR, "        self.buffer += data\n", "        self.buffer += data\n        self.reads = getattr(self, 'reads', 0)\n        self.reads += 1\n")],
  "S3:server.protocol:GeminiServerProtocol.data_received:counter")
M("C07", "drop-pending-after-handshake", "breaking",
  [("server/tls_protocol.py", "TLSServerProtocol._initialize_inner_protocol", "        self._process_pending_after_handshake()\n", "")],
  "S4:server.tls_protocol:TLSServerProtocol._initialize_inner_protocol:no-drain-after-handshake")
M("C07", "pump-drops-chunk", "breaking",
  [("server/tls_protocol.py", "TLSServerProtocol._process_application_data",
    "                if decrypted and self.inner_protocol:\n                    self.inner_protocol.data_received(decrypted)\n",
    "                if decrypted and self.inner_protocol and len(decrypted) < 8192:\n                    self.inner_protocol.data_received(decrypted)\n")],
  "S4:server.tls_protocol:TLSServerProtocol._process_application_data:recv-dropped")
M("C13", "client-chunk-dependent", "breaking",
  [("client/protocol.py", "GeminiClientProtocol.data_received", "        if not self.header_received and CRLF in self.buffer:", "        if not self.header_received and CRLF in data:")],
  "E6:client.protocol:GeminiClientProtocol.data_received:chunk-use")
M("C07", "benign-buffer-concat-form", "benign",
  [(P, DR, "        self.buffer += data\n", "        self.buffer = self.buffer + data\n")])
M("C07", "benign-latch-before-slice", "benign",
  [(P, DR, "                self.titan_request.content = self.buffer[: self.titan_request.size]\n                # Content is complete: leave the waiting state so that any\n                # further read cannot dispatch the upload handler again\n                self.awaiting_titan_content = False\n",
    "                self.awaiting_titan_content = False\n                self.titan_request.content = self.buffer[: self.titan_request.size]\n")])

# ---------------------------------------------------------------- C01
SR = "GeminiServerProtocol._send_response"
M("C01", "revert-fix-early-exit-latch", "breaking",
  [(P, DR, "                self.url_line_received = True\n                self._send_error_response(", "                self._send_error_response("),
   (P, DR, "        if self.response_sent:\n            return\n", ""),
   (P, SR, "        if not self.transport or self.response_sent:", "        if not self.transport:")],
  "W5:server.protocol:GeminiServerProtocol.data_received:write-after-close")
M("C01", "revert-fix-strict-body-encode", "breaking",
  [(P, SR, "body = response.body.encode(\"utf-8\", errors=\"replace\")", "body = response.body.encode(\"utf-8\")")],
  "W7:server.protocol:GeminiServerProtocol._send_response:encode-may-escape")
M("C01", "strict-body-encode-but-contained", "benign",
  [(P, SR, "                body = response.body.encode(\"utf-8\", errors=\"replace\")\n", "                try:\n                    body = response.body.encode(\"utf-8\")\n                except UnicodeEncodeError:\n                    body = response.body.encode(\"utf-8\", errors=\"replace\")\n")])
M("C01", "revert-fix-cancelled-task", "breaking",
  [(P, "GeminiServerProtocol._handle_titan_upload_result", "        except (Exception, asyncio.CancelledError) as e:", "        except Exception as e:")],
  "W6:server.protocol:GeminiServerProtocol._handle_titan_upload_result:cancelled-task")
M("C01", "cancelled-task-guarded-by-test", "benign",
  [(P, "GeminiServerProtocol._handle_titan_upload_result", "        except (Exception, asyncio.CancelledError) as e:", "        except BaseException as e:")])
M("C01", "encode-after-header-write", "breaking",
  [(P, SR, "        self.transport.write(header)\n        if body:\n            self.transport.write(body)\n",
    "        self.transport.write(header)\n        if body:\n            self.transport.write(response.body.encode('utf-8') if isinstance(response.body, str) else body)\n")],
  "W2:server.protocol:GeminiServerProtocol._send_response:may-raise-after-write")
M("C01", "drop-meta-sanitiser", "breaking",
  [(P, SR, '        meta = meta.replace("\\r", " ").replace("\\n", " ")\n', "")],
  "W3:server.protocol:GeminiServerProtocol._send_response:header")
M("C01", "sanitise-only-lf", "breaking",
  [(P, SR, 'meta.replace("\\r", " ").replace("\\n", " ")', 'meta.replace("\\n", " ")')],
  "W3:server.protocol:GeminiServerProtocol._send_response:header")
M("C01", "drop-meta-length-cap", "breaking",
  [(P, SR, '        meta = meta.encode("utf-8", errors="replace")[:1024].decode(\n            "utf-8", errors="ignore"\n        )\n', "")],
  "W3:server.protocol:GeminiServerProtocol._send_response:header")
M("C01", "status-range-off", "breaking",
  [(P, SR, "if not 10 <= status <= 69:", "if not 10 <= status <= 99:")],
  "W3:server.protocol:GeminiServerProtocol._send_response:header")
M("C01", "body-for-any-status", "breaking",
  [(P, SR, "if is_success(status) and response.body:", "if response.body:")],
  "W4:server.protocol:GeminiServerProtocol._send_response:body")
M("C01", "timeout-literal-malformed", "breaking",
  [(P, "GeminiServerProtocol._handle_timeout", '"40 Request timeout\\r\\n"', '"40  Request timeout\\n"')],
  "W3:server.protocol:GeminiServerProtocol._handle_timeout:header")
M("C01", "timeout-no-close", "breaking",
  [(P, "GeminiServerProtocol._handle_timeout", "            self.transport.write(response.encode(\"utf-8\"))\n            self.transport.close()\n", "            self.transport.write(response.encode(\"utf-8\"))\n")],
  "_handle_timeout")
M("C01", "deny-empty-unanswered", "breaking",
  [(P, "GeminiServerProtocol._send_rejection",
    "            self._send_error_response(StatusCode.TEMPORARY_FAILURE, \"Request rejected\")\n", "            pass\n")],
  "orphan")
M("C01", "callback-narrow-except", "breaking",
  [(P, "GeminiServerProtocol._handle_async_handler_result", "        except (Exception, asyncio.CancelledError) as e:", "        except ValueError as e:")],
  "W6:server.protocol:GeminiServerProtocol._handle_async_handler_result:unfunnelled")
M("C01", "rate-limit-header-malformed", "breaking",
  [("server/middleware.py", "RateLimiter.process_request", 'f"44 Rate limit exceeded. Retry after {retry_after} seconds\\r\\n"', 'f"44 Rate limit exceeded.\\nRetry after {retry_after} seconds\\r\\n"')],
  "W3:server.middleware:RateLimiter.process_request:reject-header")
M("C01", "acl-header-no-crlf", "breaking",
  [("server/middleware.py", "AccessControl.process_request", '"53 Access denied\\r\\n"', '"53 Access denied"')],
  "W3:server.middleware:AccessControl.process_request:reject-header")
M("C01", "latch-set-after-writes", "breaking",
  [(P, "GeminiServerProtocol._handle_timeout", "            self.response_sent = True\n", "")],
  "W5:")
M("C01", "benign-regex-sanitiser", "benign",
  [(P, SR, 'meta = meta.replace("\\r", " ").replace("\\n", " ")', 'meta = re.sub(r"[\\r\\n]+", " ", meta)'),
   (P, None, "import asyncio\n", "import asyncio\nimport re\n")])
M("C01", "benign-helper-sanitiser", "benign",
  [(P, SR, 'meta = meta.replace("\\r", " ").replace("\\n", " ")', "meta = _one_line(meta)"),
   (P, None, "logger = get_logger(__name__)\n", "logger = get_logger(__name__)\n\n\ndef _one_line(text: str) -> str:\n    return \" \".join(text.splitlines())\n")])
M("C01", "benign-single-write", "benign",
  [(P, SR, "        self.transport.write(header)\n        if body:\n            self.transport.write(body)\n", "        self.transport.write(header + body)\n")])
M("C01", "benign-status-guard-lt70", "benign",
  [(P, SR, "if not 10 <= status <= 69:", "if status < 10 or status >= 70:")])

# ---------------------------------------------------------------- C04
MW = "server/middleware.py"
M("C04", "revert-fix-titan-ungated", "breaking",
  [(P, "GeminiServerProtocol._process_titan_upload", "        if self.middleware:\n", "        if False and self.middleware:\n")],
  "M1:server.protocol:GeminiServerProtocol.data_received:ungated-dispatch")
M("C04", "revert-fix-fail-open", "breaking",
  [(P, "GeminiServerProtocol._handle_gemini_request",
    "                self._send_error_response(\n                    StatusCode.TEMPORARY_FAILURE, \"Middleware error\"\n                )\n                return\n", "")],
  "M1b:server.protocol:GeminiServerProtocol._handle_gemini_request:fail-open")
M("C04", "route-before-verdict", "breaking",
  [(P, "GeminiServerProtocol._handle_gemini_request",
    "                # Return early - callback will handle the rest\n                return\n", "                self._route_request(request, client_ip)\n                return\n")],
  "M1:")
M("C04", "invert-allow", "breaking",
  [(P, "GeminiServerProtocol._handle_middleware_result", "            if not allow:", "            if allow:")],
  "M1:")
M("C04", "titan-callback-ignores-verdict", "breaking",
  [(P, "GeminiServerProtocol._handle_titan_middleware_result", "            if not allow:\n                self._send_rejection(error_response)\n                return\n", "            if not allow:\n                logger.warning('rejected')\n")],
  "M1:")
M("C04", "chain-swallows-exception", "breaking",
  [(MW, "MiddlewareChain.process_request",
    "            allow, response = await middleware.process_request(\n                request_url, client_ip, client_cert_fingerprint\n            )\n",
    "            try:\n                allow, response = await middleware.process_request(\n                    request_url, client_ip, client_cert_fingerprint\n                )\n            except Exception:\n                continue\n")],
  "M2:server.middleware:MiddlewareChain.process_request:swallow")
M("C04", "chain-skips-first", "breaking",
  [(MW, "MiddlewareChain.process_request", "for middleware in self.middlewares:", "for middleware in self.middlewares[1:]:")],
  "M2:server.middleware:MiddlewareChain.process_request:iter")
M("C04", "chain-ignores-verdict", "breaking",
  [(MW, "MiddlewareChain.process_request", "            if not allow:\n                return False, response\n", "            if not allow and response:\n                return False, response\n")],
  "M2:server.middleware:MiddlewareChain.process_request:falsy-verdict-continues")
M("C04", "chain-generic-rejection", "breaking",
  [(MW, "MiddlewareChain.process_request", "                return False, response\n", "                return False, \"40 Rejected\\r\\n\"\n")],
  "M2:server.middleware:MiddlewareChain.process_request:reject-response")
M("C04", "hostname-as-client-ip", "breaking",
  [(P, "GeminiServerProtocol._handle_gemini_request", 'client_ip = self.peer_name[0] if self.peer_name else "unknown"', 'client_ip = request.hostname if self.peer_name else "unknown"')],
  "M3:server.protocol:GeminiServerProtocol._handle_gemini_request:consult-ip")
M("C04", "fingerprint-dropped", "breaking",
  [(P, "GeminiServerProtocol._handle_gemini_request", "request.normalized_url, client_ip, client_cert_fingerprint\n", "request.normalized_url, client_ip, request.hostname\n")],
  "M3:server.protocol:GeminiServerProtocol._handle_gemini_request:consult-fp")
M("C04", "raw-request-line-to-chain", "breaking",
  [(P, "GeminiServerProtocol._handle_gemini_request", "request.normalized_url, client_ip, client_cert_fingerprint\n", "url, client_ip, client_cert_fingerprint\n")],
  "M3:server.protocol:GeminiServerProtocol._handle_gemini_request:consult-url")
M("C04", "stdlib-backend-without-chain", "breaking",
  [("server/server.py", "start_server", "            lambda: GeminiServerProtocol(router.route, middleware_chain),\n            config.host,\n            config.port,\n            ssl=ssl_context,", "            lambda: GeminiServerProtocol(router.route),\n            config.host,\n            config.port,\n            ssl=ssl_context,")],
  "M4:server.server:start_server:backend-divergence")
M("C04", "wrapper-peername-fake", "breaking",
  [("server/tls_protocol.py", "TLSTransportWrapper.get_extra_info", '                return self.tls_protocol.transport.get_extra_info("peername")', '                return ("127.0.0.1", 0)')],
  "M3:server.tls_protocol:TLSTransportWrapper.get_extra_info:wrapper-peername")
M("C04", "cert-attached-after-connection-made", "breaking",
  [("server/tls_protocol.py", "TLSServerProtocol._initialize_inner_protocol",
    "        # Notify inner protocol of connection\n        self.inner_protocol.connection_made(inner_transport)\n", ""),
   ("server/tls_protocol.py", "TLSServerProtocol._initialize_inner_protocol",
    "        peer_cert = get_peer_certificate_from_connection(self.tls_conn)\n",
    "        self.inner_protocol.connection_made(inner_transport)\n        peer_cert = get_peer_certificate_from_connection(self.tls_conn)\n")],
  "M3:server.tls_protocol:TLSServerProtocol._initialize_inner_protocol:cert-after-connection-made")
M("C04", "generic-rejection-text", "breaking",
  [(P, "GeminiServerProtocol._send_rejection", "                rejection = error_response.encode(\"utf-8\")\n", "                rejection = b\"40 Request rejected\\r\\n\"\n")],
  "M5:")
M("C04", "benign-inline-rejection-again", "benign",
  [(P, "GeminiServerProtocol._handle_middleware_result", "                self._send_rejection(error_response)\n",
    "                if error_response and self.transport and not self.response_sent:\n                    self.response_sent = True\n                    self.transport.write(error_response.encode(\"utf-8\"))\n                    self.transport.close()\n                else:\n                    self._send_rejection(error_response)\n")])
M("C04", "benign-rename-allow", "benign",
  [(P, "GeminiServerProtocol._handle_middleware_result", "allow, error_response = task.result()", "admitted, error_response = task.result()"),
   (P, "GeminiServerProtocol._handle_middleware_result", "if not allow:", "if not admitted:")])

# ---------------------------------------------------------------- C08
M("C08", "error-exit-falls-through", "breaking",
  [(P, DR, "                    self._send_error_response(\n                        StatusCode.BAD_REQUEST, \"Invalid UTF-8 encoding\"\n                    )\n                    return\n",
    "                    self._send_error_response(\n                        StatusCode.BAD_REQUEST, \"Invalid UTF-8 encoding\"\n                    )\n                    url = url_line.decode(\"utf-8\", errors=\"replace\")\n")],
  "V1:server.protocol:GeminiServerProtocol.data_received:bypass-UTF-8 decode")
M("C08", "route-on-parse-error", "breaking",
  [(P, "GeminiServerProtocol._handle_gemini_request",
    "        except ValueError as e:\n            self._send_error_response(StatusCode.BAD_REQUEST, str(e))\n            return\n",
    "        except ValueError as e:\n            logger.warning('lenient_parse', error=str(e))\n            request = GeminiRequest(raw_url=url, parsed_url=None)  # type: ignore[arg-type]\n")],
  "V1:server.protocol:GeminiServerProtocol.data_received:bypass-request parser")
M("C08", "skip-length-test", "breaking",
  [(P, DR, "                if len(url_line) + 2 > MAX_REQUEST_SIZE:\n                    self.url_line_received = True\n                    self._send_error_response(\n                        StatusCode.BAD_REQUEST,\n                        \"Request exceeds maximum size (1024 bytes)\",\n                    )\n                    return\n", "")],
  "V1:server.protocol:GeminiServerProtocol.data_received:bypass-line-length test")
M("C08", "drop-fragment-check", "breaking",
  [("utils/url.py", "parse_url", "    if parsed.fragment or \"#\" in url:\n        raise ValueError(f\"URL must not contain fragment: {url}\")\n", "")],
  "V2:utils.url:parse_url:accepts:fragment")
M("C08", "scheme-check-inverted", "breaking",
  [("utils/url.py", "parse_url", 'if parsed.scheme != "gemini":', 'if parsed.scheme == "gemini":')],
  "V2:utils.url:parse_url:")
M("C08", "userinfo-only-password", "breaking",
  [("utils/url.py", "parse_url", "if parsed.username or parsed.password or \"@\" in parsed.netloc:", "if parsed.password:")],
  "V2:utils.url:parse_url:accepts:user name")
M("C08", "hostname-check-dropped", "breaking",
  [("utils/url.py", "parse_url", "    if not parsed.hostname:\n        raise ValueError(f\"URL missing hostname: {url}\")\n", "")],
  "V2:utils.url:parse_url:accepts:missing host")
M("C08", "port-default-without-read", "breaking",
  [("utils/url.py", "parse_url", "port = parsed.port if parsed.port is not None else DEFAULT_PORT", "port = DEFAULT_PORT")],
  "V2:utils.url:parse_url:port-unread")
M("C08", "titan-negative-size-accepted", "breaking",
  [("protocol/request.py", "TitanRequest.from_line", "        if size < 0:\n            raise ValueError(f\"Size must be non-negative: {size}\")\n", "")],
  "V2:protocol.request:TitanRequest.from_line:titan-guard:negative size")
M("C08", "titan-size-default-zero", "breaking",
  [("protocol/request.py", "TitanRequest.from_line", "        if \"size\" not in params:\n            raise ValueError(\"Titan URL must contain size parameter\")\n", "        params.setdefault(\"size\", \"0\")\n")],
  "V2:protocol.request:TitanRequest.from_line:titan-guard:no size parameter")
M("C08", "titan-bad-size-as-zero", "breaking",
  [("protocol/request.py", "TitanRequest.from_line", "            raise ValueError(f\"Invalid size parameter: {size_text}\")\n", "            size_text = \"0\"\n")],
  "V2:protocol.request:TitanRequest.from_line:titan-guard:integer-size")
M("C08", "reject-status-50", "breaking",
  [(P, "GeminiServerProtocol._handle_gemini_request", "self._send_error_response(StatusCode.BAD_REQUEST, str(e))", "self._send_error_response(StatusCode.PERMANENT_FAILURE, str(e))")],
  "V3:server.protocol:GeminiServerProtocol._handle_gemini_request:reject-status:malformed URL")
M("C08", "limit-2048-at-one-site", "breaking",
  [(P, DR, "if len(url_line) + 2 > MAX_REQUEST_SIZE:", "if len(url_line) + 2 > 2 * MAX_REQUEST_SIZE:")],
  "V4:server.protocol:GeminiServerProtocol.data_received:limit")
M("C08", "limit-off-by-two", "breaking",
  [("utils/url.py", "validate_url", 'if len(url.encode("utf-8")) + 2 > MAX_REQUEST_SIZE:', 'if len(url.encode("utf-8")) > MAX_REQUEST_SIZE:')],
  "V4:utils.url:validate_url:limit")
M("C08", "uploads-disabled-after-parse", "breaking",
  [(P, "GeminiServerProtocol._handle_titan_url",
    "        if not self.upload_handler:\n            self._send_error_response(\n                StatusCode.PERMANENT_FAILURE,\n                \"Titan uploads not supported on this server\",\n            )\n            return\n\n", ""),
   (P, "GeminiServerProtocol._handle_titan_url",
    "        # Extract client certificate if present\n",
    "        if not self.upload_handler:\n            self._send_error_response(\n                StatusCode.PERMANENT_FAILURE,\n                \"Titan uploads not supported on this server\",\n            )\n            return\n\n        # Extract client certificate if present\n")],
  "V3:server.protocol:GeminiServerProtocol._handle_titan_url:uploads-disabled-order")
M("C08", "benign-ge-form-of-limit", "benign",
  [(P, DR, "if len(url_line) + 2 > MAX_REQUEST_SIZE:", "if len(url_line) + 1 >= MAX_REQUEST_SIZE:")])
M("C08", "benign-scheme-check-first", "benign",
  [("utils/url.py", "parse_url", "    if not parsed.scheme:\n        raise ValueError(f\"URL missing scheme: {url}\")\n\n", "")])

# ---------------------------------------------------------------- C15
M("C15", "revert-fix-handshake-deadline", "breaking",
  [("server/tls_protocol.py", "TLSServerProtocol.connection_made",
    "            self._handshake_timer = loop.call_later(\n                HANDSHAKE_TIMEOUT, self._handle_handshake_timeout\n            )\n", "            self._handshake_timer = None\n")],
  "X1:server.tls_protocol:TLSServerProtocol.connection_made:no-deadline")
M("C15", "timeout-parses-buffer-before-close", "breaking",
  [(P, "GeminiServerProtocol._handle_timeout", "            response = \"40 Request timeout\\r\\n\"\n", "            seen = int(self.buffer[:3] or b\"0\")\n            response = \"40 Request timeout\\r\\n\"\n")],
  "X3:server.protocol:GeminiServerProtocol._handle_timeout:raise-before-close")
M("C15", "timeout-parses-buffer-after-close", "benign",
  [(P, "GeminiServerProtocol._handle_timeout", "            self.transport.close()\n", "            self.transport.close()\n            logger.debug(\"timeout_partial\", partial=self.buffer[:80].decode(\"utf-8\", \"replace\"))\n")])
M("C15", "handshake-deadline-only-logs", "breaking",
  [("server/tls_protocol.py", "TLSServerProtocol._handle_handshake_timeout", "            self._close_with_error(\"TLS handshake timeout\")\n", "            logger.warning(\"tls_handshake_slow\")\n")],
  "X1:server.tls_protocol:TLSServerProtocol._handle_handshake_timeout:deadline-does-not-close")
M("C15", "cancel-timer-on-titan-line", "breaking",
  [(P, "GeminiServerProtocol._handle_titan_url",
    "            # Wait for content bytes\n            self.awaiting_titan_content = True\n",
    "            # Wait for content bytes\n            self.awaiting_titan_content = True\n            if self.timeout_handle:\n                self.timeout_handle.cancel()\n                self.timeout_handle = None\n")],
  "X2:server.protocol:GeminiServerProtocol.data_received:orphan")
M("C15", "no-cancel-before-gemini-dispatch", "breaking",
  [(P, DR, "                    if self.timeout_handle:\n                        self.timeout_handle.cancel()\n                        self.timeout_handle = None\n                    self._handle_gemini_request(url)\n", "                    self._handle_gemini_request(url)\n")],
  "X2:server.protocol:GeminiServerProtocol.data_received:timer-at-dispatch")
M("C15", "timeout-handler-does-nothing-when-waiting", "breaking",
  [(P, "GeminiServerProtocol._handle_timeout", "            self.response_sent = True\n            self.transport.write(response.encode(\"utf-8\"))\n            self.transport.close()\n", "            logger.warning(\"slow_client\")\n")],
  "X2:server.protocol:GeminiServerProtocol._handle_timeout:orphan")
M("C15", "timeout-answers-50", "breaking",
  [(P, "GeminiServerProtocol._handle_timeout", '"40 Request timeout\\r\\n"', '"50 Request timeout\\r\\n"')],
  "X3:server.protocol:GeminiServerProtocol._handle_timeout:timeout-status")
M("C15", "timer-not-armed", "breaking",
  [(P, "GeminiServerProtocol.connection_made", "            self.timeout_handle = loop.call_later(REQUEST_TIMEOUT, self._handle_timeout)\n", "            self.timeout_handle = None\n")],
  "X1:server.protocol:GeminiServerProtocol.connection_made:no-deadline")
M("C15", "infinite-delay", "breaking",
  [(P, None, "REQUEST_TIMEOUT = 30.0\n", "REQUEST_TIMEOUT = float(\"inf\")\n")],
  "X4:server.protocol:GeminiServerProtocol.connection_made:delay")
M("C15", "benign-shorter-timeout", "benign",
  [(P, None, "REQUEST_TIMEOUT = 30.0\n", "REQUEST_TIMEOUT = 10.0\n")])
M("C15", "benign-close-directly-in-deadline", "benign",
  [("server/tls_protocol.py", "TLSServerProtocol._handle_handshake_timeout", "            self._close_with_error(\"TLS handshake timeout\")\n", "            if self.transport:\n                self.transport.close()\n")])

# ---------------------------------------------------------------- C02
H = "server/handler.py"
SH = "StaticFileHandler.handle"
M("C02", "revert-fix-index-unchecked", "breaking",
  [(H, SH, "                index_path = (file_path / index_name).resolve()\n                if index_path.is_file() and self._is_safe_path(index_path):",
    "                index_path = file_path / index_name\n                if index_path.exists() and index_path.is_file():")],
  "P1:server.handler:StaticFileHandler.handle:unresolved:index_path")
M("C02", "index-resolved-but-unchecked", "breaking",
  [(H, SH, "if index_path.is_file() and self._is_safe_path(index_path):", "if index_path.is_file():")],
  "P1:server.handler:StaticFileHandler.handle:unchecked:index_path")
M("C02", "drop-resolve", "breaking",
  [(H, SH, "file_path = (self.document_root / requested_path).resolve()", "file_path = self.document_root / requested_path")],
  "P1:server.handler:StaticFileHandler.handle:unresolved:file_path")
M("C02", "check-moved-below-directory-handling", "breaking",
  [(H, SH, "        if not self._is_safe_path(file_path):\n            return GeminiResponse(status=StatusCode.NOT_FOUND.value, meta=\"Not found\")\n\n        # If path is a directory", "        # If path is a directory"),
   (H, SH, "        # Check if file exists\n", "        if not self._is_safe_path(file_path):\n            return GeminiResponse(status=StatusCode.NOT_FOUND.value, meta=\"Not found\")\n\n        # Check if file exists\n")],
  "P1:server.handler:StaticFileHandler.handle:unchecked:file_path")
M("C02", "string-prefix-containment", "breaking",
  [(H, "StaticFileHandler._is_safe_path", "            file_path.relative_to(self.document_root)\n            return True\n", "            return str(file_path).startswith(str(self.document_root))\n")],
  "P2:server.handler:StaticFileHandler._is_safe_path")
M("C02", "containment-swallowed", "breaking",
  [(H, "StaticFileHandler._is_safe_path", "        except ValueError:\n            # Path is not within document_root\n            return False\n", "        except ValueError:\n            return True\n")],
  "P2:server.handler:StaticFileHandler._is_safe_path:true-without-containment")
M("C02", "root-not-resolved", "breaking",
  [(H, "StaticFileHandler.__init__", "self.document_root = Path(document_root).resolve()", "self.document_root = Path(document_root)")],
  "P2:server.handler:StaticFileHandler:root-unresolved")
M("C02", "body-on-not-found", "breaking",
  [(H, SH, "        if not file_path.exists() or not file_path.is_file():\n            return GeminiResponse(status=StatusCode.NOT_FOUND.value, meta=\"Not found\")\n",
    "        if not file_path.exists() or not file_path.is_file():\n            return GeminiResponse(status=StatusCode.NOT_FOUND.value, meta=\"Not found\", body=str(file_path))\n")],
  "P3:server.handler:StaticFileHandler.handle:body-on-failure")
M("C02", "revert-fix-no-unquote", "breaking",
  [(H, SH, "requested_path = unquote(request.path).lstrip(\"/\")", "requested_path = request.path.lstrip(\"/\")")],
  "P4:server.handler:StaticFileHandler.handle:no-percent-decoding")
M("C02", "double-unquote", "breaking",
  [(H, SH, "requested_path = unquote(request.path).lstrip(\"/\")", "requested_path = unquote(unquote(request.path)).lstrip(\"/\")")],
  "P4:server.handler:StaticFileHandler.handle:double-percent-decoding")
M("C14", "upload-containment-string-prefix", "breaking",
  [(H, "FileUploadHandler._is_safe_path", "            file_path.relative_to(self.upload_dir)\n            return True\n", "            return str(file_path).startswith(str(self.upload_dir))\n")],
  "U1:")
M("C02", "benign-is-relative-to", "benign",
  [(H, "StaticFileHandler._is_safe_path", "        try:\n            # Check if the resolved path is relative to document_root\n            file_path.relative_to(self.document_root)\n            return True\n        except ValueError:\n            # Path is not within document_root\n            return False\n", "        return file_path.is_relative_to(self.document_root)\n"),
   (H, "FileUploadHandler._is_safe_path", "        try:\n            file_path.relative_to(self.upload_dir)\n            return True\n        except ValueError:\n            return False\n", "        return file_path.is_relative_to(self.upload_dir)\n")])
M("C02", "benign-rename-file-path", "benign",
  [(H, SH, "file_path", "target_file", -1)])

# ---------------------------------------------------------------- C05
CFGF = "server/config.py"
M("C05", "revert-fix-empty-list", "breaking",
  [(CFGF, "ServerConfig.get_certificate_auth_config", "set(fingerprints_list) if fingerprints_list is not None else None", "set(fingerprints_list) if fingerprints_list else None")],
  "A2:server.config:ServerConfig.get_certificate_auth_config:allow-list-fidelity:empty list")
M("C05", "revert-fix-raw-path-matching", "breaking",
  [(MW, "CertificateAuth._extract_path", "        return \"/\" + posixpath.normpath(unquote(path)).lstrip(\"/\")\n", "        return path\n")],
  "A5:server.middleware:CertificateAuth.process_request:spelling:")
M("C05", "matcher-does-not-decode", "breaking",
  [(MW, "CertificateAuth._extract_path", "posixpath.normpath(unquote(path))", "posixpath.normpath(path)")],
  "A5:server.middleware:CertificateAuth.process_request:spelling:percent-decoding")
M("C05", "matcher-no-directory-form", "breaking",
  [(MW, "CertificateAuth._find_matching_rule", "if path.startswith(rule.prefix) or as_directory.startswith(rule.prefix):", "if path.startswith(rule.prefix):")],
  "A5:server.middleware:CertificateAuth.process_request:spelling:directory-slash")
M("C05", "exact-match-instead-of-prefix", "breaking",
  [(MW, "CertificateAuth._find_matching_rule", "if path.startswith(rule.prefix) or as_directory.startswith(rule.prefix):", "if path == rule.prefix:")],
  "A")
M("C05", "reversed-rule-order", "breaking",
  [(MW, "CertificateAuth._find_matching_rule", "for rule in self.config.path_rules:", "for rule in reversed(self.config.path_rules):")],
  "A4:server.middleware:CertificateAuth._find_matching_rule:rule-order")
M("C05", "last-match-wins", "breaking",
  [(MW, "CertificateAuth._find_matching_rule",
    "        for rule in self.config.path_rules:\n            if path.startswith(rule.prefix) or as_directory.startswith(rule.prefix):\n                return rule\n        return None\n",
    "        found = None\n        for rule in self.config.path_rules:\n            if path.startswith(rule.prefix) or as_directory.startswith(rule.prefix):\n                found = rule\n        return found\n")],
  "A4:server.middleware:CertificateAuth._find_matching_rule:first-match")
M("C05", "allow-list-truthiness", "breaking",
  [(MW, "CertificateAuth.process_request", "if rule.allowed_fingerprints is not None:", "if rule.allowed_fingerprints:")],
  "A1:server.middleware:CertificateAuth.process_request:table:")
M("C05", "drop-second-60", "breaking",
  [(MW, "CertificateAuth.process_request", "            if client_cert_fingerprint is None:\n                # Whitelist requires a cert\n                return False, \"60 Client certificate required\\r\\n\"\n\n", "")],
  "A1:server.middleware:CertificateAuth.process_request:table:")
M("C05", "61-becomes-60", "breaking",
  [(MW, "CertificateAuth.process_request", "return False, \"61 Certificate not authorized\\r\\n\"", "return False, \"60 Client certificate required\\r\\n\"")],
  "A1:server.middleware:CertificateAuth.process_request:table:")
M("C05", "require-cert-key-misspelt", "breaking",
  [(CFGF, "ServerConfig.get_certificate_auth_config", "require_cert=path_config.get(\"require_cert\", False)", "require_cert=path_config.get(\"required\", False)")],
  "A3:server.config:ServerConfig.get_certificate_auth_config:key-crossed:require_cert")
M("C05", "allow-list-not-passed", "breaking",
  [(CFGF, "ServerConfig.get_certificate_auth_config", "                    allowed_fingerprints=fingerprints,\n", "")],
  "A2:server.config:ServerConfig.get_certificate_auth_config:allow-list-dropped")
M("C05", "toml-paths-wrong-section", "breaking",
  [(CFGF, "ServerConfig.from_toml", "certificate_auth_paths=certificate_auth.get(\"paths\")", "certificate_auth_paths=server.get(\"certificate_auth_paths\")")],
  "A3:server.config:ServerConfig.from_toml:toml-paths")
M("C05", "pyopenssl-only-for-require-cert", "breaking",
  [("server/server.py", "start_server", "rule.require_cert or rule.allowed_fingerprints is not None\n            for rule in certificate_auth_config.path_rules", "rule.require_cert\n            for rule in certificate_auth_config.path_rules")],
  "A7:server.server:start_server:backend-selection")
M("C05", "rules-sorted-longest-prefix-first", "breaking",
  [(CFGF, "ServerConfig.get_certificate_auth_config", "        return CertificateAuthConfig(path_rules=path_rules)\n", "        path_rules.sort(key=lambda r: len(r.prefix), reverse=True)\n        return CertificateAuthConfig(path_rules=path_rules)\n")],
  "A13:server.config:ServerConfig.get_certificate_auth_config:rule-list-reshaped")
M("C05", "rules-skip-entries-without-constraints", "breaking",
  [(CFGF, "ServerConfig.get_certificate_auth_config", "            path_rules.append(\n                CertificateAuthPathRule(\n", "            if fingerprints is not None or path_config.get(\"require_cert\", False):\n              path_rules.append(\n                CertificateAuthPathRule(\n")],
  "A13:server.config:ServerConfig.get_certificate_auth_config:rule-list-reshaped")
M("C05", "rules-reversed-view", "breaking",
  [(CFGF, "ServerConfig.get_certificate_auth_config", "        return CertificateAuthConfig(path_rules=path_rules)\n", "        return CertificateAuthConfig(path_rules=list(reversed(path_rules)))\n")],
  "A13:server.config:ServerConfig.get_certificate_auth_config:rule-list-reshaped")
M("C05", "benign-rules-loop-over-local-copy", "benign",
  [(CFGF, "ServerConfig.get_certificate_auth_config", "        for path_config in self.certificate_auth_paths:\n", "        configured = self.certificate_auth_paths\n        for path_config in configured:\n")])
M("C05", "benign-rule-through-local-then-append", "benign",
  [(CFGF, "ServerConfig.get_certificate_auth_config", "            path_rules.append(\n                CertificateAuthPathRule(\n                    prefix=path_config[\"prefix\"],\n                    require_cert=path_config.get(\"require_cert\", False),\n                    allowed_fingerprints=fingerprints,\n                )\n            )\n", "            rule = CertificateAuthPathRule(\n                prefix=path_config[\"prefix\"],\n                require_cert=path_config.get(\"require_cert\", False),\n                allowed_fingerprints=fingerprints,\n            )\n            path_rules.append(rule)\n")])
M("C05", "benign-annotated-accumulator-positional-config", "benign",
  [(CFGF, "ServerConfig.get_certificate_auth_config", "        path_rules = []\n", "        path_rules: list[CertificateAuthPathRule] = []\n"),
   (CFGF, "ServerConfig.get_certificate_auth_config", "        return CertificateAuthConfig(path_rules=path_rules)\n", "        config = CertificateAuthConfig(path_rules)\n        return config\n")])
M("C05", "benign-enumerate-loop", "benign",
  [(CFGF, "ServerConfig.get_certificate_auth_config", "        for path_config in self.certificate_auth_paths:\n", "        for _index, path_config in enumerate(self.certificate_auth_paths):\n")])
M("C05", "rules-deduplicated-by-prefix-set", "breaking",
  [(CFGF, "ServerConfig.get_certificate_auth_config", "        for path_config in self.certificate_auth_paths:\n", "        seen_prefixes: set[str] = set()\n        for path_config in self.certificate_auth_paths:\n            if path_config[\"prefix\"] in seen_prefixes:\n                continue\n            seen_prefixes.add(path_config[\"prefix\"])\n")],
  "A13:server.config:ServerConfig.get_certificate_auth_config:rule-list-reshaped")
M("C05", "benign-regex-slash-collapse", "benign",
  [(MW, "CertificateAuth._extract_path", "        return \"/\" + posixpath.normpath(unquote(path)).lstrip(\"/\")\n", "        canonical = posixpath.normpath(unquote(path))\n        return \"/\" + canonical.lstrip(\"/\")\n")])

# ---------------------------------------------------------------- C09
M("C09", "revert-fix-default-deny-dropped", "breaking",
  [(CFGF, "ServerConfig.get_access_control_config", "            if self.access_control_default_allow:\n                return None\n", "            return None\n")],
  "I2:server.config:ServerConfig.get_access_control_config:policy-dropped")
M("C09", "allow-before-deny", "breaking",
  [(MW, "AccessControl._is_allowed",
    "        # Check deny list first (takes precedence)\n        for network in self.deny_networks:\n            if ip_obj in network:\n                return False\n\n", ""),
   (MW, "AccessControl._is_allowed",
    "        # No allow list - use default policy\n",
    "        for network in self.deny_networks:\n            if ip_obj in network:\n                return False\n\n        # No allow list - use default policy\n")],
  "I1:server.middleware:AccessControl._is_allowed:admit-before-deny-list")
M("C09", "invalid-ip-admitted", "breaking",
  [(MW, "AccessControl._is_allowed", "        except ValueError:\n            # Invalid IP - deny\n            return False\n", "        except ValueError:\n            return self.config.default_allow\n")],
  "I1:server.middleware:AccessControl._is_allowed:unparsable-admitted")
M("C09", "allow-miss-falls-to-default", "breaking",
  [(MW, "AccessControl._is_allowed", "            # Not in allow list\n            return False\n", "")],
  "I1:server.middleware:AccessControl._is_allowed:allow-miss-admitted")
M("C09", "default-negated", "breaking",
  [(MW, "AccessControl._is_allowed", "        return self.config.default_allow\n", "        return not self.config.default_allow\n")],
  "I1:server.middleware:AccessControl._is_allowed:default-policy")
M("C09", "bad-entry-skipped", "breaking",
  [(MW, "AccessControl.__init__",
    "                    except ValueError:\n                        # Try IPv6\n                        self.deny_networks.append(ip_network(f\"{cidr}/128\"))\n",
    "                    except ValueError:\n                        continue\n")],
  "I3:server.middleware:AccessControl.__init__:entry-skipped")
M("C09", "acl-ctor-in-try", "breaking",
  [("server/server.py", "start_server",
    "        access_control = AccessControl(access_control_config)\n        middlewares.append(access_control)\n",
    "        try:\n            access_control = AccessControl(access_control_config)\n            middlewares.append(access_control)\n        except ValueError:\n            logger.warning(\"access_control_invalid\")\n")],
  "I3:server.server:start_server")
M("C09", "deny-list-feeds-allow-list", "breaking",
  [(CFGF, "ServerConfig.get_access_control_config", "allow_list=self.access_control_allow_list,", "allow_list=self.access_control_deny_list,")],
  "I5:server.config:ServerConfig.get_access_control_config:field-crossed:allow_list")
M("C09", "toml-deny-key", "breaking",
  [(CFGF, "ServerConfig.from_toml", "access_control_deny_list=access_control.get(\"deny_list\")", "access_control_deny_list=access_control.get(\"deny\")")],
  "I5:server.config:ServerConfig.from_toml:toml-key:access_control_deny_list")
M("C09", "refusal-status-59", "breaking",
  [(MW, "AccessControl.process_request", "\"53 Access denied\\r\\n\"", "\"59 Access denied\\r\\n\"")],
  "I4:server.middleware:AccessControl.process_request:verdict:denied")
M("C09", "benign-any-form", "benign",
  [(MW, "AccessControl._is_allowed", "            # Not in allow list\n            return False\n", "            return False  # not in allow list\n")])

# ---------------------------------------------------------------- C10
M("C10", "revert-fix-eviction-by-age", "breaking",
  [(MW, "RateLimiter._cleanup_loop", "                and bucket.tokens + (now - bucket.last_update) * bucket.refill_rate\n                >= bucket.capacity\n", "")],
  "L3:server.middleware:RateLimiter._cleanup_loop:eviction-ignores-fill-state")
M("C10", "drop-min-clamp", "breaking",
  [(MW, "TokenBucket.consume", "self.tokens = min(self.capacity, self.tokens + (elapsed * self.refill_rate))", "self.tokens = self.tokens + (elapsed * self.refill_rate)")],
  "L1:server.middleware:TokenBucket.consume:bounds")
M("C10", "decrement-unguarded", "breaking",
  [(MW, "TokenBucket.consume", "        if self.tokens >= tokens:\n            self.tokens -= tokens\n            return True\n\n        return False\n", "        self.tokens -= tokens\n        return self.tokens >= 0\n")],
  "L1:server.middleware:TokenBucket.consume")
M("C10", "no-timestamp-update", "breaking",
  [(MW, "TokenBucket.consume", "        self.last_update = now\n", "")],
  "L1:server.middleware:TokenBucket.consume:refill-without-timestamp")
M("C10", "bucket-keyed-by-url", "breaking",
  [(MW, "RateLimiter.process_request", "bucket = self.buckets[client_ip]", "bucket = self.buckets.setdefault(request_url, self.buckets[client_ip])")],
  "L2:server.middleware:RateLimiter.process_request")
M("C10", "await-before-consume", "breaking",
  [(MW, "RateLimiter.process_request", "        bucket = self.buckets[client_ip]\n", "        bucket = self.buckets[client_ip]\n        await asyncio.sleep(0)\n")],
  "L4:server.middleware:RateLimiter.process_request:await-in-decision")
M("C10", "wall-clock", "breaking",
  [(MW, "TokenBucket.consume", "now = time.monotonic()", "now = time.time()")],
  "L5:server.middleware:TokenBucket.consume:clock")
M("C10", "refuse-with-40", "breaking",
  [(MW, "RateLimiter.process_request", "f\"44 Rate limit exceeded.", "f\"40 Rate limit exceeded.")],
  "L6:server.middleware:RateLimiter.process_request:verdict")
M("C10", "retry-hint-constant", "breaking",
  [(MW, "RateLimiter.process_request", "retry_after = self.config.retry_after", "retry_after = 30")],
  "L6:server.middleware:RateLimiter.process_request:retry-hint")
M("C10", "new-bucket-double-capacity", "breaking",
  [(MW, "TokenBucket.__init__", "self.tokens = float(capacity)", "self.tokens = float(capacity * 2)")],
  "L2:server.middleware:TokenBucket:initial-fill")
M("C10", "await-between-select-and-delete", "breaking",
  [(MW, "RateLimiter._cleanup_loop", "            for ip in to_remove:\n                del self.buckets[ip]\n", "            for ip in to_remove:\n                await asyncio.sleep(0)\n                del self.buckets[ip]\n")],
  "L4:server.middleware:RateLimiter._cleanup_loop:await-between-select-and-delete")
M("C10", "benign-conditional-clamp", "benign",
  [(MW, "TokenBucket.consume", "self.tokens = min(self.capacity, self.tokens + (elapsed * self.refill_rate))", "self.tokens = self.tokens + (elapsed * self.refill_rate)\n        if self.tokens > self.capacity:\n            self.tokens = self.capacity")])

# ---------------------------------------------------------------- C06
TP = "server/tls_protocol.py"
M("C06", "revert-fix-send", "breaking",
  [(TP, "TLSTransportWrapper.write", "self.tls_protocol.tls_conn.sendall(data)", "self.tls_protocol.tls_conn.send(data)")],
  "R1:server.tls_protocol:TLSTransportWrapper.write:dropped-short-write")
M("C06", "send-result-read-not-looped", "breaking",
  [(TP, "TLSTransportWrapper.write", "self.tls_protocol.tls_conn.sendall(data)", "sent = self.tls_protocol.tls_conn.send(data)")],
  "R1:server.tls_protocol:TLSTransportWrapper.write:short-write-not-looped")
M("C06", "no-flush-after-write", "breaking",
  [(TP, "TLSTransportWrapper.write", "            self.tls_protocol._flush_outgoing()\n", "")],
  "R2:server.tls_protocol:TLSTransportWrapper.write:encrypt-without-flush")
M("C06", "close-without-flush", "breaking",
  [(TP, "TLSTransportWrapper.close", "                self.tls_protocol.tls_conn.shutdown()\n                self.tls_protocol._flush_outgoing()\n", "                self.tls_protocol.tls_conn.shutdown()\n")],
  "R2:server.tls_protocol:TLSTransportWrapper.close:close-without-drain")
M("C06", "flush-single-read", "breaking",
  [(TP, "TLSServerProtocol._flush_outgoing", "            while True:\n                pending = self.tls_conn.bio_read(8192)\n                if not pending:\n                    break\n                self.transport.write(pending)\n", "            pending = self.tls_conn.bio_read(8192)\n            if pending:\n                self.transport.write(pending)\n")],
  "R2:server.tls_protocol:TLSServerProtocol._flush_outgoing:flush-incomplete")
M("C06", "body-sliced", "breaking",
  [(P, SR, "                body = response.body.encode(\"utf-8\", errors=\"replace\")\n", "                body = response.body[:65536].encode(\"utf-8\")\n")],
  "R3:server.protocol:GeminiServerProtocol._send_response:body-altered")
M("C06", "body-latin1", "breaking",
  [(P, SR, "                body = response.body.encode(\"utf-8\", errors=\"replace\")\n", "                body = response.body.encode(\"latin-1\", errors=\"replace\")\n")],
  "R3:server.protocol:GeminiServerProtocol._send_response:body-")
M("C06", "rewrap-drops-body", "breaking",
  [(P, "GeminiServerProtocol._handle_async_handler_result", "                    body=response.body,\n", "                    body=None,\n")],
  "R3:server.protocol:GeminiServerProtocol._handle_async_handler_result:rewrap-alters")
M("C06", "benign-sendall-var", "benign",
  [(TP, "TLSTransportWrapper.write", "            self.tls_protocol.tls_conn.sendall(data)\n", "            conn = self.tls_protocol.tls_conn\n            conn.sendall(data)\n")])

# ---------------------------------------------------------------- C14
UH = "FileUploadHandler.handle_upload"
M("C14", "revert-fix-write-bytes", "breaking",
  [(H, UH, "            tmp_path = target.parent / f\".upload-{uuid.uuid4().hex}.tmp\"\n            try:\n                with open(tmp_path, \"xb\") as tmp_file:\n                    tmp_file.write(request.content)\n                os.replace(tmp_path, target)\n            except BaseException:\n                tmp_path.unlink(missing_ok=True)\n                raise\n", "            target.write_bytes(request.content)\n")],
  "U2:server.handler:FileUploadHandler.handle_upload:in-place-write")
M("C14", "temp-file-not-cleaned", "breaking",
  [(H, UH, "                tmp_path.unlink(missing_ok=True)\n                raise\n", "                raise\n")],
  "U2:server.handler:FileUploadHandler.handle_upload:temp-file-leak")
M("C14", "token-check-after-write", "breaking",
  [(H, UH, "        if self.auth_tokens:\n            if not request.token or request.token not in self.auth_tokens:\n                return GeminiResponse(\n                    status=StatusCode.CLIENT_CERT_REQUIRED.value,\n                    meta=\"Valid authentication token required\",\n                )\n\n", ""),
   (H, UH, "            return GeminiResponse(\n                status=StatusCode.SUCCESS.value,\n                meta=MIME_TYPE_GEMTEXT,\n                body=f\"# Upload Successful",
    "            if self.auth_tokens:\n                if not request.token or request.token not in self.auth_tokens:\n                    return GeminiResponse(\n                        status=StatusCode.CLIENT_CERT_REQUIRED.value,\n                        meta=\"Valid authentication token required\",\n                    )\n            return GeminiResponse(\n                status=StatusCode.SUCCESS.value,\n                meta=MIME_TYPE_GEMTEXT,\n                body=f\"# Upload Successful")],
  "U1:server.handler:FileUploadHandler.handle_upload:unguarded-mutation:wrong token")
M("C14", "token-check-only-when-present", "breaking",
  [(H, UH, "if not request.token or request.token not in self.auth_tokens:", "if request.token and request.token not in self.auth_tokens:")],
  "U1:server.handler:FileUploadHandler.handle_upload:unguarded-mutation:missing token")
M("C14", "size-limit-off", "breaking",
  [(H, UH, "if request.size > self.max_size:", "if request.size > self.max_size * 1024:")],
  "U1:server.handler:FileUploadHandler.handle_upload:unguarded-mutation:size above limit")
M("C14", "mime-check-inverted", "breaking",
  [(H, UH, "if self.allowed_types and request.mime_type not in self.allowed_types:", "if self.allowed_types and request.mime_type in self.allowed_types:")],
  "U1:server.handler:FileUploadHandler.handle_upload:")
M("C14", "delete-before-auth", "breaking",
  [(H, UH, "        # 4. Handle zero-byte delete request\n        if request.is_delete():\n            return await self._handle_delete(request.path)\n\n", ""),
   (H, UH, "        # 1. Validate authentication (if tokens configured)\n", "        if request.is_delete():\n            return await self._handle_delete(request.path)\n\n        # 1. Validate authentication (if tokens configured)\n")],
  "U1:server.handler:FileUploadHandler.handle_upload:unguarded-mutation:wrong token on delete")
M("C14", "delete-ignores-enable-flag", "breaking",
  [(H, "FileUploadHandler._handle_delete", "        if not self.enable_delete:\n            return GeminiResponse(\n                status=StatusCode.PERMANENT_FAILURE.value,\n                meta=\"Delete operations are disabled\",\n            )\n\n", "")],
  "U1:server.handler:FileUploadHandler.handle_upload:unguarded-mutation:delete while disabled")
M("C14", "delete-without-containment", "breaking",
  [(H, "FileUploadHandler._handle_delete", "        if not self._is_safe_path(target):\n            return GeminiResponse(\n                status=StatusCode.BAD_REQUEST.value,\n                meta=\"Invalid path\",\n            )\n\n", "")],
  "U1:server.handler:FileUploadHandler._handle_delete:unchecked:target")
M("C14", "upload-target-unresolved", "breaking",
  [(H, UH, "target = (self.upload_dir / request.path.lstrip(\"/\")).resolve()", "target = self.upload_dir / request.path.lstrip(\"/\")")],
  "U1:server.handler:FileUploadHandler.handle_upload:unresolved:target")
M("C14", "content-truncated-by-one", "breaking",
  [(H, UH, "tmp_file.write(request.content)", "tmp_file.write(request.content[:-1])")],
  "U3:server.handler:FileUploadHandler.handle_upload:content-altered")
M("C14", "max-size-from-wrong-setting", "breaking",
  [(CFGF, "ServerConfig.get_upload_handler", "max_size=self.titan_max_upload_size,", "max_size=self.max_file_size,")],
  "U5:server.config:ServerConfig.get_upload_handler:field-crossed:max_size")
M("C14", "tokens-not-wired", "breaking",
  [(CFGF, "ServerConfig.get_upload_handler", "            auth_tokens=auth_tokens,\n", "")],
  "U5:server.config:ServerConfig.get_upload_handler:field-crossed:auth_tokens")
M("C14", "benign-path-replace", "benign",
  [(H, UH, "                os.replace(tmp_path, target)\n", "                tmp_path.replace(target)\n")])

# ---------------------------------------------------------------- C12
TF = "security/tofu.py"
IT = "TOFUDatabase.import_toml"
M("C12", "revert-fix-clear-before-import", "breaking",
  [(TF, IT, "            if not merge:\n                cursor.execute(\"DELETE FROM known_hosts\")\n", ""),
   (TF, IT, "        added_count = 0\n", "        if not merge:\n            self.clear()\n\n        added_count = 0\n")],
  "D2:security.tofu:TOFUDatabase.import_toml:nested-commit:clear")
M("C12", "revert-fix-second-connection-lookup", "breaking",
  [(TF, IT, "                cursor.execute(\n                    \"SELECT fingerprint FROM known_hosts \"\n                    \"WHERE hostname = ? AND port = ?\",\n                    (hostname, port),\n                )\n                row = cursor.fetchone()\n                existing = dict(row) if row is not None else None\n", "                existing = self.get_host_info(hostname, port)\n")],
  "D3:security.tofu:TOFUDatabase.import_toml:second-connection:get_host_info")
M("C12", "commit-per-entry", "breaking",
  [(TF, IT, "                    added_count += 1\n", "                    added_count += 1\n                    conn.commit()\n")],
  "D1:security.tofu:TOFUDatabase.import_toml:commit-in-loop")
M("C12", "autocommit-connection", "breaking",
  [(TF, "TOFUDatabase._connection", "conn = sqlite3.connect(str(self.db_path))", "conn = sqlite3.connect(str(self.db_path), isolation_level=None)")],
  "D4:security.tofu:TOFUDatabase._connection:autocommit")
M("C12", "commit-on-exit", "breaking",
  [(TF, "TOFUDatabase._connection", "        finally:\n            conn.close()\n", "        finally:\n            conn.commit()\n            conn.close()\n")],
  "D4:security.tofu:TOFUDatabase._connection:commit-on-exit")
M("C12", "trust-forgets-commit-on-update", "breaking",
  [(TF, "TOFUDatabase.trust", "                    (fingerprint, now, hostname, port),\n                )\n\n            conn.commit()\n", "                    (fingerprint, now, hostname, port),\n                )\n                return\n\n            conn.commit()\n")],
  "D1:security.tofu:TOFUDatabase.trust:dml-without-commit")
M("C12", "import-key-split", "breaking",
  [(TF, IT, "                hostname = host_data[\"hostname\"]\n                port = host_data[\"port\"]\n", "                hostname, _, _p = key.rpartition(\":\")\n                port = host_data[\"port\"]\n")],
  "D5:security.tofu:TOFUDatabase.import_toml")
M("C12", "insert-drops-first-seen", "breaking",
  [(TF, IT, "(hostname, port, fingerprint, first_seen, now),", "(hostname, port, fingerprint, now, now),")],
  "D5:security.tofu:TOFUDatabase.import_toml:insert-crossed:first_seen")
M("C12", "export-port-from-wrong-column", "breaking",
  [(TF, "TOFUDatabase.export_toml", "\"first_seen\": host[\"first_seen\"],", "\"first_seen\": host[\"last_seen\"],")],
  "D5:security.tofu:TOFUDatabase.export_toml:export-key:first_seen")
M("C12", "revoke-without-port", "breaking",
  [(TF, "TOFUDatabase.revoke", "\"DELETE FROM known_hosts WHERE hostname = ? AND port = ?\",\n                (hostname, port),", "\"DELETE FROM known_hosts WHERE hostname = ?\",\n                (hostname,),")],
  "D6:security.tofu:TOFUDatabase.revoke:key:DELETE")
M("C12", "update-args-swapped", "breaking",
  [(TF, "TOFUDatabase.trust", "(fingerprint, now, hostname, port),", "(fingerprint, now, port, hostname),")],
  "D6:security.tofu:TOFUDatabase.trust:key:UPDATE")
M("C12", "benign-rename-cursor", "benign",
  [(TF, "TOFUDatabase.revoke", "cursor = conn.cursor()", "cur = conn.cursor()"),
   (TF, "TOFUDatabase.revoke", "cursor.", "cur.", -1)])

# ---------------------------------------------------------------- C03
SS = "client/session.py"
GS = "GeminiClient._get_single"
ELSE_RAISE = "                else:\n                    # No certificate could be read from the connection: there\n                    # is nothing to check the pin against, so refuse rather\n                    # than treating the host as unpinned or trusted\n                    raise ConnectionError(\n                        f\"Could not read the server certificate of \"\n                        f\"{parsed.hostname}:{parsed.port}; refusing connection \"\n                        f\"(TOFU verification impossible)\"\n                    )\n"
M("C03", "revert-fix-fail-open-get", "breaking",
  [(SS, GS, ELSE_RAISE, "")],
  "T1:client.session:GeminiClient._get_single")
M("C03", "revert-fix-fail-open-upload", "breaking",
  [(SS, "GeminiClient.upload", ELSE_RAISE, "")],
  "client.session:GeminiClient")
M("C03", "changed-message-inverted", "breaking",
  [(SS, GS, "if not is_valid and message == \"changed\":", "if not is_valid and message != \"changed\":")],
  "T2:client.session:GeminiClient._get_single:changed-accepted")
M("C03", "trust-before-raise", "breaking",
  [(SS, GS, "                        new_fingerprint = get_certificate_fingerprint(cert)\n", "                        new_fingerprint = get_certificate_fingerprint(cert)\n                        self.tofu_db.trust(parsed.hostname, parsed.port, cert)\n")],
  "T3:client.session:GeminiClient._get_single:mutation-on-failure")
M("C03", "first-use-pins-wrong-port", "breaking",
  [(SS, GS, "self.tofu_db.trust(parsed.hostname, parsed.port, cert)", "self.tofu_db.trust(parsed.hostname, 1965, cert)")],
  "T2:client.session:GeminiClient._get_single:first-use-not-pinned")
M("C03", "changed-only-warns", "breaking",
  [(SS, GS, "                        raise CertificateChangedError(\n                            parsed.hostname,\n                            parsed.port,\n                            old_fingerprint,\n                            new_fingerprint,\n                        )\n", "                        import warnings\n                        warnings.warn(f\"certificate changed {old_fingerprint} {new_fingerprint}\")\n")],
  "T2:client.session:GeminiClient._get_single:changed-accepted")
M("C03", "fingerprint-sha1-default", "breaking",
  [("security/certificates.py", "get_certificate_fingerprint", "algorithm: str = \"sha256\"", "algorithm: str = \"sha1\"")],
  "T4:security.certificates:get_certificate_fingerprint:fingerprint-definition")
M("C03", "fingerprint-truncated", "breaking",
  [("security/certificates.py", "get_certificate_fingerprint", "digest = hashlib.sha256(cert_der).hexdigest()", "digest = hashlib.sha256(cert_der).hexdigest()[:16]")],
  "T4:security.certificates:get_certificate_fingerprint:fingerprint-truncated")
M("C03", "verify-prefix-compare", "breaking",
  [(TF, "TOFUDatabase.verify", "if stored_fingerprint == fingerprint:", "if stored_fingerprint[:20] == fingerprint[:20]:")],
  "T4:security.tofu:TOFUDatabase.verify")
M("C03", "verify-without-port", "breaking",
  [(TF, "TOFUDatabase.verify", "\"SELECT fingerprint FROM known_hosts WHERE hostname = ? AND port = ?\",\n                (hostname, port),", "\"SELECT fingerprint FROM known_hosts WHERE hostname = ?\",\n                (hostname,),")],
  "T5:security.tofu:TOFUDatabase.verify:key:SELECT")
M("C03", "verify-new-outcome-unhandled", "breaking",
  [(TF, "TOFUDatabase.verify", "            # Certificate has changed\n            return False, \"changed\"\n", "            # Certificate has changed\n            if stored_fingerprint.startswith(\"sha1:\"):\n                return False, \"legacy\"\n            return False, \"changed\"\n")],
  "T2:client.session:GeminiClient")
M("C03", "redirect-hop-direct-connect", "breaking",
  [(SS, "GeminiClient._get_with_redirects", "            return await self._get_with_redirects(\n                redirect_url,", "            return await self._get_with_redirects(\n                url,")],
  "T6:client.session:GeminiClient._get_with_redirects:hop-bypasses-verification")
M("C03", "upload-changed-only-with-verify-ssl", "breaking",
  [(SS, "GeminiClient.upload", "if not is_valid and message == \"changed\":", "if (not is_valid) and message == \"changed\" and self.verify_ssl:")],
  "T2:client.session:GeminiClient.upload:changed-accepted")
M("C03", "benign-rename-message", "benign",
  [(SS, GS, "is_valid, message = self.tofu_db.verify(", "is_valid, verdict = self.tofu_db.verify("),
   (SS, GS, "if not is_valid and message == \"changed\":", "if not is_valid and verdict == \"changed\":"),
   (SS, GS, "elif message == \"first_use\":", "elif verdict == \"first_use\":"),
   (SS, "GeminiClient.upload", "is_valid, message = self.tofu_db.verify(", "is_valid, verdict = self.tofu_db.verify("),
   (SS, "GeminiClient.upload", "if not is_valid and message == \"changed\":", "if not is_valid and verdict == \"changed\":"),
   (SS, "GeminiClient.upload", "elif message == \"first_use\":", "elif verdict == \"first_use\":")])

# ---------------------------------------------------------------- C11
CP = "client/protocol.py"
M("C11", "revert-fix-write-in-connection-made", "breaking",
  [(CP, "GeminiClientProtocol.connection_made", "        if self.send_on_connect:\n            self.send_request()\n", "        self.send_request()\n")],
  "F1:client.protocol:GeminiClientProtocol.connection_made:write-in-connection_made")
M("C11", "titan-content-at-connect", "breaking",
  [(CP, "TitanClientProtocol.connection_made", "        if self.send_on_connect:\n            self.send_request()\n", "        if self.transport:\n            self.transport.write(f\"{self.titan_url}\\r\\n\".encode())\n        if self.send_on_connect:\n            self.send_request()\n")],
  "F1:client.protocol:TitanClientProtocol.connection_made:write-in-connection_made")
M("C11", "session-does-not-defer-upload", "breaking",
  [(SS, "GeminiClient.upload", "titan_url, content_bytes, response_future, send_on_connect=not self.tofu_db", "titan_url, content_bytes, response_future")],
  "F1:client.session:GeminiClient.upload:not-deferred:TitanClientProtocol")
M("C11", "session-defer-flag-inverted", "breaking",
  [(SS, GS, "send_on_connect=not self.tofu_db", "send_on_connect=bool(self.tofu_db)")],
  "F1:client.session:GeminiClient._get_single:not-deferred:GeminiClientProtocol")
M("C11", "send-before-verify", "breaking",
  [(SS, GS, "                cert = protocol.get_peer_certificate()\n", "                protocol.send_request()\n                cert = protocol.get_peer_certificate()\n")],
  "F2:client.session:GeminiClient._get_single:send-before-verify")
M("C11", "send-even-when-changed", "breaking",
  [(SS, GS, "                        new_fingerprint = get_certificate_fingerprint(cert)\n", "                        new_fingerprint = get_certificate_fingerprint(cert)\n                        protocol.send_request()\n")],
  "F2:client.session:GeminiClient._get_single:send-on-failed-verdict")
M("C11", "never-sends-under-tofu", "breaking",
  [(SS, GS, "                # Certificate verified: now the request may go out\n                protocol.send_request()\n", "")],
  "F2:client.session:GeminiClient._get_single")
M("C11", "benign-flag-name", "benign",
  [(CP, None, "send_on_connect", "send_immediately", -1), (SS, None, "send_on_connect", "send_immediately", -1)])

# ---------------------------------------------------------------- C13
CL = "GeminiClientProtocol.connection_lost"
M("C13", "revert-fix-lookup-error", "breaking",
  [(CP, CL, "except (LookupError, ValueError) as e:", "except ValueError as e:")],
  "E1:client.protocol:GeminiClientProtocol.connection_lost:uncaught:LookupError")
M("C13", "revert-fix-charset-valueerror", "breaking",
  [(CP, CL, "except (LookupError, ValueError) as e:", "except (UnicodeDecodeError, LookupError) as e:")],
  "E1:client.protocol:GeminiClientProtocol.connection_lost:uncaught:UnicodeError+ValueError")
M("C13", "done-test-removed-and-early-return", "breaking",
  [(CP, CL, "        if not self.header_received:\n            self.response_future.set_exception(\n                ConnectionError(\"Connection closed before receiving response\")\n            )\n            return\n", "        if not self.header_received:\n            return\n")],
  "E1:client.protocol:GeminiClientProtocol.connection_lost:unresolved-exit")
M("C13", "error-exit-only-without-header", "breaking",
  [(CP, CL, "        if exc:\n", "        if exc and not self.header_received:\n")],
  "E1b:client.protocol:GeminiClientProtocol.connection_lost:error-yields-response")
M("C13", "titan-error-exit-dropped", "breaking",
  [(CP, "TitanClientProtocol.connection_lost", "        if exc:\n            self.response_future.set_exception(exc)\n            return\n", "")],
  "E1b:client.protocol:TitanClientProtocol.connection_lost:error-yields-response")
M("C13", "error-exit-explicit-none-test", "benign",
  [(CP, CL, "        if exc:\n", "        if exc is not None:\n")])
M("C13", "status-range-widened", "breaking",
  [(CP, "GeminiClientProtocol._parse_header", "if not (10 <= self.status < 70):", "if not (10 <= self.status < 100):")],
  "E2:client.protocol:GeminiClientProtocol._parse_header:status-range")
M("C13", "body-for-redirects", "breaking",
  [(CP, CL, "        if 20 <= self.status < 30:  # type: ignore\n", "        if 20 <= self.status < 40:  # type: ignore\n")],
  "E2:client.protocol:GeminiClientProtocol.connection_lost:body-table")
M("C13", "body-stripped", "breaking",
  [(CP, CL, "                body = self.buffer\n", "                body = self.buffer.strip()\n")],
  "E2:client.protocol:GeminiClientProtocol.connection_lost:body-source")
M("C13", "cap-check-removed", "breaking",
  [(CP, "TitanClientProtocol.data_received", "        if len(self.buffer) > MAX_RESPONSE_BODY_SIZE:", "        if False:")],
  "E3:client.protocol:TitanClientProtocol.data_received")
M("C13", "cap-no-close", "breaking",
  [(CP, "GeminiClientProtocol.data_received", "            )\n            self.transport.close()  # type: ignore\n", "            )\n")],
  "E3:client.protocol:GeminiClientProtocol.data_received:cap-not-enforced")
M("C13", "future-awaited-unbounded", "breaking",
  [(SS, GS, "            response: GeminiResponse = await asyncio.wait_for(\n                response_future, timeout=self.timeout\n            )\n", "            response: GeminiResponse = await response_future\n")],
  "E4:client.session:GeminiClient._get_single:unbounded-wait")
M("C13", "transport-not-closed-on-error", "breaking",
  [(SS, "GeminiClient.upload", "        finally:\n            # Ensure transport is closed\n            transport.close()\n", "        else:\n            transport.close()\n")],
  "E4:client.session:GeminiClient.upload:transport-leak")
M("C13", "benign-titan-sibling-textual-divergence", "benign",
  [(CP, "TitanClientProtocol._set_error", "        if not self.response_future.done():\n            self.response_future.set_exception(exc)\n", "        future = self.response_future\n        if not future.done():\n            future.set_exception(exc)\n")])
M("C13", "benign-tuple-order", "benign",
  [(CP, CL, "except (LookupError, ValueError) as e:", "except (ValueError, LookupError) as e:"),
   (CP, "TitanClientProtocol.connection_lost", "except (LookupError, ValueError) as e:", "except (ValueError, LookupError) as e:")])
M("C13", "benign-catch-all-decode", "benign",
  [(CP, CL, "except (LookupError, ValueError) as e:", "except Exception as e:"),
   (CP, "TitanClientProtocol.connection_lost", "except (LookupError, ValueError) as e:", "except Exception as e:")])

# ---------------------------------------------------------------- C16
RF = "GeminiClient._get_with_redirects"
M("C16", "revert-fix-off-by-one", "breaking",
  [(SS, RF, "if len(redirect_chain) > max_redirects:", "if len(redirect_chain) >= max_redirects:")],
  "G1:client.session:GeminiClient._get_with_redirects:fetch-bound")
M("C16", "limit-plus-one", "breaking",
  [(SS, RF, "if len(redirect_chain) > max_redirects:", "if len(redirect_chain) > max_redirects + 1:")],
  "G1:client.session:GeminiClient._get_with_redirects:fetch-bound")
M("C16", "chain-not-extended", "breaking",
  [(SS, RF, "            redirect_chain.append(url)\n", "")],
  "G1:client.session:GeminiClient._get_with_redirects:fetch-bound")
M("C16", "fresh-chain-per-hop", "breaking",
  [(SS, RF, "                redirect_chain=redirect_chain,\n", "                redirect_chain=[url],\n")],
  "G1:client.session:GeminiClient._get_with_redirects:fetch-bound")
M("C16", "overrun-returns-response", "breaking",
  [(SS, RF, "        if len(redirect_chain) > max_redirects:\n            raise ValueError(f\"Maximum redirects ({max_redirects}) exceeded at: {url}\")\n", "        if len(redirect_chain) > max_redirects:\n            return GeminiResponse(status=30, meta=url, url=url)\n")],
  "G3:client.session:GeminiClient._get_with_redirects:not-an-error")
M("C16", "scheme-prefix-too-short", "breaking",
  [(SS, RF, "if not redirect_url.startswith(\"gemini://\"):", "if not redirect_url.startswith(\"gemini\"):")],
  "G2:client.session:GeminiClient._get_with_redirects:scheme-filter")
M("C16", "scheme-check-dropped", "breaking",
  [(SS, RF, "            if not redirect_url.startswith(\"gemini://\"):\n                return response\n", "")],
  "G2:client.session:GeminiClient._get_with_redirects:scheme-filter")
M("C16", "loop-test-after-fetch", "breaking",
  [(SS, RF, "        if url in redirect_chain:\n            raise ValueError(f\"Redirect loop detected: {url}\")\n\n", ""),
   (SS, RF, "        # If it's a redirect, follow it\n", "        if url in redirect_chain:\n            raise ValueError(f\"Redirect loop detected: {url}\")\n\n        # If it's a redirect, follow it\n")],
  "G5:client.session:GeminiClient._get_with_redirects:loop-detection")
M("C16", "no-follow-still-follows", "breaking",
  [(SS, "GeminiClient.get", "            return await self._get_single(url)\n", "            return await self._get_with_redirects(url, max_redirects=1)\n")],
  "G4:client.session:GeminiClient.get:get-dispatch")
M("C16", "falsy-budget-becomes-default", "breaking",
  [(SS, "GeminiClient.__init__", "        self.max_redirects = max_redirects\n", "        self.max_redirects = max_redirects or MAX_REDIRECTS\n")],
  "G14:client.session:GeminiClient.__init__:budget-rewritten")
M("C16", "budget-clamped-to-one", "breaking",
  [(SS, "GeminiClient.__init__", "        self.max_redirects = max_redirects\n", "        self.max_redirects = max(1, max_redirects)\n")],
  "G14:client.session:GeminiClient.__init__:budget-rewritten")
M("C16", "benign-budget-through-local", "benign",
  [(SS, "GeminiClient.__init__", "        self.max_redirects = max_redirects\n", "        budget = max_redirects\n        self.max_redirects = budget\n")])
M("C16", "benign-budget-annotated-store", "benign",
  [(SS, "GeminiClient.__init__", "        self.max_redirects = max_redirects\n", "        self.max_redirects: int = max_redirects\n")])
M("C16", "budget-conditional-on-truthiness", "breaking",
  [(SS, "GeminiClient.__init__", "        self.max_redirects = max_redirects\n", "        self.max_redirects = max_redirects if max_redirects else MAX_REDIRECTS\n")],
  "G14:client.session:GeminiClient.__init__:budget-rewritten")
M("C16", "benign-for-range-idiom-rename", "benign",
  [(SS, RF, "redirect_chain", "visited", -1)])

# ---------------------------------------------------------------- C17
PX = "server/proxy.py"
HA = "ProxyHandler._handle_async"
M("C17", "drop-leading-slash-repair", "breaking",
  [(PX, HA, "                # Ensure path starts with /\n                if not path.startswith(\"/\"):\n                    path = \"/\" + path\n", "")],
  "Y1:server.proxy:ProxyHandler._handle_async:path-may-lack-leading-slash")
M("C17", "query-without-question-mark", "breaking",
  [(PX, HA, "upstream_url += f\"?{request.query}\"", "upstream_url += f\"{request.query}\"")],
  "Y1:server.proxy:ProxyHandler._handle_async:query-append")
M("C17", "url-from-request-hostname", "breaking",
  [(PX, HA, "upstream_url = f\"{self.upstream}{path}\"", "upstream_url = f\"gemini://{request.hostname}{path}\"")],
  "Y1:server.proxy:ProxyHandler._handle_async")
M("C17", "strip-partial-segment", "breaking",
  [(PX, HA, "            is_valid_match = (\n                prefix_ends_with_slash or remaining == \"\" or remaining.startswith(\"/\")\n            )\n", "            is_valid_match = True\n")],
  "Y2:server.proxy:ProxyHandler._handle_async:strip-table")
M("C17", "strip-even-when-disabled", "breaking",
  [(PX, HA, "if self.strip_prefix and path.startswith(self.prefix):", "if path.startswith(self.prefix):")],
  "Y2:server.proxy:ProxyHandler._handle_async:strip-table")
M("C17", "path-lowercased", "breaking",
  [(PX, HA, "        path = request.path\n", "        path = request.path.lower()\n")],
  "Y3:server.proxy:ProxyHandler._handle_async:reencode")
M("C17", "path-unquoted", "breaking",
  [(PX, HA, "        path = request.path\n", "        from urllib.parse import unquote\n        path = unquote(request.path)\n")],
  "Y")
M("C17", "upstream-validation-dropped", "breaking",
  [(PX, "ProxyHandler.__init__", "        if not upstream.startswith(\"gemini://\"):\n            raise ValueError(\"Upstream URL must use gemini:// scheme\")\n", "")],
  "Y1:server.proxy:ProxyHandler.__init__:upstream-validation")
M("C17", "follow-redirects-true", "breaking",
  [(PX, HA, "follow_redirects=False,", "follow_redirects=True,")],
  "Y4:server.proxy:ProxyHandler._handle_async:fetch-shape")
M("C17", "router-last-match", "breaking",
  [("server/router.py", "Router.route", "        for route in self.routes:", "        for route in reversed(self.routes):")],
  "Y5:server.router:Router.route:first-match")
M("C17", "proxy-prefix-not-wired", "breaking",
  [(CFGF, "ServerConfig.get_location_router", "                    prefix=loc.prefix,\n", "")],
  "Y5:server.config:ServerConfig.get_location_router:proxy-wiring")
M("C17", "benign-removeprefix-style", "benign",
  [(PX, HA, "upstream_url = f\"{self.upstream}{path}\"", "base = self.upstream\n        upstream_url = f\"{base}{path}\"")])

# ---------------------------------------------------------------- C18
M("C18", "upstream-reset-after-header-is-success", "breaking",
  [(CP, "GeminiClientProtocol.connection_lost", "        if exc:\n", "        if exc and not self.header_received:\n")],
  "Z6:client.protocol:GeminiClientProtocol.connection_lost:error-yields-response")
M("C18", "early-close-yields-empty-success", "breaking",
  [(CP, "GeminiClientProtocol.connection_lost", "        if not self.header_received:\n            self.response_future.set_exception(\n                ConnectionError(\"Connection closed before receiving response\")\n            )\n            return\n", "        if not self.header_received:\n            self.status, self.meta = 20, \"text/gemini\"\n")],
  "Z6:client.protocol:GeminiClientProtocol.connection_lost:error-yields-response")
M("C18", "revert-fix-charset-relay", "breaking",
  [(PX, HA, "            if isinstance(response.body, str) and charset.lower() not in (\n                \"utf-8\",\n                \"utf8\",\n            ):", "            if False:")],
  "Z3:server.proxy:ProxyHandler._handle_async:relay:text, charset iso-8859-1")
M("C18", "reencode-with-wrong-codec", "breaking",
  [(PX, HA, "body=response.body.encode(charset),", "body=response.body.encode(\"latin-1\"),")],
  "Z3:server.proxy:ProxyHandler._handle_async:relay")
M("C18", "relay-drops-body", "breaking",
  [(PX, HA, "            # Pass through the response as-is\n            return response\n", "            return GeminiResponse(status=response.status, meta=response.meta)\n")],
  "Z3:server.proxy:ProxyHandler._handle_async:relay")
M("C18", "narrow-catch-all", "breaking",
  [(PX, HA, "        except Exception as e:\n            # Catch-all for unexpected errors", "        except ValueError as e:\n            # Catch-all for unexpected errors")],
  "Z1:server.proxy:ProxyHandler._handle_async:fault-escapes")
M("C18", "timeout-answers-40", "breaking",
  [(PX, HA, "            return GeminiResponse(\n                status=StatusCode.PROXY_ERROR.value,\n                meta=\"Upstream timeout\",\n            )", "            return GeminiResponse(\n                status=StatusCode.TEMPORARY_FAILURE.value,\n                meta=\"Upstream timeout\",\n            )")],
  "Z1:server.proxy:ProxyHandler._handle_async:fault-status")
M("C18", "connection-error-reraised", "breaking",
  [(PX, HA, "            return GeminiResponse(\n                status=StatusCode.PROXY_ERROR.value,\n                meta=f\"Upstream connection failed: {str(e)}\",\n            )", "            raise")],
  "Z1:server.proxy:ProxyHandler._handle_async:handler-reraises")
M("C18", "client-timeout-not-wired", "breaking",
  [(PX, "ProxyHandler.__init__", "            timeout=timeout,\n            verify_ssl=False,", "            verify_ssl=False,")],
  "Z4:server.proxy:ProxyHandler.__init__:timeout-wiring")
M("C18", "benign-merge-handlers", "benign",
  [(PX, HA, "                meta=\"Upstream timeout\",", "                meta=\"Upstream timed out\",")])

# ---------------------------------------------------------------- C19
UU = "utils/url.py"
M("C19", "revert-fix-ipv6-brackets", "breaking",
  [(UU, "parse_url", "    host = f\"[{parsed.hostname}]\" if \":\" in parsed.hostname else parsed.hostname\n", "    host = parsed.hostname\n")],
  "N1:utils.url:parse_url:normalised:IPv6")
M("C19", "port-dropped-from-authority", "breaking",
  [(UU, "parse_url", "f\"{host}:{port}\" if port != DEFAULT_PORT else host,", "host,")],
  "utils.url:parse_url:normalised")
M("C19", "default-port-kept", "breaking",
  [(UU, "parse_url", "f\"{host}:{port}\" if port != DEFAULT_PORT else host,", "f\"{host}:{port}\",")],
  "N2:utils.url:parse_url:normalised")
M("C19", "empty-path-not-normalised", "breaking",
  [(UU, "parse_url", "    path = parsed.path if parsed.path else \"/\"\n", "    path = parsed.path\n")],
  "utils.url:parse_url:")
M("C19", "query-dropped-from-normalised", "breaking",
  [(UU, "parse_url", "            parsed.params,\n            parsed.query,\n", "            parsed.params,\n            \"\",\n")],
  "N2:utils.url:parse_url:normalised")
M("C19", "client-sends-raw-url", "breaking",
  [(SS, GS, "parsed.normalized, response_future, send_on_connect=not self.tofu_db", "url, response_future, send_on_connect=not self.tofu_db")],
  "N3:client.session:GeminiClient._get_single:wire-form")
M("C19", "field-path-raw", "breaking",
  [(UU, "parse_url", "        path=path,\n", "        path=parsed.path,\n")],
  "N2:utils.url:parse_url:fields")
M("C19", "benign-netloc-variable", "benign",
  [(UU, "parse_url", "            f\"{host}:{port}\" if port != DEFAULT_PORT else host,\n", "            (host if port == DEFAULT_PORT else f\"{host}:{port}\"),\n")])

# ---------------------------------------------------------------- later additions (seeded-change lessons)
M("C03", "await-between-verify-and-trust", "breaking",
  [(SS, GS, "                    elif message == \"first_use\":\n", "                    elif message == \"first_use\":\n                        await asyncio.sleep(0)\n")],
  "T8:client.session:GeminiClient._get_single:check-then-pin-not-atomic")
M("C03", "verify-in-thread", "breaking",
  [(SS, GS, "                    is_valid, message = self.tofu_db.verify(\n                        parsed.hostname, parsed.port, cert\n                    )\n", "                    is_valid, message = await asyncio.to_thread(\n                        self.tofu_db.verify, parsed.hostname, parsed.port, cert\n                    )\n")],
  "T8:client.session:GeminiClient._get_single:check-then-pin-not-atomic")
M("C03", "benign-verify-in-thread-under-lock", "benign",
  [(SS, GS, "                    is_valid, message = self.tofu_db.verify(\n                        parsed.hostname, parsed.port, cert\n                    )\n", "                    is_valid, message = await asyncio.to_thread(\n                        self.tofu_db.verify, parsed.hostname, parsed.port, cert\n                    )\n"),
   (SS, GS, "            if self.tofu_db:\n                cert = protocol.get_peer_certificate()\n", "            if self.tofu_db:\n              async with self._tofu_lock:\n                cert = protocol.get_peer_certificate()\n"),
   (SS, "GeminiClient.__init__", "        self.timeout = timeout\n", "        self.timeout = timeout\n        self._tofu_lock = asyncio.Lock()\n")])
M("C04", "revert-fix-titan-consult-url-with-params", "breaking",
  [(P, "GeminiServerProtocol._process_titan_upload", "self.titan_request.parsed_url.normalized,", "self.titan_request.normalized_url,")],
  "M3:server.protocol:GeminiServerProtocol._process_titan_upload:consult-url")

M("C13", "eof-keeps-connection-open", "breaking",
  [(CP, "GeminiClientProtocol.eof_received", "        return False  # Don't keep connection open\n", "        return True\n")],
  "E7:client.protocol:GeminiClientProtocol.eof_received:keeps-half-closed-connection")
M("C07", "scan-from-old-length", "breaking",
  [(P, DR, "        self.buffer += data\n", "        scan_from = len(self.buffer)\n        self.buffer += data\n"),
   (P, DR, "            if CRLF in self.buffer:\n                url_line, remaining = self.buffer.split(CRLF, 1)\n", "            if self.buffer.find(CRLF, scan_from) >= 0:\n                url_line, remaining = self.buffer.split(CRLF, 1)\n")],
  "S3:server.protocol:GeminiServerProtocol.data_received:pre-append-read")
M("C07", "benign-scan-from-old-length-minus-one", "benign",
  [(P, DR, "        self.buffer += data\n", "        scan_from = len(self.buffer)\n        self.buffer += data\n"),
   (P, DR, "            if CRLF in self.buffer:\n                url_line, remaining = self.buffer.split(CRLF, 1)\n", "            if self.buffer.find(CRLF, max(0, scan_from - 1)) >= 0:\n                url_line, remaining = self.buffer.split(CRLF, 1)\n")])
M("C09", "allow-presence-on-family-subset", "breaking",
  [(MW, "AccessControl._is_allowed", "        if self.allow_networks:\n            for network in self.allow_networks:\n", "        same_family = [n for n in self.allow_networks if n.version == ip_obj.version]\n        if same_family:\n            for network in same_family:\n")],
  "I1:server.middleware:AccessControl._is_allowed:allow-list-presence")
M("C09", "benign-iterate-family-subset-only", "benign",
  [(MW, "AccessControl._is_allowed", "        if self.allow_networks:\n            for network in self.allow_networks:\n", "        if self.allow_networks:\n            for network in [n for n in self.allow_networks if n.version == ip_obj.version]:\n")])
M("C06", "benign-chunked-body-write", "benign",
  [(P, SR, "        if body:\n            self.transport.write(body)\n", "        for offset in range(0, len(body), 65536):\n            self.transport.write(body[offset : offset + 65536])\n")])
M("C06", "chunked-write-bound-in-characters", "breaking",
  [(P, SR, "        if body:\n            self.transport.write(body)\n", "        body_size = len(response.body) if response.body else 0\n        for offset in range(0, body_size, 65536):\n            self.transport.write(body[offset : offset + 65536])\n")],
  "R3:server.protocol:GeminiServerProtocol._send_response:body-altered")
M("C11", "benign-guard-is-not-none", "benign",
  [(SS, GS, "            if self.tofu_db:\n", "            if self.tofu_db is not None:\n"),
   (SS, "GeminiClient.upload", "            if self.tofu_db:\n", "            if self.tofu_db is not None:\n")])
M("C11", "store-with-len-makes-flag-true", "breaking",
  [(TF, "TOFUDatabase", "    def _initialize_db(self) -> None:", "    def __len__(self) -> int:\n        return len(self.list_hosts())\n\n    def _initialize_db(self) -> None:"),
   (SS, GS, "            if self.tofu_db:\n", "            if self.tofu_db is not None:\n"),
   (SS, "GeminiClient.upload", "            if self.tofu_db:\n", "            if self.tofu_db is not None:\n")],
  "F1:client.session:GeminiClient._get_single:not-deferred")
M("C01", "benign-chunked-body-write", "benign",
  [(P, SR, "        if body:\n            self.transport.write(body)\n", "        for offset in range(0, len(body), 65536):\n            self.transport.write(body[offset : offset + 65536])\n")])
M("C01", "chunked-write-encode-in-loop", "breaking",
  [(P, SR, "        if body:\n            self.transport.write(body)\n", "        text = response.body if isinstance(response.body, str) else ''\n        for offset in range(0, len(text), 65536):\n            self.transport.write(text[offset : offset + 65536].encode('utf-8'))\n")],
  "W2:server.protocol:GeminiServerProtocol._send_response:may-raise-after-write")
_PHASE = [
  (P, "GeminiServerProtocol.__init__", "        self.awaiting_titan_content = False\n", "        self.phase = \"line\"\n"),
  (P, DR, "        if self.awaiting_titan_content and self.titan_request:\n", "        if self.phase == \"content\" and self.titan_request:\n"),
  (P, DR, "                self.awaiting_titan_content = False\n", "                self.phase = \"done\"\n"),
  (P, "GeminiServerProtocol._handle_titan_url", "            self.awaiting_titan_content = True\n", "            self.phase = \"content\"\n"),
  (P, "GeminiServerProtocol._handle_titan_url", "                self.awaiting_titan_content = False\n", "                self.phase = \"done\"\n"),
]
M("C07", "benign-phase-string-instead-of-flag", "benign", _PHASE)
M("C01", "benign-phase-string-instead-of-flag", "benign", _PHASE)
M("C07", "phase-string-not-advanced", "breaking",
  [e for e in _PHASE if e[1] != DR or "if self.phase" in e[3]] + [(P, DR, "                self.awaiting_titan_content = False\n", "")],
  "S1:server.protocol:GeminiServerProtocol.data_received:double-dispatch")

# ---------------------------------------------------------------- round f rules
RSP = "protocol/response.py"
_POST_DECODE = ("    url: str | None = None\n\n    def is_success(self)",
                "    url: str | None = None\n\n    def __post_init__(self) -> None:\n        if isinstance(self.body, bytes) and (self.meta or '').startswith('text/'):\n            object.__setattr__(self, 'body', self.body.decode(self.charset, errors='replace'))\n\n    def is_success(self)")
_POST_BYTES = ("    url: str | None = None\n\n    def is_success(self)",
               "    url: str | None = None\n\n    def __post_init__(self) -> None:\n        if isinstance(self.body, (bytearray, memoryview)):\n            object.__setattr__(self, 'body', bytes(self.body))\n\n    def is_success(self)")
M("C06", "response-post-init-decodes-body", "breaking", [(RSP, "GeminiResponse", *_POST_DECODE)], "R10:protocol.response:GeminiResponse.__post_init__:response-field-rewritten:body")
M("C18", "response-post-init-decodes-body", "breaking", [(RSP, "GeminiResponse", *_POST_DECODE)], "Z12:protocol.response:GeminiResponse.__post_init__:response-field-rewritten:body")
M("C06", "benign-response-post-init-bytes", "benign", [(RSP, "GeminiResponse", *_POST_BYTES)])
M("C18", "benign-response-post-init-bytes", "benign", [(RSP, "GeminiResponse", *_POST_BYTES)])
M("C06", "response-post-init-strips-meta", "breaking",
  [(RSP, "GeminiResponse", "    url: str | None = None\n\n    def is_success(self)", "    url: str | None = None\n\n    def __post_init__(self) -> None:\n        self.meta = self.meta.strip()\n\n    def is_success(self)")],
  "R10:protocol.response:GeminiResponse.__post_init__:response-field-rewritten:meta")
M("C18", "charset-only-second-part", "breaking",
  [(RSP, "GeminiResponse.charset", "        for part in parts[1:]:  # Skip the MIME type itself\n", "        for part in parts[1:2]:  # Skip the MIME type itself\n")],
  "Z11:protocol.response:GeminiResponse.charset:charset-fixed-position")
M("C13", "client-charset-first-param-only", "breaking",
  [(CP, CL, "                    for part in (self.meta or \"\").split(\";\"):\n                        part = part.strip()\n                        if part.lower().startswith(\"charset=\"):\n                            charset = part.split(\"=\", 1)[1].strip().strip(\"\\\"'\")\n                            break\n",
    "                    part = (self.meta or \"\").split(\";\", 2)[1].strip()\n                    if part.lower().startswith(\"charset=\"):\n                        charset = part.split(\"=\", 1)[1].strip().strip(\"\\\"'\")\n")],
  "E9:client.protocol:GeminiClientProtocol.connection_lost:charset-fixed-position")
M("C19", "server-strips-received-line", "breaking",
  [(P, DR, "                    url = url_line.decode(\"utf-8\")\n", "                    url = url_line.decode(\"utf-8\").strip()\n")],
  "N6:server.protocol:GeminiServerProtocol")
M("C08", "server-lowercases-received-line", "breaking",
  [(P, "GeminiServerProtocol._handle_gemini_request", "            request = GeminiRequest.from_line(url)\n", "            request = GeminiRequest.from_line(url.lower())\n")],
  "V8:server.protocol:GeminiServerProtocol._handle_gemini_request:line-rewritten")
M("C19", "benign-strip-only-in-log", "benign",
  [(P, DR, "                # Protocol detection: Titan vs Gemini\n", "                logger.debug(\"request_line\", line=url.strip()[:80])\n")])
M("C08", "validate-measures-normalised-form", "breaking",
  [(UU, "validate_url", "    parse_url(url)\n", "    if len(parse_url(url).normalized.encode(\"utf-8\")) + 2 > MAX_REQUEST_SIZE:\n        raise ValueError(\"URL too long\")\n")],
  "V4:utils.url:validate_url:limit-on-derived")
M("C08", "benign-validate-measures-through-locals", "benign",
  [(UU, "validate_url", "    if len(url.encode(\"utf-8\")) + 2 > MAX_REQUEST_SIZE:  # +2 for CRLF\n", "    encoded = url.encode(\"utf-8\")\n    size = len(encoded)\n    if size + 2 > MAX_REQUEST_SIZE:  # +2 for CRLF\n")])
LOC = "server/location.py"
M("C13", "location-timeout-default-none", "breaking",
  [(LOC, "LocationConfig.from_dict", "            timeout=data.get(\"timeout\", 30.0),\n", "            timeout=data.get(\"timeout\"),\n")],
  "E8:server.location:LocationConfig.from_dict:timeout-absent-none")
M("C18", "location-timeout-default-none", "breaking",
  [(LOC, "LocationConfig.from_dict", "            timeout=data.get(\"timeout\", 30.0),\n", "            timeout=data.get(\"timeout\"),\n")],
  "Z13:server.location:LocationConfig.from_dict:timeout-absent-none")
M("C13", "benign-location-timeout-explicit-default", "benign",
  [(LOC, "LocationConfig.from_dict", "        return cls(\n", "        timeout = data.get(\"timeout\")\n        if timeout is None:\n            timeout = 30.0\n\n        return cls(\n"),
   (LOC, "LocationConfig.from_dict", "            timeout=data.get(\"timeout\", 30.0),\n", "            timeout=timeout,\n")])
M("C14", "blank-tokens-dropped-in-handler-factory", "breaking",
  [(CFGF, "ServerConfig.get_upload_handler", "        auth_tokens = set(self.titan_auth_tokens) if self.titan_auth_tokens else None\n",
    "        auth_tokens = {t for t in self.titan_auth_tokens if t.strip()} if self.titan_auth_tokens else None\n")],
  "U7:server.config:ServerConfig.get_upload_handler:token-list-rewritten")
M("C14", "benign-token-set-comprehension", "benign",
  [(CFGF, "ServerConfig.get_upload_handler", "        auth_tokens = set(self.titan_auth_tokens) if self.titan_auth_tokens else None\n",
    "        auth_tokens = {t for t in self.titan_auth_tokens} if self.titan_auth_tokens else None\n")])
M("C16", "verify-new-failing-verdict-unhandled", "breaking",
  [(TF, "TOFUDatabase.verify", "        fingerprint = get_certificate_fingerprint(cert)\n", "        if cert is None:\n            return False, \"missing\"\n        fingerprint = get_certificate_fingerprint(cert)\n")],
  "G10:client.session:GeminiClient._get_single")

M("C08", "userinfo-tested-by-truthiness", "breaking",
  [(UU, "parse_url", "if parsed.username or parsed.password or \"@\" in parsed.netloc:", "if parsed.username or parsed.password:")],
  "V2:utils.url:parse_url:accepts:an empty user-info")
M("C08", "fragment-tested-by-truthiness", "breaking",
  [(UU, "parse_url", "if parsed.fragment or \"#\" in url:", "if parsed.fragment:")],
  "V2:utils.url:parse_url:accepts:an empty fragment")
M("C08", "leading-blank-check-dropped", "breaking",
  [(UU, "parse_url", "    if url[0] <= \" \":\n        raise ValueError(\"Invalid URL: leading blanks or control characters\")\n", "")],
  "V2:utils.url:parse_url:accepts:a leading")
M("C08", "benign-leading-check-by-lstrip", "benign",
  [(UU, "parse_url", "    if url[0] <= \" \":\n", "    if url[:1].isspace() or url[0] < \" \":\n")])
_GUARD = "        if not re.fullmatch(r\"[0-9]{2}\", parts[0]):\n            self._set_error(ValueError(f\"Invalid status code: {parts[0]}\"))\n            return\n"
M("C13", "status-digit-guard-dropped", "breaking",
  [(CP, "GeminiClientProtocol._parse_header", _GUARD, "")],
  "E10:client.protocol:GeminiClientProtocol._parse_header:status-int-lenient")
M("C13", "status-digit-guard-unicode-digits", "breaking",
  [(CP, "TitanClientProtocol._parse_header", "        if not re.fullmatch(r\"[0-9]{2}\", parts[0]):\n", "        if not parts[0].isdigit():\n")],
  "E10:client.protocol:TitanClientProtocol._parse_header:status-int-lenient")
M("C13", "benign-status-guard-isascii-isdigit", "benign",
  [(CP, "GeminiClientProtocol._parse_header", "        if not re.fullmatch(r\"[0-9]{2}\", parts[0]):\n", "        if not (parts[0].isascii() and parts[0].isdigit() and len(parts[0]) == 2):\n")])
M("C18", "status-digit-guard-dropped", "breaking",
  [(CP, "GeminiClientProtocol._parse_header", _GUARD, "")],
  "Z8:client.protocol:GeminiClientProtocol._parse_header:status-range")

RQ = "protocol/request.py"
M("C08", "titan-fragment-check-dropped", "breaking",
  [(RQ, "TitanRequest.from_line", "        if \"#\" in line:\n            raise ValueError(f\"URL must not contain fragment: {line}\")\n", "")],
  "V2:protocol.request:TitanRequest.from_line:titan-accepts:a fragment")
M("C08", "titan-userinfo-check-on-cut-part", "breaking",
  [(RQ, "TitanRequest.from_line", "        if \"@\" in re.split(r\"[/?#]\", line[8:], maxsplit=1)[0]:\n", "        if \"@\" in line.split(\";\", 1)[0]:\n")],
  "V2:protocol.request:TitanRequest.from_line:titan-accepts:a user-info")
M("C08", "revert-fix-titan-param-control-chars", "breaking",
  [(RQ, "TitanRequest.from_line", "        if \"\\t\" in line or \"\\r\" in line or \"\\n\" in line:\n            raise ValueError(\"Invalid URL: TAB, CR and LF characters are not allowed\")\n", "")],
  "V2:protocol.request:TitanRequest.from_line:titan-accepts:a bare LF")
M("C08", "titan-control-chars-checked-on-url-part-only", "breaking",
  [(RQ, "TitanRequest.from_line", "        if \"\\t\" in line or \"\\r\" in line or \"\\n\" in line:\n", "        head = line.split(\";\", 1)[0]\n        if \"\\t\" in head or \"\\r\" in head or \"\\n\" in head:\n")],
  "V2:protocol.request:TitanRequest.from_line:titan-accepts:a bare LF")
M("C08", "titan-control-chars-tab-forgotten", "breaking",
  [(RQ, "TitanRequest.from_line", "        if \"\\t\" in line or \"\\r\" in line or \"\\n\" in line:\n", "        if \"\\r\" in line or \"\\n\" in line:\n")],
  "V2:protocol.request:TitanRequest.from_line:titan-accepts:a TAB")
M("C08", "benign-titan-control-chars-by-any", "benign",
  [(RQ, "TitanRequest.from_line", "        if \"\\t\" in line or \"\\r\" in line or \"\\n\" in line:\n", "        if any(c in line for c in (\"\\t\", \"\\r\", \"\\n\")):\n")])
M("C08", "benign-titan-authority-by-partition", "benign",
  [(RQ, "TitanRequest.from_line", "        if \"@\" in re.split(r\"[/?#]\", line[8:], maxsplit=1)[0]:\n", "        authority = line[len(\"titan://\"):].partition(\"/\")[0].partition(\"?\")[0]\n        if \"@\" in authority:\n")])

# ---------------------------------------------------------------- round g rules
_PI = "        # Validate Titan configuration\n        if isinstance(self.titan_upload_dir, str):"
M("C09", "config-drops-blank-acl-entries", "breaking",
  [(CFGF, "ServerConfig.__post_init__", _PI, "        if self.access_control_allow_list is not None:\n            self.access_control_allow_list = [e for e in self.access_control_allow_list if e.strip()]\n" + _PI)],
  "I7:server.config:ServerConfig.__post_init__:config-field-rewritten:access_control_allow_list")
M("C09", "benign-config-copies-acl-lists", "benign",
  [(CFGF, "ServerConfig.__post_init__", _PI, "        if self.access_control_allow_list is not None:\n            self.access_control_allow_list = list(self.access_control_allow_list)\n" + _PI)])
M("C10", "config-raises-capacity-to-rate", "breaking",
  [(CFGF, "ServerConfig.__post_init__", _PI, "        self.rate_limit_capacity = max(self.rate_limit_capacity, int(self.rate_limit_refill_rate))\n" + _PI)],
  "L11:server.config:ServerConfig.__post_init__:config-field-rewritten:rate_limit_capacity")
M("C14", "config-clamps-upload-size", "breaking",
  [(CFGF, "ServerConfig.__post_init__", _PI, "        self.titan_max_upload_size = max(self.titan_max_upload_size, 1024)\n" + _PI)],
  "U9:server.config:ServerConfig.__post_init__:config-field-rewritten:titan_max_upload_size")
M("C09", "acl-config-grows-len", "breaking",
  [(MW, "AccessControlConfig", "    default_allow: bool = True\n", "    default_allow: bool = True\n\n    def __len__(self) -> int:\n        return len(self.allow_list or ()) + len(self.deny_list or ())\n"),
   (MW, "AccessControl.__init__", "self.config = config or AccessControlConfig()", "self.config = config if config is not None else AccessControlConfig()")],
  "I8:server.middleware:AccessControlConfig:falsy-config:__len__")
M("C07", "connection-lost-drops-pending-upload", "breaking",
  [(P, "GeminiServerProtocol.connection_lost", "        self.transport = None\n", "        self.transport = None\n        self.titan_request = None\n")],
  "S5:server.protocol:GeminiServerProtocol.connection_lost:cleared-under-pending-callback:titan_request")
M("C07", "benign-connection-lost-drops-buffer", "benign",
  [(P, "GeminiServerProtocol.connection_lost", "        self.transport = None\n", "        self.transport = None\n        self.buffer = b\"\"\n")])
M("C15", "log-processor-counter-keyerror", "breaking",
  [("utils/logging.py", "hash_ip_processor", "    return event_dict\n", "    _seen[event_dict.get(\"event\")] += 1\n    return event_dict\n"),
   ("utils/logging.py", None, "def hash_ip_processor(", "_seen: dict = {}\n\n\ndef hash_ip_processor(")],
  "X6:utils.logging:hash_ip_processor:processor-may-raise:_seen[")
M("C14", "log-processor-unpacks-split", "breaking",
  [("utils/logging.py", "hash_ip_processor", "    return event_dict\n", "    if isinstance(event_dict.get(\"path\"), str) and \";token=\" in event_dict[\"path\"]:\n        url, token = event_dict[\"path\"].split(\";token=\")\n        event_dict[\"path\"] = url\n    return event_dict\n")],
  "U8:utils.logging:hash_ip_processor:processor-may-raise:url, token")
M("C12", "cli-trust-revokes-first", "breaking",
  [("__main__.py", "tofu_trust", "                        db.trust(hostname, port, cert)\n", "                        db.revoke(hostname, port)\n                        db.trust(hostname, port, cert)\n")],
  "D8:__main__:tofu_trust")
M("C12", "benign-cli-trust-looks-up-first", "benign",
  [("__main__.py", "tofu_trust", "                        db.trust(hostname, port, cert)\n", "                        known = db.get_host_info(hostname, port) is not None\n                        db.trust(hostname, port, cert)\n")])
M("C03", "store-connection-autocommit", "breaking",
  [(TF, "TOFUDatabase._connection", "sqlite3.connect(str(self.db_path))", "sqlite3.connect(str(self.db_path), isolation_level=None)")],
  "T11:security.tofu:TOFUDatabase._connection:autocommit")
M("C02", "listing-reads-entry-title", "breaking",
  [("content/gemtext.py", "generate_directory_listing", "            size = _format_file_size(item.stat().st_size)\n", "            size = _format_file_size(item.stat().st_size)\n            first = item.read_text(errors=\"replace\")[:40] if item.suffix == \".gmi\" else \"\"\n")],
  "P6:content.gemtext:generate_directory_listing:listing-reads-entry")
M("C10", "client-ip-last-group-only", "breaking",
  [(P, "GeminiServerProtocol._handle_gemini_request", "        client_ip = self.peer_name[0] if self.peer_name else \"unknown\"\n", "        client_ip = str(self.peer_name[0]).rpartition(\":\")[2] if self.peer_name else \"unknown\"\n")],
  "L13:server.protocol:GeminiServerProtocol._handle_gemini_request:consult-ip")

# ---------------------------------------------------------------- round h rules
M("C01", "pause-reading-before-response", "breaking",
  [(P, SR, "        self.response_sent = True\n        self.transport.write(header)\n", "        self.response_sent = True\n        self.transport.pause_reading()\n        self.transport.write(header)\n")],
  "W12:server.protocol:GeminiServerProtocol._send_response:facade-lacks:pause_reading")
_CLOSE = ("    async def __aenter__(self) -> \"GeminiClient\":", "    def close(self) -> None:\n        self.tofu_db = None\n\n    async def __aenter__(self) -> \"GeminiClient\":")
M("C11", "client-close-drops-tofu-store", "breaking", [(SS, "GeminiClient", *_CLOSE)], "F6:client.session:GeminiClient.close:shared-state:self.tofu_db")
M("C17", "client-close-drops-tofu-store", "breaking", [(SS, "GeminiClient", *_CLOSE)], "Y8:client.session:GeminiClient.close:shared-state:self.tofu_db")
M("C13", "client-remembers-last-url", "breaking",
  [(SS, GS, "        parsed = parse_url(url)\n", "        parsed = parse_url(url)\n        self._last_url = url\n")],
  "E11:client.session:GeminiClient._get_single:shared-state:self._last_url")
M("C14", "titan-parser-lru-cache", "breaking",
  [(RQ, "TitanRequest", "    @classmethod\n    def from_line(cls, line: str) -> \"TitanRequest\":", "    @classmethod\n    @functools.lru_cache(maxsize=64)\n    def from_line(cls, line: str) -> \"TitanRequest\":"),
   (RQ, None, "import re\n", "import functools\nimport re\n")],
  "U10:protocol.request:TitanRequest.from_line:parser-memoised")
M("C15", "handshake-timer-on-cached-loop", "breaking",
  [(TP, "TLSServerProtocol.connection_made", "            loop = asyncio.get_running_loop()\n            self._handshake_timer = loop.call_later(", "            if TLSServerProtocol._loop is None:\n                TLSServerProtocol._loop = asyncio.get_running_loop()\n            self._handshake_timer = TLSServerProtocol._loop.call_later("),
   (TP, "TLSServerProtocol", "    def __init__(", "    _loop = None\n\n    def __init__(")],
  "X7:server.tls_protocol:TLSServerProtocol.connection_made:timer-on-cached-loop")
M("C19", "redirect-target-requoted", "breaking",
  [(SS, RF, "            redirect_chain.append(url)\n", "            redirect_url = quote(unquote(redirect_url), safe=\":/?#[]@!$&'()*+,;=%\")\n            redirect_chain.append(url)\n"),
   (SS, None, "import asyncio\n", "import asyncio\nfrom urllib.parse import quote, unquote\n")],
  "N7:client.session:GeminiClient._get_with_redirects:redirect-target-rewritten")
M("C16", "redirect-target-lowercased", "breaking",
  [(SS, RF, "            redirect_chain.append(url)\n", "            redirect_url = redirect_url.lower()\n            redirect_chain.append(url)\n")],
  "G13:client.session:GeminiClient._get_with_redirects:redirect-target-rewritten")
