"""Mutant table of the self-test (see selftest.py).

edits: (file relative to the package root, function locator, old, new[, count])
"""

MUTANTS: list[dict] = []


def M(prop, name, kind, edits, expect=""):
    MUTANTS.append({"prop": prop, "name": name, "kind": kind, "edits": edits, "expect": expect})


# ---------------------------------------------------------------- C20
M("C20", "drop-floor-server-context", "breaking",
  [("security/tls.py", "create_server_context", "    context.minimum_version = ssl.TLSVersion.TLSv1_2\n", "")],
  "K1:security.tls:create_server_context:no-floor")
M("C20", "floor-only-with-client-cert", "breaking",
  [("security/tls.py", "create_server_context",
    "    context.minimum_version = ssl.TLSVersion.TLSv1_2\n\n    # Load server certificate and key\n    context.load_cert_chain(certfile, keyfile)\n",
    "    context.load_cert_chain(certfile, keyfile)\n    if request_client_cert:\n        context.minimum_version = ssl.TLSVersion.TLSv1_2\n")],
  "K1:security.tls:create_server_context:no-floor")
M("C20", "client-floor-tls1", "breaking",
  [("security/tls.py", "create_client_context", "ssl.TLSVersion.TLSv1_2", "ssl.TLSVersion.TLSv1")],
  "K1:security.tls:create_client_context")
M("C20", "pyopenssl-floor-tls1_1", "breaking",
  [("security/pyopenssl_tls.py", "create_pyopenssl_server_context", "SSL.TLS1_2_VERSION", "SSL.TLS1_1_VERSION")],
  "K1:security.pyopenssl_tls:create_pyopenssl_server_context")
M("C20", "max-version-tls1_1", "breaking",
  [("server/server.py", "_create_self_signed_context",
    "        ssl_context.minimum_version = ssl.TLSVersion.TLSv1_2\n",
    "        ssl_context.minimum_version = ssl.TLSVersion.TLSv1_2\n        ssl_context.maximum_version = ssl.TLSVersion.TLSv1_1\n")],
  "K1:server.server:_create_self_signed_context:lowered")
M("C20", "stdlib-listener-ssl-none", "breaking",
  [("server/server.py", "start_server", "            ssl=ssl_context,\n", "            ssl=None,\n")],
  "K2:server.server:start_server:server-plaintext")
M("C20", "stdlib-context-skipped-without-certfile", "breaking",
  [("server/server.py", "start_server",
    "            ssl_context = _create_self_signed_context(request_client_cert=False)\n", "            pass\n")],
  "K2:server.server:start_server:server-ssl")
M("C20", "client-no-ssl", "breaking",
  [("client/session.py", "GeminiClient._get_single", "                    ssl=self.ssl_context,\n", "")],
  "K2:client.session:GeminiClient._get_single:conn-no-ssl")
M("C20", "feed-raw-on-recv-error", "breaking",
  [("server/tls_protocol.py", "TLSServerProtocol._process_application_data",
    "        except SSL.WantReadError:\n            pass  # No more data available\n",
    "        except SSL.WantReadError:\n            if self.inner_protocol and raw:\n                self.inner_protocol.data_received(raw)\n"),
   ("server/tls_protocol.py", "TLSServerProtocol._process_application_data",
    "        if self.tls_conn is None:\n            return\n",
    "        if self.tls_conn is None:\n            return\n        raw = getattr(self, '_last_raw', b'')\n")],
  "K3:server.tls_protocol:TLSServerProtocol._process_application_data:inner-feed")
M("C20", "inner-before-handshake", "breaking",
  [("server/tls_protocol.py", "TLSServerProtocol._do_handshake",
    "        except SSL.WantReadError:\n            # Handshake needs more data - send what we have\n            self._flush_outgoing()\n",
    "        except SSL.WantReadError:\n            self._flush_outgoing()\n            if self.inner_protocol is None:\n                self._initialize_inner_protocol()\n")],
  "K3:server.tls_protocol:TLSServerProtocol._initialize_inner_protocol:inner-before-handshake")
M("C20", "plaintext-error-on-handshake-failure", "breaking",
  [("server/tls_protocol.py", "TLSServerProtocol._close_with_error",
    "        if self.transport:\n            self.transport.close()\n",
    "        if self.transport:\n            self.transport.write(b'59 TLS required\\r\\n')\n            self.transport.close()\n")],
  "K4:server.tls_protocol:TLSServerProtocol._close_with_error:raw-write")
M("C20", "benign-rename-context-var", "benign",
  [("security/tls.py", "create_server_context", "context.", "tls_ctx.", -1),
   ("security/tls.py", "create_server_context", "context = ssl", "tls_ctx = ssl", -1),
   ("security/tls.py", "create_server_context", "return context", "return tls_ctx")])
M("C20", "benign-tls13-floor", "benign",
  [("security/tls.py", "create_client_context", "ssl.TLSVersion.TLSv1_2", "ssl.TLSVersion.TLSv1_3")])
M("C20", "benign-floor-after-load", "benign",
  [("security/tls.py", "create_server_context",
    "    context.minimum_version = ssl.TLSVersion.TLSv1_2\n\n    # Load server certificate and key\n    context.load_cert_chain(certfile, keyfile)\n",
    "    context.load_cert_chain(certfile, keyfile)\n    context.minimum_version = ssl.TLSVersion.TLSv1_2\n")])
