"""C18 - The reverse proxy relays responses verbatim and contains upstream faults.

  Z1 total fault mapping: the upstream fetch is inside a try with a catch-all
     handler; every handler returns a response whose status is PROXY_ERROR (43)
     with no body; no handler re-raises
  Z2 upstream redirects are relayed, not followed (follow_redirects=False)
  Z3 codec pairing on the relay path: a text body that the client decoded with
     the declared charset X and that the server side will encode as UTF-8 must,
     when X is not UTF-8, be turned back into bytes with the same X before it
     reaches the protocol (or the relay must keep bytes); status and meta are
     passed through
  Z4 the location's timeout bounds the fetch (client built with it)
  Z5 the downstream response is written by the protocol's single sink, which
     sanitises whatever the upstream sent (= C01.W3)
  Z6 an upstream reset (at any point, also after the header) or a close before
     the header reaches the fetch as an exception: abstract evaluation of the
     client protocol's connection_lost (= C13.E1b), so Z1 maps it to 43
Not decided: every fault-timing combination.
"""

from __future__ import annotations

import ast

from ..astutil import calls, dotted, kwarg, method_call, norm, walk
from ..cfg import build_cfg, handler_types
from ..flow import Defs, _Sel, origins
from ..paths import normal_only
from ..report import Check
from ..strdom import TOP, BoolV, Interp, IntV, NoneV, ObjV, StrV, lit

EXPLANATION = (
    "Static necessary conditions of C18 on ProxyHandler._handle_async. (Z1) the awaited "
    "self._client.get sits in a try whose handlers include a catch-all; every handler reaches "
    "only returns of GeminiResponse(status=StatusCode.PROXY_ERROR.value = 43, no body) and none "
    "re-raises. (Z2) follow_redirects is the literal False. (Z3) the function is interpreted "
    "abstractly for an upstream response with a str body and declared charset utf-8 / "
    "iso-8859-1 and with a bytes body: for a non-UTF-8 text body the value returned must be a "
    "response whose body is `response.body.encode(<that charset>)` with status and meta passed "
    "through; otherwise the upstream response object itself is returned. (Z4) the client is "
    "built with the handler's timeout and the router passes the location's. (Z5) relayed "
    "headers go through the protocol sink proven by C01.W3. (Z6) connection_lost of the client "
    "protocol the proxy fetches with is interpreted abstractly with exc set (header received or "
    "not) and with a clean close before any header: every feasible path ends in set_exception, "
    "so an upstream reset mid-body cannot be relayed as a truncated 20. "
    "(Z7) = C17.Y5: each location is served with its own timeout. "
    "(Z8) = C13.E2. (Z9) = C15.X2: the front end's request timer is off while the handler runs. (Z10) GeminiResponse.charset matches the parameter name case-insensitively."
    ' (Z11) the charset parameter is found at any position (GeminiResponse.charset and the client protocol). (Z12) = C06.R10: no method of GeminiResponse rewrites status / meta / body. (Z13) = C13.E8: a location without a timeout key still gets a numeric timeout.'
    " (Z14) stateless client: concurrent upstream fetches cannot close each other's connection."
)

PROXY = "server.proxy:ProxyHandler"


def rule_z1_z2(chk: Check, ci):
    chk.rule("Z1", "the upstream fetch is in a try with a catch-all; every handler returns a body-less 43 and none re-raises")
    chk.rule("Z2", "follow_redirects=False (literal) at the single fetch")
    fi = ci.methods.get("_handle_async")
    if fi is None:
        chk.floor("Z1", "_handle_async", 0, 1)
    from ..cfg import Builder, inline_self_methods

    g = Builder(chk.proj, inline_self_methods, 3).build(fi)  # the fetch may live in a helper
    fetch = [n for n in g.nodes if n.ast is not None and n.kind == "stmt" and any(method_call(c) and method_call(c)[1] == "get" and dotted(method_call(c)[0]) == "self._client" for c in calls(n.ast))]
    if not chk.require("Z1", fi.key, "upstream fetch", len(fetch), 1, "the proxy never fetches from its upstream"):
        return None
    fn = fetch[0]
    hs = [g.nodes[b] for b, lab in g.succ[fn.id] if lab == "exc" and g.nodes[b].kind == "handler"]
    escapes = any(lab == "exc" and g.nodes[b].kind == "raise_exit" for b, lab in g.succ[fn.id])
    catch_all = any(t in (None, "Exception", "BaseException") for h in hs for t in handler_types(h.ast))
    ok = catch_all and not escapes
    if not ok:
        chk.finding("Z1", fi.key, "fault-escapes", "an exception from the upstream fetch (refused, reset, timeout, malformed or oversized response) is not caught by a catch-all: it escapes to the protocol, which answers 40 instead of 43", fn.where())
    interp = Interp(chk.proj, fi)
    for h in hs:
        par = g.reach([h.id], follow=lambda lab: lab != "exc")
        rets = [g.nodes[i] for i in par if g.nodes[i].kind == "stmt" and isinstance(g.nodes[i].ast, ast.Return)]
        raises = [g.nodes[i] for i in par if g.nodes[i].kind == "stmt" and isinstance(g.nodes[i].ast, ast.Raise)]
        okh = bool(rets) and not raises and g.raise_exit.id not in par
        for r in rets:
            v = r.ast.value
            if not (isinstance(v, ast.Call) and (dotted(v.func) or "").split(".")[-1] == "GeminiResponse"):
                okh = False
                continue
            st = kwarg(v, "status") or (v.args[0] if v.args else None)
            sv = interp.eval(st, {})
            if not (isinstance(sv, IntV) and sv.lo == sv.hi == 43):
                okh = False
                chk.finding("Z1", fi.key, f"fault-status:{norm(st)}", f"an upstream fault is answered with status {norm(st)} = {sv}, not 43", r.where())
            if kwarg(v, "body") is not None:
                okh = False
                chk.finding("Z1", fi.key, "fault-body", "a 43 response carries a body", r.where())
        if raises or g.raise_exit.id in par:
            chk.finding("Z1", fi.key, f"handler-reraises:{norm(h.ast.type) if h.ast.type else 'bare'}", "a fault handler re-raises instead of answering 43", h.where())
        ok = ok and okh
        chk.ob("Z1", f"{fi.key}: handler `{norm(h.ast.type) if h.ast.type else 'bare'}` -> 43", okh, evals=len(rets) + 1)
    chk.ob("Z1", f"{fi.key}: catch-all around the fetch", catch_all and not escapes, f"{len(hs)} handlers")
    call = next(c for c in calls(fn.ast) if method_call(c) and method_call(c)[1] == "get")
    fr = kwarg(call, "follow_redirects")
    ok2 = isinstance(fr, ast.Constant) and fr.value is False
    if not ok2:
        chk.finding("Z2", fi.key, "follows-redirects", "the proxy lets its client follow upstream redirects instead of relaying the 3x response", fn.where())
    chk.ob("Z2", "follow_redirects=False", ok2)
    return fn


def rule_z3(chk: Check, ci, fn) -> None:
    chk.rule("Z3", "relay: non-UTF-8 text bodies are re-encoded with their declared charset (or bytes are kept); status and meta pass through; otherwise the upstream response object itself is returned")
    fi = ci.methods["_handle_async"]
    from ..cfg import Builder, inline_self_methods
    from ..flow import _bindings, call_returns

    g = Builder(chk.proj, inline_self_methods, 3).build(fi)  # the relay step may live in a helper
    resp_var = dotted(fn.ast.targets[0]) if isinstance(fn.ast, ast.Assign) else None
    if resp_var is None:
        chk.finding("Z3", fi.key, "response-unbound", "the upstream response is not bound to a name", fn.where())
        return
    fn = next((x for x in g.nodes if x.ast is fn.ast and not x.stack), fn)
    # helper parameters bound to the upstream response are further names for it
    names = {resp_var}
    for _ in range(3):
        for x in g.nodes:
            if x.kind == "call_enter":
                for p_, a_ in _bindings(x).items():
                    if dotted(a_) in names:
                        names.add(p_)
    cases = [
        ("text, charset utf-8", StrV("str"), lit("utf-8"), "identity"),
        ("text, charset UTF-8 (upper case)", StrV("str"), lit("UTF-8"), "identity"),
        ("text, charset iso-8859-1", StrV("str"), lit("iso-8859-1"), "reencode"),
        ("text, charset quoted \"latin-1\"", StrV("str"), lit('"latin-1"'), "reencode"),
        ("binary body", StrV("bytes"), lit("utf-8"), "identity"),
        ("no body (3x/4x/5x)", NoneV(), lit("utf-8"), "identity"),
    ]
    for name, body, charset, want in cases:
        interp = Interp(chk.proj, fi)
        interp.oracle = {"request.path": StrV("str", prefix="/"), "self.strip_prefix": BoolV(False), "request.query": lit("")}
        for nm in names:
            interp.oracle.update({f"{nm}.body": body, f"{nm}.charset": charset, f"{nm}.status": IntV(20, 20), f"{nm}.meta": StrV("str")})

        def oracle(c, _b=body):
            if dotted(c.func) == "isinstance" and len(c.args) == 2 and dotted(c.args[0]) in {f"{nm}.body" for nm in names}:
                t = dotted(c.args[1])
                if isinstance(_b, NoneV):
                    return BoolV(False)
                return BoolV((t == "str") == (_b.kind == "str")) if t in ("str", "bytes") else None
            if method_call(c) and method_call(c)[1] == "get" and dotted(method_call(c)[0]) == "self._client":
                return ObjV("response")
            return None

        interp.call_oracle = oracle
        res = interp.run_paths(g, lambda n: [ast.Constant(value=0)] if n.kind == "stmt" and isinstance(n.ast, ast.Return) else [], {})
        shapes = set()
        witness = None
        for path, (st, recs) in res:
            if path[-1][0].kind != "exit":
                continue
            # only paths through the successful fetch
            if not any(n.id == fn.id for n, _l in path):
                continue
            rets = [node for node, _v, _s in recs]
            # the deciding return: the innermost one when the outer returns an inlined helper call
            eff = None
            for rn in reversed(rets):
                v = rn.ast.value
                while isinstance(v, ast.Await):
                    v = v.value
                if isinstance(v, ast.Call) and call_returns(g, v) is not None:
                    continue
                eff = rn
                break
            r = eff.ast.value if eff is not None else None
            if r is None:
                shapes.add("none")
            elif dotted(r) in names:
                shapes.add("identity")
            elif isinstance(r, ast.Call) and (dotted(r.func) or "").split(".")[-1] == "GeminiResponse":
                b = kwarg(r, "body")
                stt, mt = kwarg(r, "status"), kwarg(r, "meta")
                good = dotted(stt) in {f"{nm}.status" for nm in names} and dotted(mt) in {f"{nm}.meta" for nm in names}
                if good and isinstance(b, ast.Call) and method_call(b) and method_call(b)[1] == "encode" and dotted(method_call(b)[0]) in {f"{nm}.body" for nm in names} and len(b.args) == 1:
                    # codec argument derives from the response's declared charset
                    d = Defs(g)
                    ls = origins(d, eff, b.args[0]) if isinstance(b.args[0], ast.Name) else [(eff, b.args[0])]
                    if all(not isinstance(le, _Sel) and any(f"{nm}.charset" in norm(le) for nm in names) for _, le in ls):
                        shapes.add("reencode")
                    else:
                        shapes.add("reencode-other-codec")
                else:
                    shapes.add("rebuilt:" + norm(r)[:60])
            else:
                shapes.add("other:" + norm(r)[:60])
            witness = path
        ok = shapes == {want}
        if not ok:
            what = (
                "the client decoded the body with that charset and the server will encode the str as UTF-8: the relayed bytes differ from the upstream's while the meta still names the original charset"
                if want == "reencode" else "the upstream response is not relayed unchanged"
            )
            chk.finding("Z3", fi.key, f"relay:{name}", f"for an upstream response with {name} the proxy returns {sorted(shapes)} (expected {want}): {what}", fn.where(), g.fmt_path(witness) if witness else [])
        chk.ob("Z3", f"upstream {name} -> {want}", ok, f"observed {sorted(shapes)}", evals=max(1, len(res)))


def rule_z10(chk: Check) -> None:
    """Codec pairing, second half: the client decodes a text body with the
    charset it finds in the meta *case-insensitively* (parameter names are
    case-insensitive); the relay re-encodes with GeminiResponse.charset.  If
    that accessor matches the parameter name case-sensitively, `Charset=latin-1`
    is decoded as latin-1 but re-encoded as UTF-8."""
    chk.rule("Z10", "GeminiResponse.charset finds the charset parameter case-insensitively, like the client protocol that decoded the body: the name compared with 'charset' has been lower-cased")
    ci = chk.proj.cls("protocol.response:GeminiResponse")
    prop = ci.methods.get("charset")
    if not chk.require("Z10", ci.key, "charset accessor", 1 if prop else 0, 1, "GeminiResponse has no charset accessor: the relay cannot restore the declared encoding"):
        return
    # the accessor and the helpers / properties of the class it reads
    scope = [prop]
    for x in walk(prop.node):
        if isinstance(x, ast.Attribute) and dotted(x.value) == "self" and x.attr in ci.methods and ci.methods[x.attr] not in scope:
            scope.append(ci.methods[x.attr])

    def lowered(e, fn, depth=0):
        if depth > 4:
            return False
        for y in walk(e):
            if isinstance(y, ast.Call) and method_call(y) and method_call(y)[1] in ("lower", "casefold"):
                return True
        for nm in [y for y in walk(e) if isinstance(y, ast.Name)]:
            for st in walk(fn.node):
                if isinstance(st, ast.Assign) and any(isinstance(t, ast.Name) and t.id == nm.id for t in walk(ast.Module(body=[ast.Expr(value=t) for t in st.targets], type_ignores=[]))):
                    if nm.id not in {z.id for z in walk(st.value) if isinstance(z, ast.Name)} and lowered(st.value, fn, depth + 1):
                        return True
        return False

    sites = 0
    ok = True
    for fn in scope:
        for x in walk(fn.node):
            key_expr = None
            if isinstance(x, ast.Compare) and len(x.ops) == 1 and isinstance(x.ops[0], (ast.Eq, ast.NotEq)):
                a, b = x.left, x.comparators[0]
                if isinstance(b, ast.Constant) and b.value == "charset":
                    key_expr = a
                elif isinstance(a, ast.Constant) and a.value == "charset":
                    key_expr = b
            elif isinstance(x, ast.Call) and method_call(x) and method_call(x)[1] == "startswith" and x.args and isinstance(x.args[0], ast.Constant) and str(x.args[0].value).startswith("charset"):
                key_expr = method_call(x)[0]
            elif (isinstance(x, ast.Call) and method_call(x) and method_call(x)[1] == "get" and x.args and isinstance(x.args[0], ast.Constant) and x.args[0].value == "charset") or (isinstance(x, ast.Subscript) and isinstance(x.slice, ast.Constant) and x.slice.value == "charset"):
                # lookup in a mapping: its keys must have been lower-cased where it was filled
                sites += 1
                filled = False
                for f2 in scope:
                    for y in walk(f2.node):
                        k = None
                        if isinstance(y, ast.DictComp):
                            k = y.key
                        elif isinstance(y, ast.Call) and method_call(y) and method_call(y)[1] == "setdefault" and y.args:
                            k = y.args[0]
                        elif isinstance(y, ast.Assign) and isinstance(y.targets[0], ast.Subscript):
                            k = y.targets[0].slice
                        if k is not None:
                            filled = True
                            if not lowered(k, f2):
                                ok = False
                                chk.finding("Z10", f2.key, f"charset-name-case:{norm(k)[:40]}", f"the parameter table is keyed by `{norm(k)}` without lower-casing, and the charset is looked up as 'charset': a meta written `Charset=iso-8859-1` is decoded by the client with that charset (it matches the name case-insensitively) but the relay sees the default utf-8 and does not restore the original bytes", f2.loc(y))
                if not filled:
                    ok = False
                    chk.finding("Z10", fn.key, "charset-table-unknown", "the charset is looked up in a mapping whose construction was not found", fn.loc(x))
                continue
            if key_expr is None:
                continue
            sites += 1
            if not lowered(key_expr, fn):
                ok = False
                chk.finding("Z10", fn.key, f"charset-name-case:{norm(key_expr)[:40]}", f"`{norm(x)[:70]}` compares the parameter name case-sensitively: `Charset=iso-8859-1` is decoded by the client with that charset but not found here, so the relay sends UTF-8 bytes under the unchanged meta", fn.loc(x))
    chk.require("Z10", prop.key, "comparison of a parameter name with 'charset'", sites, 1, "the charset accessor no longer looks for a charset parameter")
    chk.ob("Z10", f"{prop.key}: parameter name matched case-insensitively", ok, f"{sites} sites")


def _charset_sites(fn_node: ast.AST):
    """(site expr, kind) where a parameter name is matched against 'charset'."""
    for x in walk(fn_node):
        if isinstance(x, ast.Compare) and len(x.ops) == 1 and isinstance(x.ops[0], (ast.Eq, ast.NotEq)):
            a, b = x.left, x.comparators[0]
            if any(isinstance(c, ast.Constant) and isinstance(c.value, str) and c.value.rstrip("=") == "charset" for c in (a, b)):
                yield x
        elif isinstance(x, ast.Call) and method_call(x) and method_call(x)[1] == "startswith" and x.args and isinstance(x.args[0], ast.Constant) and str(x.args[0].value).startswith("charset"):
            yield x


def charset_scan_covers_all(chk: Check, R: str, scopes: list[tuple[str, list]], consequence: str) -> None:
    """A meta may carry several parameters (`text/plain; format=flowed;
    charset=iso-8859-1`): the search for the charset parameter must look at each
    of them, i.e. the match against 'charset' sits in a loop / comprehension over
    the parameter list (or reads a table built from all of them)."""
    chk.rule(R, "the charset parameter is found wherever it stands in the meta: the name match against 'charset' is evaluated for every `;`-separated parameter (loop / comprehension / parameter table), not for a fixed position")
    for label, fns in scopes:
        n = 0
        ok = True
        for fn in fns:
            parents = {}
            for p_ in ast.walk(fn.node):
                for c_ in ast.iter_child_nodes(p_):
                    parents[c_] = p_
            for site in _charset_sites(fn.node):
                n += 1
                cur = site
                loop = None
                while cur in parents:
                    cur = parents[cur]
                    if isinstance(cur, (ast.For, ast.AsyncFor, ast.While, ast.ListComp, ast.GeneratorExp, ast.SetComp, ast.DictComp)):
                        loop = cur
                        break
                    if isinstance(cur, (ast.FunctionDef, ast.AsyncFunctionDef)) and cur is not fn.node:
                        break
                bounded = None
                if isinstance(loop, (ast.For, ast.AsyncFor)):
                    its = [loop.iter]
                elif loop is not None and not isinstance(loop, ast.While):
                    its = [g_.iter for g_ in loop.generators]
                else:
                    its = []
                for it in its:
                    if isinstance(it, ast.Subscript) and isinstance(it.slice, ast.Slice) and it.slice.upper is not None and isinstance(it.slice.upper, ast.Constant):
                        bounded = it
                if loop is None or bounded is not None:
                    ok = False
                    chk.finding(
                        R, fn.key, f"charset-fixed-position:{norm(site)[:40]}",
                        f"`{norm(site)[:70]}` is evaluated {'for `' + norm(bounded) + '` only' if bounded is not None else 'once, not for every parameter of the meta'}: a charset that is not at that position (`text/plain; format=flowed; charset=iso-8859-1`) is not found, so {consequence}",
                        fn.loc(site),
                    )
        chk.require(R, label, "matches of a parameter name against 'charset'", n, 1, "the declared charset is never looked for")
        chk.ob(R, f"{label}: every parameter is examined for the charset", ok, f"{n} sites", evals=max(1, n))


def rule_z11(chk: Check) -> None:
    ci = chk.proj.cls("protocol.response:GeminiResponse")
    prop = ci.methods.get("charset")
    scope = [prop] if prop else []
    for fn in list(scope):
        for x in walk(fn.node):
            if isinstance(x, ast.Attribute) and dotted(x.value) == "self" and x.attr in ci.methods and ci.methods[x.attr] not in scope:
                scope.append(ci.methods[x.attr])
            elif isinstance(x, ast.Call) and isinstance(x.func, ast.Name) and x.func.id in chk.proj.module("protocol.response").functions:
                f2 = chk.proj.module("protocol.response").functions[x.func.id]
                if f2 not in scope:
                    scope.append(f2)
    cp = chk.proj.module("client.protocol")
    cfns = list(cp.functions.values()) + [m for c in cp.classes.values() for m in c.methods.values()]
    charset_scan_covers_all(
        chk, "Z11",
        [("protocol.response:GeminiResponse.charset", scope), ("client.protocol", cfns)],
        "the body is decoded / re-encoded as UTF-8 while the meta names another charset: the relayed bytes differ from the upstream's",
    )


def rule_z4(chk: Check, ci) -> None:
    chk.rule("Z4", "the fetch is bounded by the location's timeout")
    init = ci.methods.get("__init__")
    ok = False
    for st in walk(init.node):
        if isinstance(st, ast.Assign) and any(dotted(t) == "self._client" for t in st.targets) and isinstance(st.value, ast.Call):
            from .common import resolve_simple

            cv = resolve_simple(chk.proj, ci, init, st.value)
            t = kwarg(cv, "timeout") if isinstance(cv, ast.Call) else None
            ok = t is not None and dotted(t) == "timeout" and "timeout" in init.params
    if not ok:
        chk.finding("Z4", init.key, "timeout-wiring", "the upstream client is not built with the handler's timeout: a stalling upstream holds the downstream client beyond the location's timeout", init.loc())
    chk.ob("Z4", "client timeout = handler timeout", ok)
    fi = chk.proj.func("server.config:ServerConfig.get_location_router")
    okr = any(
        (dotted(c.func) or "").split(".")[-1] == "ProxyHandler"
        and (dotted(kwarg(c, "timeout")) or "").endswith(".timeout")
        and (dotted(kwarg(c, "timeout")) or "").rsplit(".", 1)[0] == (dotted(kwarg(c, "upstream")) or "?.x").rsplit(".", 1)[0]
        for c in ast.walk(fi.node) if isinstance(c, ast.Call)
    )
    if not okr:
        chk.finding("Z4", fi.key, "location-timeout", "the location's timeout does not reach its ProxyHandler", fi.loc())
    chk.ob("Z4", "location timeout reaches the handler", okr)
    # the client's own waits are bounded (C13.E4) - checked there; here: TOFU disabled so the proxy is a transparent relay
    okt = any(isinstance(st, ast.Assign) and any(dotted(t) == "self._client" for t in st.targets) and isinstance(kwarg(st.value, "trust_on_first_use"), ast.Constant) for st in walk(init.node))
    chk.ob("Z4", "proxy client constructed explicitly (no hidden TOFU prompt)", okt, nontrivial=False)


def run(chk: Check) -> None:
    ci = chk.proj.cls(PROXY)
    fn = rule_z1_z2(chk, ci)
    if fn is not None:
        rule_z3(chk, ci, fn)
    rule_z4(chk, ci)
    rule_z10(chk)
    rule_z11(chk)
    from .c13 import rule_e8

    rule_e8(chk, "Z13")
    # Z6: an upstream that resets or closes early surfaces as an exception at the
    # fetch (and is then mapped to 43 by Z1), never as a truncated success
    from .c13 import rule_e1b

    rule_e1b(chk, "Z6", ["client.protocol:GeminiClientProtocol"])
    # Z7: each location is served by the handler built from its own settings (= C17.Y5):
    # a shared handler applies another location's timeout
    from .c15 import rule_x2
    from .common import reuse as _reuse2

    _reuse2(chk, rule_x2, "Z9", "the front end's own request timer is disarmed when the request is handed to the (proxy) handler, so only the location's timeout bounds the upstream fetch and a slow but valid upstream answer is relayed (= C15.X2, machine)", ("X2",))
    from .c13 import rule_e2
    from .common import reuse as _reuse

    _reuse(chk, rule_e2, "Z8", "the upstream body reaches the relay as bytes (binary) or as str decoded with the declared charset (text), for exactly the 2x statuses (= C13.E2)", ("E2",))
    from .c17 import rule_y5
    from .common import reuse

    reuse(chk, rule_y5, "Z7", "each proxy location is registered with the handler built from its own upstream / prefix / timeout, and the router returns the first match (= C17.Y5)", ("Y5",))
    from .common import response_fields_immutable

    response_fields_immutable(chk, "Z12", "the relay sees a body that is no longer the one the client parsed (bytes decoded behind its back are re-encoded as UTF-8 under the unchanged meta)")
    from .common import client_stateless

    client_stateless(chk, "Z14", "concurrent upstream fetches of one location share the client: one finishing closes the other's connection and a truncated body is relayed as 20 instead of 43")
    chk.trusted = ["CPython ast parser", "engine CFG / abstract evaluator", "str.encode(X) inverts bytes.decode(X) for the charset the upstream declared", "C01.W3 sanitises whatever header the upstream sent"]
    chk.assumptions = ["byte-exact relay for codecs whose decode/encode is not a bijection (BOMs, stateful encodings) is not decided"]
