"""Helpers shared by several property rule modules."""

from __future__ import annotations

import ast

from ..astutil import calls, dotted, method_call, norm, walk
from ..cfg import Graph, Node, build_cfg
from ..loader import AnalysisError, ClassInfo, FunctionInfo
from ..machine import Machine, Violation, server_machine
from ..report import Check

SERVER_PROTO = "server.protocol:GeminiServerProtocol"
TLS_PROTO = "server.tls_protocol:TLSServerProtocol"
TLS_WRAPPER = "server.tls_protocol:TLSTransportWrapper"


def machine_findings(chk: Check, rule: str, kinds: set[str], what: str) -> Machine:
    """Report the protocol machine's violations of the given kinds under
    ``rule`` and record the exploration as obligations."""
    mach = server_machine(chk.proj)
    hits = [v for v in mach.violations if v.kind in kinds]
    cls = mach.m.cls
    for v in hits:
        fi = chk.proj.find_method(cls, v.entry)
        chk.finding(
            rule,
            fi.key if fi else cls.key,
            f"{v.kind}@{v.chain}",
            f"{v.message} [activation sequence: {' -> '.join(v.history)}]",
            v.where,
            v.path,
        )
    entries = sorted({k[0] for k in mach.cache})
    for e in entries:
        bad = [v for v in hits if v.entry == e]
        chk.ob(
            rule,
            f"{cls.key}.{e}: {what}",
            not bad,
            f"{sum(len(v) for k, v in mach.cache.items() if k[0] == e)} feasible paths over "
            f"{sum(1 for k in mach.cache if k[0] == e)} abstract latch states",
            evals=sum(len(v) for k, v in mach.cache.items() if k[0] == e),
        )
    chk.note(
        f"{rule}: protocol machine explored {mach.n_states} abstract states, "
        f"{mach.n_activations} activations, {mach.n_paths} feasible CFG paths "
        f"(inline depth {mach.depth}); event sites: "
        + ", ".join(f"{k}={len(v)}" for k, v in sorted(mach.event_sites.items()))
    )
    return mach


def machine_floor(chk: Check, rule: str, mach: Machine, **floors: int) -> None:
    for kind, fl in floors.items():
        chk.floor(rule, f"{kind} event sites in the protocol class", len(mach.event_sites.get(kind, ())), fl)


def node_of_call(g: Graph, call: ast.Call) -> Node:
    for n in g.nodes:
        if n.ast is not None and n.kind in ("stmt", "test", "with") and any(c is call for c in calls(n.ast)):
            return n
    raise AnalysisError(f"call not found in CFG: {norm(call)}")


def nodes_calling(g: Graph, pred) -> list[Node]:
    out = []
    for n in g.nodes:
        if n.ast is not None and n.kind in ("stmt", "test", "with"):
            if any(pred(c) for c in calls(n.ast)):
                out.append(n)
    return out


def is_method_call_on(c: ast.Call, recv: str, names: set[str] | None = None) -> bool:
    mc = method_call(c)
    return bool(mc and dotted(mc[0]) == recv and (names is None or mc[1] in names))
