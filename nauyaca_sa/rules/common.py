"""Helpers shared by several property rule modules."""

from __future__ import annotations

import ast

from ..astutil import calls, dotted, method_call, norm, walk
from ..cfg import Graph, Node, build_cfg
from ..loader import AnalysisError, ClassInfo, FunctionInfo
from ..machine import Machine, Violation, server_machine
from ..report import Check

SERVER_PROTO = "server.protocol:GeminiServerProtocol"
TLS_PROTO = "server.tls_protocol:TLSServerProtocol"
TLS_WRAPPER = "server.tls_protocol:TLSTransportWrapper"


def machine_findings(chk: Check, rule: str, kinds: set[str], what: str, only=None) -> Machine:
    """Report the protocol machine's violations of the given kinds under
    ``rule`` and record the exploration as obligations."""
    mach = server_machine(chk.proj)
    hits = [v for v in mach.violations if v.kind in kinds and (only is None or only(v))]
    cls = mach.m.cls
    for v in hits:
        fi = chk.proj.find_method(cls, v.entry)
        chk.finding(
            rule,
            fi.key if fi else cls.key,
            f"{v.kind}@{v.chain}",
            f"{v.message} [activation sequence: {' -> '.join(v.history)}]",
            v.where,
            v.path,
        )
    entries = sorted({k[0] for k in mach.cache})
    for e in entries:
        bad = [v for v in hits if v.entry == e]
        chk.ob(
            rule,
            f"{cls.key}.{e}: {what}",
            not bad,
            f"{sum(len(v) for k, v in mach.cache.items() if k[0] == e)} feasible paths over "
            f"{sum(1 for k in mach.cache if k[0] == e)} abstract latch states",
            evals=sum(len(v) for k, v in mach.cache.items() if k[0] == e),
        )
    chk.note(
        f"{rule}: protocol machine explored {mach.n_states} abstract states, "
        f"{mach.n_activations} activations, {mach.n_paths} feasible CFG paths "
        f"(inline depth {mach.depth}); event sites: "
        + ", ".join(f"{k}={len(v)}" for k, v in sorted(mach.event_sites.items()))
    )
    return mach


def machine_floor(chk: Check, rule: str, mach: Machine, **floors: int) -> None:
    for kind, fl in floors.items():
        chk.floor(rule, f"{kind} event sites in the protocol class", len(mach.event_sites.get(kind, ())), fl)


def node_of_call(g: Graph, call: ast.Call) -> Node:
    for n in g.nodes:
        if n.ast is not None and n.kind in ("stmt", "test", "with") and any(c is call for c in calls(n.ast)):
            return n
    raise AnalysisError(f"call not found in CFG: {norm(call)}")


def nodes_calling(g: Graph, pred) -> list[Node]:
    out = []
    for n in g.nodes:
        if n.ast is not None and n.kind in ("stmt", "test", "with"):
            if any(pred(c) for c in calls(n.ast)):
                out.append(n)
    return out


def is_method_call_on(c: ast.Call, recv: str, names: set[str] | None = None) -> bool:
    mc = method_call(c)
    return bool(mc and dotted(mc[0]) == recv and (names is None or mc[1] in names))


def request_accessor_decodes(proj, func, e: ast.Attribute) -> int:
    """Number of percent-decodings hidden in a request accessor: for
    `<request>.path` where <request> is a parameter annotated with one of the
    request classes of protocol.request, the unquote applications in that
    property's return expressions (0 when the property returns the raw
    component; -1 when its returns disagree)."""
    if not isinstance(e, ast.Attribute) or not isinstance(e.value, ast.Name):
        return 0
    ann = None
    fn = func.node
    for a in list(fn.args.args) + list(fn.args.kwonlyargs):
        if a.arg == e.value.id and a.annotation is not None:
            ann = ast.unparse(a.annotation)
    if ann is None or "Request" not in ann:
        return 0
    counts = set()
    try:
        mod = proj.module("protocol.request")
    except Exception:  # noqa: BLE001
        return 0
    for ci in mod.classes.values():
        m = ci.methods.get(e.attr)
        if m is None or ci.name not in ann and ci.name != "BaseRequest":
            continue
        for r in walk(m.node):
            if isinstance(r, ast.Return) and r.value is not None:
                counts.add(sum(1 for c in walk(r.value) if isinstance(c, ast.Call) and (dotted(c.func) or "").split(".")[-1] in ("unquote", "unquote_plus")))
    if not counts:
        return 0
    k = counts.pop() if len(counts) == 1 else -1
    if k >= 0:
        k += _parsed_field_decodes(proj, e.attr)
    return k


def _parsed_field_decodes(proj, field: str) -> int:
    """Percent-decodings parse_url applies to the ParsedURL field of that name
    (normally none: the parsed components are the raw, still escaped ones)."""
    try:
        fi = proj.func("utils.url:parse_url")
    except Exception:  # noqa: BLE001
        return 0
    best = 0
    for c in calls(fi.node):
        if (dotted(c.func) or "").split(".")[-1] != "ParsedURL":
            continue
        v = next((k.value for k in c.keywords if k.arg == field), None)
        if v is None:
            continue

        def count(e, depth=0):
            if depth > 4:
                return 0
            n = sum(1 for x in walk(e) if isinstance(x, ast.Call) and (dotted(x.func) or "").split(".")[-1] in ("unquote", "unquote_plus"))
            for nm in [x for x in walk(e) if isinstance(x, ast.Name)]:
                ds = [st.value for st in walk(fi.node) if isinstance(st, ast.Assign) and any(isinstance(t, ast.Name) and t.id == nm.id for t in st.targets)]
                if ds:
                    n += max(count(d, depth + 1) for d in ds)
            return n

        best = max(best, count(v))
    return best


def alias_map(fn: ast.AST) -> dict[str, str]:
    """Local names that are single-assignment copies of a dotted expression
    (`tcp = self.tls_protocol.transport`)."""
    out: dict[str, str] = {}
    multi: set[str] = set()
    for st in walk(fn):
        if isinstance(st, (ast.Assign, ast.AnnAssign)):
            tgts = st.targets if isinstance(st, ast.Assign) else [st.target]
            for t in tgts:
                for x in walk(t):
                    if isinstance(x, ast.Name):
                        if x.id in out or x.id in multi:
                            multi.add(x.id)
                        elif len(tgts) == 1 and isinstance(t, ast.Name) and st.value is not None and dotted(st.value):
                            out[x.id] = dotted(st.value)
                        else:
                            multi.add(x.id)
        elif isinstance(st, (ast.For, ast.AsyncFor, ast.With, ast.AsyncWith, ast.AugAssign, ast.NamedExpr)):
            for x in walk(st.target if hasattr(st, "target") else st):
                if isinstance(x, ast.Name) and isinstance(getattr(x, "ctx", None), ast.Store):
                    multi.add(x.id)
    for m in multi:
        out.pop(m, None)
    return out


def canon_dotted(e: ast.AST, amap: dict[str, str]) -> str:
    d = dotted(e) or ""
    for _ in range(4):
        head = d.split(".")[0]
        if head in amap:
            d = amap[head] + d[len(head):]
        else:
            break
    return d


def absent_edges(g: Graph, match, amap: dict[str, str]) -> set:
    """Edges that mean "the object is absent" for tests on expressions whose
    canonical dotted name satisfies ``match``: the F edge of `if x:` /
    `if x is not None:`, the T edge of `if not x:` / `if x is None:`."""
    out = set()
    for t in g.nodes:
        if t.kind != "test" or t.ast is None:
            continue
        a, flip = t.ast, False
        while isinstance(a, ast.UnaryOp) and isinstance(a.op, ast.Not):
            a, flip = a.operand, not flip
        lab = None
        if isinstance(a, ast.Compare) and len(a.ops) == 1 and isinstance(a.comparators[0], ast.Constant) and a.comparators[0].value is None and match(canon_dotted(a.left, amap)):
            lab = "F" if isinstance(a.ops[0], ast.IsNot) else ("T" if isinstance(a.ops[0], ast.Is) else None)
        elif match(canon_dotted(a, amap)):
            lab = "F"
        if lab is None:
            continue
        if flip:
            lab = {"T": "F", "F": "T"}[lab]
        for b, l2 in g.succ[t.id]:
            if l2 == lab:
                out.add((t.id, b, l2))
    return out


def reuse(chk: Check, fn, rule: str, text: str, drop: tuple[str, ...] = (), *args) -> None:
    """Run another property's rule function and report its findings and
    obligations under ``rule`` of the current property."""
    before, nob = len(chk.findings), len(chk.obligations)
    fn(chk, *args)
    for f in chk.findings[before:]:
        f.rule = rule
    for o in chk.obligations[nob:]:
        o["rule"] = f"{chk.prop}.{rule}"
    for r in drop:
        chk.rules.pop(r, None)
    chk.rules[rule] = text


def resolve_simple(proj, ci, fi, expr: ast.AST, depth: int = 0) -> ast.AST:
    """See through the two commonest indirections of a refactoring: a local that
    is assigned once (`base = upstream.rstrip("/")`; `self.upstream = base`) and
    a helper method of the class that consists of a single `return <expr>`
    (`self._client = self._make_client(timeout)`), parameters substituted."""
    import copy

    if depth > 3 or expr is None:
        return expr
    if isinstance(expr, ast.Name):
        ds = [st.value for st in walk(fi.node) if isinstance(st, ast.Assign) and len(st.targets) == 1 and isinstance(st.targets[0], ast.Name) and st.targets[0].id == expr.id]
        if len(ds) == 1:
            return resolve_simple(proj, ci, fi, ds[0], depth + 1)
        return expr
    if isinstance(expr, ast.Call):
        d = dotted(expr.func) or ""
        name = d.split(".")[-1]
        callee = None
        if d.startswith(("self.", "cls.")) or (ci is not None and d.startswith(ci.name + ".")):
            callee = proj.find_method(ci, name) if ci is not None else None
        if callee is not None:
            body = [st for st in callee.node.body if not (isinstance(st, ast.Expr) and isinstance(st.value, ast.Constant))]
            if len(body) == 1 and isinstance(body[0], ast.Return) and body[0].value is not None:
                params = [a.arg for a in callee.node.args.args if a.arg not in ("self", "cls")]
                sub = dict(zip(params, expr.args))
                sub.update({k.arg: k.value for k in expr.keywords if k.arg})

                class S(ast.NodeTransformer):
                    def visit_Name(self, m):  # noqa: N802
                        return copy.deepcopy(sub[m.id]) if m.id in sub else m

                return resolve_simple(proj, ci, fi, S().visit(copy.deepcopy(body[0].value)), depth + 1)
    return expr


def response_fields_immutable(chk: Check, R: str, consequence: str) -> None:
    """The response object is a plain carrier: what a handler (or the client's
    parser) put into status / meta / body is what every later reader gets.  A
    method of the class - __post_init__ included - that stores anything but the
    field itself (or a byte-preserving conversion of it) rewrites every
    response in the program, before the sink and the relay see it."""
    from ..cfg import build_cfg as _build
    from ..flow import Defs, _Sel, origins

    chk.rule(R, "GeminiResponse carries status, meta and body exactly as constructed: no method of the class stores anything but the field itself (or bytes()/int()/str()/UTF-8 encode of it) into them")
    ci = chk.proj.cls("protocol.response:GeminiResponse")
    fields = ("status", "meta", "body")

    def identity(e: ast.AST, fld: str) -> bool:
        while True:
            if isinstance(e, ast.Call) and dotted(e.func) in ("bytes", "int", "str") and len(e.args) == 1 and not e.keywords:
                e = e.args[0]
            elif isinstance(e, ast.Call) and method_call(e) and method_call(e)[1] == "encode" and fld == "body":
                enc = e.args[0] if e.args else next((k.value for k in e.keywords if k.arg == "encoding"), None)
                if enc is not None and not (isinstance(enc, ast.Constant) and str(enc.value).lower().replace("_", "-") in ("utf-8", "utf8")):
                    return False
                e = method_call(e)[0]
            else:
                break
        return dotted(e) == f"self.{fld}"

    n_methods = 0
    n_stores = 0
    ok = True
    for m in ci.methods.values():
        n_methods += 1
        stores: list[tuple[str, ast.AST, ast.AST]] = []
        for st in walk(m.node):
            if isinstance(st, (ast.Assign, ast.AnnAssign, ast.AugAssign)):
                tgts = st.targets if isinstance(st, ast.Assign) else [st.target]
                for t in tgts:
                    for tt in (t.elts if isinstance(t, (ast.Tuple, ast.List)) else [t]):
                        if isinstance(tt, ast.Attribute) and dotted(tt.value) == "self" and tt.attr in fields:
                            stores.append((tt.attr, st.value if not isinstance(st, ast.AugAssign) else st, st))
                        elif isinstance(tt, ast.Subscript) and dotted(tt.value) == "self.__dict__" and isinstance(tt.slice, ast.Constant) and tt.slice.value in fields:
                            stores.append((tt.slice.value, st.value, st))
            elif isinstance(st, ast.Call):
                d = dotted(st.func) or ""
                if d.split(".")[-1] in ("__setattr__", "setattr") and len(st.args) >= 3 and dotted(st.args[0]) == "self" and isinstance(st.args[1], ast.Constant) and st.args[1].value in fields:
                    stores.append((st.args[1].value, st.args[2], st))
                elif d == "self.__dict__.update":
                    for k in st.keywords:
                        if k.arg in fields:
                            stores.append((k.arg, k.value, st))
        if not stores:
            continue
        g = _build(chk.proj, m)
        defs = Defs(g)
        for fld, val, st in stores:
            n_stores += 1
            node = next((x for x in g.nodes if x.ast is not None and any(y is st for y in ast.walk(x.ast))), None)
            leaves = [(None, val)] if node is None or val is None or isinstance(val, ast.AugAssign) else origins(defs, node, val)
            bad = [le for _n, le in leaves if isinstance(le, (_Sel, ast.AugAssign)) or not identity(le, fld)]
            if bad:
                ok = False
                chk.finding(
                    R, m.key, f"response-field-rewritten:{fld}",
                    f"`{norm(st)[:80]}` stores `{norm(bad[0])[:70] if not isinstance(bad[0], _Sel) else repr(bad[0])}` into GeminiResponse.{fld}: every response object in the program - the one a handler returns and the one the client parsed - is rewritten before it is written or relayed, so {consequence}",
                    m.loc(st),
                )
    chk.floor(R, "GeminiResponse methods inspected", n_methods, 1)
    chk.ob(R, f"{ci.key}: no method rewrites status / meta / body", ok, f"{n_methods} methods, {n_stores} stores to the three fields", evals=n_methods)


def absent_key_values(chk: Check, fi: FunctionInfo, key: str, ctor_names: tuple[str, ...], kw: str):
    """Abstractly run ``fi`` (a from_dict / from_toml style constructor) for a
    table in which ``key`` is absent and report the abstract values the
    constructor keyword ``kw`` receives on every feasible path:
    [(value, node)] - `d.get(key, D)` evaluates to D, `d.get(key)` to None,
    `key in d` to false."""
    from ..strdom import BoolV, Interp, NoneV

    g = build_cfg(chk.proj, fi)
    interp = Interp(chk.proj, fi)

    def oracle(c):
        mc = method_call(c)
        if mc and mc[1] == "get" and c.args and isinstance(c.args[0], ast.Constant) and c.args[0].value == key:
            return interp.eval(c.args[1], {}) if len(c.args) > 1 else NoneV()
        return None

    interp.call_oracle = oracle
    _orig_cmp = interp._cmp

    def cmp(t, st):
        if len(t.ops) == 1 and isinstance(t.ops[0], (ast.In, ast.NotIn)) and isinstance(t.left, ast.Constant) and t.left.value == key:
            return isinstance(t.ops[0], ast.NotIn)
        return _orig_cmp(t, st)

    interp._cmp = cmp

    def watch(n):
        if n.ast is None or n.kind != "stmt":
            return []
        out = []
        for c in calls(n.ast):
            if (dotted(c.func) or "").split(".")[-1] in ctor_names:
                for k in c.keywords:
                    if k.arg == kw:
                        out.append(k.value)
        return out

    res = []
    for _path, (_st, recs) in interp.run_paths(g, watch, max_paths=4000):
        for node, vals, _s in recs:
            for v in vals:
                res.append((v, node))
    return res


def _digit_pattern_call(a: ast.AST, fn_module) -> bool:
    """`re.fullmatch(<digit pattern>, x)` or `<module-level re.compile(<digit pattern>)>.fullmatch(x)`."""
    if not (isinstance(a, ast.Call) and (dotted(a.func) or "").split(".")[-1] in ("fullmatch", "match")):
        return False
    if any(isinstance(x, ast.Constant) and isinstance(x.value, str) and ("[0-9]" in x.value or "[1-6][0-9]" in x.value) for x in walk(a)):
        return True
    mc = method_call(a)
    if mc and isinstance(mc[0], ast.Name) and fn_module is not None:
        expr = fn_module.constants.get(mc[0].id)
        if isinstance(expr, ast.Call) and (dotted(expr.func) or "") == "re.compile" and expr.args and isinstance(expr.args[0], ast.Constant) and isinstance(expr.args[0].value, str):
            return "[0-9]" in expr.args[0].value or "[1-6][0-9]" in expr.args[0].value
    return False


def strict_int_guarded(g: Graph, n: Node, ic: ast.Call) -> bool:
    """``int(<text>)`` at node ``n`` is reachable only behind a test that the
    text consists of ASCII digits (`re.fullmatch(r"...[0-9]...", text)` or
    `text.isascii() and text.isdigit()`): int() alone also accepts '2_0',
    '+20', ' 20' and non-ASCII digits."""
    if not ic.args:
        return False
    var = norm(ic.args[0])
    blocked = set()
    for t in g.nodes:
        if t.kind != "test" or t.ast is None or t.stack != n.stack:
            continue
        a, flip = t.ast, False
        while isinstance(a, ast.UnaryOp) and isinstance(a.op, ast.Not):
            a, flip = a.operand, not flip
        txt = norm(a)
        strict = False
        if var in txt and _digit_pattern_call(a, getattr(n.func, "module", None)):
            strict = True
        if isinstance(a, ast.BoolOp) and isinstance(a.op, ast.And) and var in txt and ".isascii()" in txt and (".isdigit()" in txt or ".isdecimal()" in txt):
            strict = True
        if strict:
            lab = "F" if flip else "T"
            blocked |= {(t.id, b, l2) for b, l2 in g.succ[t.id] if l2 == lab}
    if blocked and n.id not in g.reach([g.entry.id], blocked_edges=blocked):
        return True
    # `X.isascii() and X.isdigit()` is split into one test node per operand by the CFG:
    # both must be passed on their true edge
    def must_pass(names):
        edges = set()
        for t in g.nodes:
            if t.kind == "test" and t.ast is not None and t.stack == n.stack and isinstance(t.ast, ast.Call) and method_call(t.ast) and method_call(t.ast)[1] in names and norm(method_call(t.ast)[0]) == var:
                edges |= {(t.id, b, l2) for b, l2 in g.succ[t.id] if l2 == "T"}
        return bool(edges) and n.id not in g.reach([g.entry.id], blocked_edges=edges)

    return must_pass(("isascii",)) and must_pass(("isdigit", "isdecimal"))


_TYPE_CONVERSIONS = {"Path", "list", "set", "tuple", "frozenset", "int", "float", "str", "bool", "dict"}


def config_fields_carrier(chk: Check, R: str, prefixes: tuple[str, ...], what: str, consequence: str) -> None:
    """ServerConfig is a carrier between the file / CLI and the running server:
    what was configured is what is enforced.  No method of the class
    (`__post_init__` included) stores into a security setting anything but the
    setting itself or a type conversion of it (Path(x), list(x), float(x) ...)."""
    from ..flow import Defs, _Sel, origins

    chk.rule(R, f"the configured {what} reach the running server as written: no method of ServerConfig stores into those fields anything but the field itself or a type conversion of it")
    ci = chk.proj.cls("server.config:ServerConfig")

    def identity(e: ast.AST, fld: str) -> bool:
        if isinstance(e, ast.IfExp):
            return identity(e.body, fld) and identity(e.orelse, fld)
        while isinstance(e, ast.Call) and (dotted(e.func) or "").split(".")[-1] in _TYPE_CONVERSIONS and len(e.args) == 1 and not e.keywords:
            e = e.args[0]
        return dotted(e) == f"self.{fld}"

    n_methods = n_stores = 0
    ok = True
    for m in ci.methods.values():
        n_methods += 1
        stores = []
        for st in walk(m.node):
            if isinstance(st, (ast.Assign, ast.AnnAssign, ast.AugAssign)):
                tgts = st.targets if isinstance(st, ast.Assign) else [st.target]
                for t in tgts:
                    for tt in (t.elts if isinstance(t, (ast.Tuple, ast.List)) else [t]):
                        if isinstance(tt, ast.Attribute) and dotted(tt.value) == "self" and tt.attr.startswith(prefixes):
                            stores.append((tt.attr, None if isinstance(st, ast.AugAssign) else st.value, st))
            elif isinstance(st, ast.Call) and method_call(st) and method_call(st)[1] in ("append", "extend", "remove", "clear", "pop", "insert", "discard", "add", "update", "sort") and (dotted(method_call(st)[0]) or "").startswith("self.") and (dotted(method_call(st)[0]) or "")[5:].startswith(prefixes):
                stores.append(((dotted(method_call(st)[0]) or "")[5:], None, st))
        if not stores:
            continue
        g = build_cfg(chk.proj, m)
        defs = Defs(g)
        for fld, val, st in stores:
            n_stores += 1
            node = next((x for x in g.nodes if x.ast is not None and any(y is st for y in ast.walk(x.ast))), None)
            leaves = [(None, val)] if node is None or val is None else origins(defs, node, val)
            bad = [le for _n, le in leaves if le is None or isinstance(le, _Sel) or not identity(le, fld)]
            if bad:
                ok = False
                chk.finding(
                    R, m.key, f"config-field-rewritten:{fld}",
                    f"`{norm(st)[:90]}` rewrites the configured `{fld}` inside ServerConfig: the running server enforces another value than the one written in the configuration, so {consequence}",
                    m.loc(st),
                )
    chk.floor(R, "ServerConfig methods inspected", n_methods, 1)
    chk.ob(R, f"{ci.key}: no method rewrites {'/'.join(p + '*' for p in prefixes)}", ok, f"{n_methods} methods, {n_stores} stores", evals=n_methods)


def config_presence_tests(chk: Check, R: str, only: tuple[str, ...] = ()) -> None:
    """`if access_control_config:` in start_server means "a policy was given".
    Plain dataclass instances are always truthy; a config class that defines
    __len__ / __bool__ is falsy while it has no list entries - exactly the
    "deny everybody by default" policy - and the middleware is then not installed."""
    chk.rule(R, "presence tests of configuration objects mean presence: a class whose instances start_server tests for truthiness defines no __len__ / __bool__ (or the test is `is not None`)")
    fi = chk.proj.func("server.server:start_server")
    ann = {}
    a = fi.node.args
    for x in a.args + a.kwonlyargs:
        if x.annotation is not None:
            names = [n.id for n in ast.walk(x.annotation) if isinstance(n, ast.Name)] + [n.attr for n in ast.walk(x.annotation) if isinstance(n, ast.Attribute)]
            ann[x.arg] = names
    g = build_cfg(chk.proj, fi)
    tested = {}
    for t in g.nodes:
        if t.kind == "test" and t.ast is not None:
            e = t.ast
            while isinstance(e, ast.UnaryOp) and isinstance(e.op, ast.Not):
                e = e.operand
            if isinstance(e, ast.Name) and e.id in ann:
                tested.setdefault(e.id, t)
    n = 0
    ok = True
    for param, t in sorted(tested.items()):
        for cname in ann[param]:
            for c2 in chk.proj.classes.values():
                if c2.name != cname or (only and cname not in only):
                    continue
                n += 1
                special = [mn for mn in ("__len__", "__bool__") if mn in c2.methods]
                if special:
                    ok = False
                    chk.finding(
                        R, c2.key, f"falsy-config:{special[0]}",
                        f"{c2.name} defines {special[0]}, so a configured policy without list entries (e.g. `default_allow = false` alone) is falsy; start_server decides whether to install the middleware with `if {param}:` and then runs without it: every request is admitted",
                        t.where(),
                    )
                chk.ob(R, f"start_server: `if {param}` on {c2.name} means presence", not special)
    chk.ob(R, "truthiness tests of configuration objects examined", True, f"{len(tested)} tested parameters, {n} classes", nontrivial=False)


def class_stateless(chk: Check, R: str, ci: ClassInfo, rule_text: str, consequence: str) -> None:
    """Outside __init__ no method of the class stores to, or mutates, an
    attribute of self: an object shared by several requests / connections /
    concurrent calls (the proxy's upstream client, a location's handler) keeps
    nothing that one call writes and another reads."""
    chk.rule(R, rule_text)
    n = 0
    ok = True
    mutators = {"setdefault", "pop", "update", "append", "add", "clear", "popitem", "insert", "extend", "remove", "discard"}
    for name, m in ci.methods.items():
        if name == "__init__":
            continue
        for x in ast.walk(m.node):
            hit = None
            if isinstance(x, (ast.Assign, ast.AugAssign, ast.AnnAssign)):
                tg = x.targets if isinstance(x, ast.Assign) else [x.target]
                for t in tg:
                    for tt in (t.elts if isinstance(t, (ast.Tuple, ast.List)) else [t]):
                        base = tt.value if isinstance(tt, ast.Subscript) else tt
                        if (dotted(base) or "").startswith(("self.", "cls.")) or (dotted(base) or "").startswith(ci.name + "."):
                            hit = norm(tt)
            elif isinstance(x, ast.Call) and method_call(x) and method_call(x)[1] in mutators and (dotted(method_call(x)[0]) or "").startswith("self.") and (dotted(method_call(x)[0]) or "").count(".") == 1:
                hit = norm(x)[:60]
            elif isinstance(x, ast.Delete) and any((dotted(t.value if isinstance(t, ast.Subscript) else t) or "").startswith("self.") for t in x.targets):
                hit = norm(x)[:60]
            if hit:
                n += 1
                ok = False
                chk.finding(R, m.key, f"shared-state:{hit[:50]}", f"`{hit}` keeps state on the {ci.name} object that outlives the call: {consequence}", m.loc(x))
    chk.ob(R, f"{ci.key}: no attribute of self is written outside __init__", ok, f"{n} writes", evals=len(ci.methods))


def client_stateless(chk: Check, R: str, consequence: str) -> None:
    class_stateless(
        chk, R, chk.proj.cls("client.session:GeminiClient"),
        "GeminiClient keeps no per-call state: outside __init__ no method stores to, or mutates, an attribute of self (one client object serves overlapping fetches - the reverse proxy shares one per location)",
        consequence,
    )


def facade_complete(chk: Check, R: str) -> None:
    """On the PyOpenSSL backend the inner protocol's `transport` is the
    TLSTransportWrapper facade, not an asyncio transport: every transport method
    the protocol calls must exist on the facade, or the call raises
    AttributeError on that backend only - before anything is written."""
    chk.rule(R, "every method the server protocol calls on self.transport is defined by the PyOpenSSL transport facade (TLSTransportWrapper): the two backends offer the protocol the same transport interface")
    proto = chk.proj.cls(SERVER_PROTO)
    fac = chk.proj.cls(TLS_WRAPPER)
    used: dict[str, tuple] = {}
    for m in proto.methods.values():
        for c in calls(m.node):
            mc = method_call(c)
            if mc and dotted(mc[0]) in ("self.transport", "transport"):
                used.setdefault(mc[1], (m, c))
    chk.require(R, proto.key, "transport methods used by the protocol", len(used), 2, "the protocol no longer writes to / closes its transport")
    for name, (m, c) in sorted(used.items()):
        ok = chk.proj.find_method(fac, name) is not None or "__getattr__" in fac.methods
        if not ok:
            chk.finding(
                R, m.key, f"facade-lacks:{name}",
                f"`{norm(c)[:60]}`: TLSTransportWrapper, the transport the protocol is given on the PyOpenSSL backend, has no `{name}`: the call raises AttributeError there (nothing is sent, asyncio aborts the connection), while the stdlib backend works",
                m.loc(c),
            )
        chk.ob(R, f"transport.{name} exists on the PyOpenSSL facade", ok)


def request_objects_fresh(chk: Check, R: str) -> None:
    """A request object is per connection: the protocol stores the upload content
    and the client certificate on it after parsing.  A memoising decorator on the
    parser hands two connections that sent the same line the same object."""
    chk.rule(R, "the request parsers return a fresh object per call: from_line (and the module's parse helpers that return request objects) carry no memoising decorator (functools.lru_cache / cache / a hand-written cache)")
    mi = chk.proj.module("protocol.request")
    n = 0
    ok = True
    for c in mi.classes.values():
        for name, m in c.methods.items():
            if name != "from_line":
                continue
            n += 1
            for dec in m.node.decorator_list:
                d = dotted(dec.func if isinstance(dec, ast.Call) else dec) or ""
                if d.split(".")[-1] in ("lru_cache", "cache", "cached", "memoize", "cached_property"):
                    ok = False
                    chk.finding(
                        R, m.key, f"parser-memoised:{d}",
                        f"`@{norm(dec)[:40]}` on {c.name}.from_line: connections that send a byte-identical request line share one mutable request object; the content (and client certificate) a second connection stores on it replaces the first one's before its upload task runs, so the first peer - answered 20 - has stored the other peer's bytes",
                        m.loc(),
                    )
    chk.require(R, mi.name, "request parsers (from_line)", n, 2, "the request classes no longer have from_line parsers")
    chk.ob(R, "request parsers are not memoised", ok, f"{n} parsers", evals=n)


def timers_on_running_loop(chk: Check, R: str) -> None:
    """`loop.call_later` arms the deadline on `loop`.  The loop must be the one
    that runs this connection - obtained in the same activation - not one cached
    on the class / instance by an earlier connection: after a restart of the
    server in the same process the cached loop is closed or stopped and the
    deadline never fires."""
    from ..flow import Defs, _Sel, origins

    chk.rule(R, "every deadline is armed on the loop that runs the connection: the receiver of call_later / call_at in the server protocols is the result of asyncio.get_running_loop() / get_event_loop() obtained in the same function, not a cached attribute")
    n = 0
    ok = True
    for key in (SERVER_PROTO, TLS_PROTO):
        ci = chk.proj.cls(key)
        for m in ci.methods.values():
            sites = [c for c in calls(m.node) if method_call(c) and method_call(c)[1] in ("call_later", "call_at")]
            if not sites:
                continue
            g = build_cfg(chk.proj, m)
            defs = Defs(g)
            for c in sites:
                n += 1
                node = node_of_call(g, c)
                recv = method_call(c)[0]
                leaves = origins(defs, node, recv) if isinstance(recv, ast.Name) else [(node, recv)]
                good = bool(leaves) and all(isinstance(le, ast.Call) and (dotted(le.func) or "").split(".")[-1] in ("get_running_loop", "get_event_loop") for _n, le in leaves if not isinstance(le, _Sel)) and not any(isinstance(le, _Sel) for _n, le in leaves)
                if not good:
                    ok = False
                    chk.finding(
                        R, m.key, f"timer-on-cached-loop:{norm(recv)[:40]}",
                        f"`{norm(c)[:70]}` arms the deadline on `{norm(recv)}`, which is not the running loop obtained in this activation: a loop remembered from an earlier connection may be closed or stopped (server restarted in the same process), and a silent peer is then never disconnected",
                        m.loc(c),
                    )
                chk.ob(R, f"{m.key}: `{norm(c)[:50]}` on the running loop", good)
    chk.require(R, "server protocols", "deadline registrations", n, 2, "the protocols arm no deadline any more")


def redirect_target_fidelity(chk: Check, R: str) -> None:
    """The next hop is the URL the server named.  Between reading it from the
    response and fetching it no rewriting call may lie on its definition chain:
    decode-and-re-encode turns an escaped reserved character (%2F, %3F, %26)
    into a live delimiter and the hop asks for another resource."""
    from ..flow import Defs

    chk.rule(R, "the redirect target is followed as the server sent it: on the definition chain from response.redirect_url / meta to the URL handed to the next fetch there is no quoting / unquoting / replacing / trimming / case-folding call")
    altering = {"strip", "rstrip", "lstrip", "lower", "upper", "casefold", "replace", "translate", "removeprefix", "removesuffix", "normalize", "unquote", "quote", "unquote_plus", "quote_plus", "sub", "normalize_url"}
    fi = chk.proj.func("client.session:GeminiClient._get_with_redirects")
    g = build_cfg(chk.proj, fi)
    d = Defs(g)
    sites = []
    for n_ in g.nodes:
        if n_.ast is None or n_.kind != "stmt":
            continue
        for c in calls(n_.ast):
            if method_call(c) and method_call(c)[1] in ("_get_with_redirects", "_get_single", "get") and dotted(method_call(c)[0]) == "self" and c.args:
                sites.append((n_, c))
    chk.require(R, fi.key, "fetch calls in the follower", len(sites), 2, "the follower no longer fetches")
    for node, call in sites:
        seen, todo, bad = set(), [(node, call.args[0])], []
        while todo:
            at, e = todo.pop()
            for x in walk(e):
                if isinstance(x, ast.Call):
                    nm = method_call(x)[1] if method_call(x) else (dotted(x.func) or "").split(".")[-1]
                    if nm in altering:
                        bad.append((at, x))
                if isinstance(x, ast.Name) and (at.id, x.id) not in seen:
                    seen.add((at.id, x.id))
                    for dn, val, _sel in d.at(at, x.id):
                        if val is not None:
                            todo.append((dn, val.value if isinstance(val, ast.AugAssign) else val))
        for at, x in bad[:1]:
            chk.finding(
                R, fi.key, f"redirect-target-rewritten:{norm(x)[:50]}",
                f"the URL fetched by `{norm(call)[:50]}` passes through `{norm(x)[:70]}`: the hop requests another URL than the one the server named (an escaped `%2F` / `%3F` / `%26` becomes a path separator / query start / parameter separator), so a loop-free chain is not followed to its final response",
                at.where(),
            )
        chk.ob(R, f"{fi.key}: `{norm(call)[:50]}` fetches the URL as given", not bad, evals=len(seen) + 1)
