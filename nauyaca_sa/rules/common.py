"""Helpers shared by several property rule modules."""

from __future__ import annotations

import ast

from ..astutil import calls, dotted, method_call, norm, walk
from ..cfg import Graph, Node, build_cfg
from ..loader import AnalysisError, ClassInfo, FunctionInfo
from ..machine import Machine, Violation, server_machine
from ..report import Check

SERVER_PROTO = "server.protocol:GeminiServerProtocol"
TLS_PROTO = "server.tls_protocol:TLSServerProtocol"
TLS_WRAPPER = "server.tls_protocol:TLSTransportWrapper"


def machine_findings(chk: Check, rule: str, kinds: set[str], what: str, only=None) -> Machine:
    """Report the protocol machine's violations of the given kinds under
    ``rule`` and record the exploration as obligations."""
    mach = server_machine(chk.proj)
    hits = [v for v in mach.violations if v.kind in kinds and (only is None or only(v))]
    cls = mach.m.cls
    for v in hits:
        fi = chk.proj.find_method(cls, v.entry)
        chk.finding(
            rule,
            fi.key if fi else cls.key,
            f"{v.kind}@{v.chain}",
            f"{v.message} [activation sequence: {' -> '.join(v.history)}]",
            v.where,
            v.path,
        )
    entries = sorted({k[0] for k in mach.cache})
    for e in entries:
        bad = [v for v in hits if v.entry == e]
        chk.ob(
            rule,
            f"{cls.key}.{e}: {what}",
            not bad,
            f"{sum(len(v) for k, v in mach.cache.items() if k[0] == e)} feasible paths over "
            f"{sum(1 for k in mach.cache if k[0] == e)} abstract latch states",
            evals=sum(len(v) for k, v in mach.cache.items() if k[0] == e),
        )
    chk.note(
        f"{rule}: protocol machine explored {mach.n_states} abstract states, "
        f"{mach.n_activations} activations, {mach.n_paths} feasible CFG paths "
        f"(inline depth {mach.depth}); event sites: "
        + ", ".join(f"{k}={len(v)}" for k, v in sorted(mach.event_sites.items()))
    )
    return mach


def machine_floor(chk: Check, rule: str, mach: Machine, **floors: int) -> None:
    for kind, fl in floors.items():
        chk.floor(rule, f"{kind} event sites in the protocol class", len(mach.event_sites.get(kind, ())), fl)


def node_of_call(g: Graph, call: ast.Call) -> Node:
    for n in g.nodes:
        if n.ast is not None and n.kind in ("stmt", "test", "with") and any(c is call for c in calls(n.ast)):
            return n
    raise AnalysisError(f"call not found in CFG: {norm(call)}")


def nodes_calling(g: Graph, pred) -> list[Node]:
    out = []
    for n in g.nodes:
        if n.ast is not None and n.kind in ("stmt", "test", "with"):
            if any(pred(c) for c in calls(n.ast)):
                out.append(n)
    return out


def is_method_call_on(c: ast.Call, recv: str, names: set[str] | None = None) -> bool:
    mc = method_call(c)
    return bool(mc and dotted(mc[0]) == recv and (names is None or mc[1] in names))


def request_accessor_decodes(proj, func, e: ast.Attribute) -> int:
    """Number of percent-decodings hidden in a request accessor: for
    `<request>.path` where <request> is a parameter annotated with one of the
    request classes of protocol.request, the unquote applications in that
    property's return expressions (0 when the property returns the raw
    component; -1 when its returns disagree)."""
    if not isinstance(e, ast.Attribute) or not isinstance(e.value, ast.Name):
        return 0
    ann = None
    fn = func.node
    for a in list(fn.args.args) + list(fn.args.kwonlyargs):
        if a.arg == e.value.id and a.annotation is not None:
            ann = ast.unparse(a.annotation)
    if ann is None or "Request" not in ann:
        return 0
    counts = set()
    try:
        mod = proj.module("protocol.request")
    except Exception:  # noqa: BLE001
        return 0
    for ci in mod.classes.values():
        m = ci.methods.get(e.attr)
        if m is None or ci.name not in ann and ci.name != "BaseRequest":
            continue
        for r in walk(m.node):
            if isinstance(r, ast.Return) and r.value is not None:
                counts.add(sum(1 for c in walk(r.value) if isinstance(c, ast.Call) and (dotted(c.func) or "").split(".")[-1] in ("unquote", "unquote_plus")))
    if not counts:
        return 0
    k = counts.pop() if len(counts) == 1 else -1
    if k >= 0:
        k += _parsed_field_decodes(proj, e.attr)
    return k


def _parsed_field_decodes(proj, field: str) -> int:
    """Percent-decodings parse_url applies to the ParsedURL field of that name
    (normally none: the parsed components are the raw, still escaped ones)."""
    try:
        fi = proj.func("utils.url:parse_url")
    except Exception:  # noqa: BLE001
        return 0
    best = 0
    for c in calls(fi.node):
        if (dotted(c.func) or "").split(".")[-1] != "ParsedURL":
            continue
        v = next((k.value for k in c.keywords if k.arg == field), None)
        if v is None:
            continue

        def count(e, depth=0):
            if depth > 4:
                return 0
            n = sum(1 for x in walk(e) if isinstance(x, ast.Call) and (dotted(x.func) or "").split(".")[-1] in ("unquote", "unquote_plus"))
            for nm in [x for x in walk(e) if isinstance(x, ast.Name)]:
                ds = [st.value for st in walk(fi.node) if isinstance(st, ast.Assign) and any(isinstance(t, ast.Name) and t.id == nm.id for t in st.targets)]
                if ds:
                    n += max(count(d, depth + 1) for d in ds)
            return n

        best = max(best, count(v))
    return best


def alias_map(fn: ast.AST) -> dict[str, str]:
    """Local names that are single-assignment copies of a dotted expression
    (`tcp = self.tls_protocol.transport`)."""
    out: dict[str, str] = {}
    multi: set[str] = set()
    for st in walk(fn):
        if isinstance(st, (ast.Assign, ast.AnnAssign)):
            tgts = st.targets if isinstance(st, ast.Assign) else [st.target]
            for t in tgts:
                for x in walk(t):
                    if isinstance(x, ast.Name):
                        if x.id in out or x.id in multi:
                            multi.add(x.id)
                        elif len(tgts) == 1 and isinstance(t, ast.Name) and st.value is not None and dotted(st.value):
                            out[x.id] = dotted(st.value)
                        else:
                            multi.add(x.id)
        elif isinstance(st, (ast.For, ast.AsyncFor, ast.With, ast.AsyncWith, ast.AugAssign, ast.NamedExpr)):
            for x in walk(st.target if hasattr(st, "target") else st):
                if isinstance(x, ast.Name) and isinstance(getattr(x, "ctx", None), ast.Store):
                    multi.add(x.id)
    for m in multi:
        out.pop(m, None)
    return out


def canon_dotted(e: ast.AST, amap: dict[str, str]) -> str:
    d = dotted(e) or ""
    for _ in range(4):
        head = d.split(".")[0]
        if head in amap:
            d = amap[head] + d[len(head):]
        else:
            break
    return d


def absent_edges(g: Graph, match, amap: dict[str, str]) -> set:
    """Edges that mean "the object is absent" for tests on expressions whose
    canonical dotted name satisfies ``match``: the F edge of `if x:` /
    `if x is not None:`, the T edge of `if not x:` / `if x is None:`."""
    out = set()
    for t in g.nodes:
        if t.kind != "test" or t.ast is None:
            continue
        a, flip = t.ast, False
        while isinstance(a, ast.UnaryOp) and isinstance(a.op, ast.Not):
            a, flip = a.operand, not flip
        lab = None
        if isinstance(a, ast.Compare) and len(a.ops) == 1 and isinstance(a.comparators[0], ast.Constant) and a.comparators[0].value is None and match(canon_dotted(a.left, amap)):
            lab = "F" if isinstance(a.ops[0], ast.IsNot) else ("T" if isinstance(a.ops[0], ast.Is) else None)
        elif match(canon_dotted(a, amap)):
            lab = "F"
        if lab is None:
            continue
        if flip:
            lab = {"T": "F", "F": "T"}[lab]
        for b, l2 in g.succ[t.id]:
            if l2 == lab:
                out.add((t.id, b, l2))
    return out


def reuse(chk: Check, fn, rule: str, text: str, drop: tuple[str, ...] = (), *args) -> None:
    """Run another property's rule function and report its findings and
    obligations under ``rule`` of the current property."""
    before, nob = len(chk.findings), len(chk.obligations)
    fn(chk, *args)
    for f in chk.findings[before:]:
        f.rule = rule
    for o in chk.obligations[nob:]:
        o["rule"] = f"{chk.prop}.{rule}"
    for r in drop:
        chk.rules.pop(r, None)
    chk.rules[rule] = text


def resolve_simple(proj, ci, fi, expr: ast.AST, depth: int = 0) -> ast.AST:
    """See through the two commonest indirections of a refactoring: a local that
    is assigned once (`base = upstream.rstrip("/")`; `self.upstream = base`) and
    a helper method of the class that consists of a single `return <expr>`
    (`self._client = self._make_client(timeout)`), parameters substituted."""
    import copy

    if depth > 3 or expr is None:
        return expr
    if isinstance(expr, ast.Name):
        ds = [st.value for st in walk(fi.node) if isinstance(st, ast.Assign) and len(st.targets) == 1 and isinstance(st.targets[0], ast.Name) and st.targets[0].id == expr.id]
        if len(ds) == 1:
            return resolve_simple(proj, ci, fi, ds[0], depth + 1)
        return expr
    if isinstance(expr, ast.Call):
        d = dotted(expr.func) or ""
        name = d.split(".")[-1]
        callee = None
        if d.startswith(("self.", "cls.")) or (ci is not None and d.startswith(ci.name + ".")):
            callee = proj.find_method(ci, name) if ci is not None else None
        if callee is not None:
            body = [st for st in callee.node.body if not (isinstance(st, ast.Expr) and isinstance(st.value, ast.Constant))]
            if len(body) == 1 and isinstance(body[0], ast.Return) and body[0].value is not None:
                params = [a.arg for a in callee.node.args.args if a.arg not in ("self", "cls")]
                sub = dict(zip(params, expr.args))
                sub.update({k.arg: k.value for k in expr.keywords if k.arg})

                class S(ast.NodeTransformer):
                    def visit_Name(self, m):  # noqa: N802
                        return copy.deepcopy(sub[m.id]) if m.id in sub else m

                return resolve_simple(proj, ci, fi, S().visit(copy.deepcopy(body[0].value)), depth + 1)
    return expr
