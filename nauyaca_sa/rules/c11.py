"""C11 - TOFU: nothing is sent to a peer before its certificate is verified.

asyncio calls connection_made when the TLS handshake completes, i.e. inside
`await create_connection(...)`, before session code can look at the
certificate.  So with TOFU active no request-write site may be reachable from
connection_made.
  F1 every transport write of the client protocols is reachable from
     connection_made only behind a deferral flag; the flag comes from a
     constructor parameter; every construction site in the session passes a
     value that is false whenever a TOFU database is configured
  F2 in the session the deferred send is reachable only behind the success edge
     of tofu_db.verify, is executed before the response is awaited on every
     path, and is never reached for a failing verdict or an unreadable
     certificate (abstract evaluation of each verify() outcome)
  F3 every hop is fetched through that same function (= C03.T6)
Not decided: what TLS itself transmits during the handshake (SNI).
"""

from __future__ import annotations

import ast

from ..astutil import calls, dotted, is_self_attr, kwarg, method_call, norm, walk
from ..cfg import Builder, build_cfg, inline_local, inline_self_methods
from ..flow import Defs, origins
from ..loader import ClassInfo
from ..paths import normal_only
from ..report import Check
from ..strdom import BoolV, Interp, NoneV, ObjV
from .c03 import SESSION, _conn_nodes, _verify_nodes, _wait_nodes, connecting_functions, run_samples, tofu_guard_edges, tofu_object

EXPLANATION = (
    "Static necessary conditions of C11. asyncio runs connection_made inside "
    "create_connection, before the session can inspect the certificate. (F1) in every client "
    "protocol class each transport.write is unreachable from connection_made once the true "
    "edge of the deferral flag test is removed; the flag is assigned from a constructor "
    "parameter; at every construction site in client/session.py the argument evaluates "
    "(abstractly, with tofu_db present) to false. (F2) in each connecting session function the "
    "call that triggers the deferred send is unreachable from create_connection without "
    "passing the success edge of tofu_db.verify, lies on every path to awaiting the response "
    "when TOFU is active, and is absent from every feasible path for a failing verdict or an "
    "unreadable certificate. (F3) hops use the same function. TLS handshake bytes (SNI) are "
    "outside the property. "
    "(F4) = C03.T10 option wiring. (F5) = C03.T4: a match is reported only from comparing with the pin stored now."
    ' (F6) GeminiClient keeps no per-call state: outside __init__ no method stores to or mutates an attribute of self (e.g. resets the TOFU store).'
)


def protocol_classes(chk: Check) -> list[ClassInfo]:
    mi = chk.proj.module("client.protocol")
    return [ci for ci in mi.classes.values() if any(method_call(c) and method_call(c)[1] == "write" and (dotted(method_call(c)[0]) or "").endswith("transport") for m in ci.methods.values() for c in calls(m.node))]


def rule_f1(chk: Check):
    chk.rule("F1", "request writes are reachable from connection_made only behind a deferral flag that the session sets to false whenever TOFU is active")
    classes = protocol_classes(chk)
    chk.require("F1", "client.protocol", "client protocol classes that write requests", len(classes), 2, "fewer request-writing client protocols than confirmed")
    info = {}
    for ci in classes:
        cm = ci.methods.get("connection_made")
        if cm is None:
            continue
        g = Builder(chk.proj, inline_self_methods, 3).build(cm)
        writes = [n for n in g.nodes if n.ast is not None and n.kind == "stmt" and any(method_call(c) and method_call(c)[1] == "write" and dotted(method_call(c)[0]) == "self.transport" for c in calls(n.ast))]
        flag_tests = [n for n in g.nodes if n.kind == "test" and not n.stack and is_self_attr(n.ast) and n.ast.attr not in ("transport",)]
        flags = set()
        ok = True
        if writes:
            if not flag_tests:
                ok = False
            else:
                blocked = {(t.id, b, lab) for t in flag_tests for b, lab in g.succ[t.id] if lab == "T"}
                par = g.reach([g.entry.id], blocked_edges=blocked, follow=normal_only)
                if any(w.id in par for w in writes):
                    ok = False
                flags = {t.ast.attr for t in flag_tests}
        if not ok:
            chk.finding(
                "F1", cm.key, "write-in-connection_made",
                "connection_made writes the request unconditionally: asyncio calls it inside create_connection, before the session can verify the certificate, so the URL, the Titan token and the upload content reach an unverified peer",
                cm.loc(), [f"{w.where()} `{w.text(70)}`" for w in writes],
            )
        chk.ob("F1", f"{cm.key}: writes only behind a deferral flag", ok, f"{len(writes)} write sites, flags {sorted(flags)}", evals=len(writes) + 1)
        # flag <- ctor parameter
        init = ci.methods.get("__init__")
        param = None
        if init is not None:
            for st in walk(init.node):
                if isinstance(st, ast.Assign) and any(is_self_attr(t) and t.attr in flags for t in st.targets) and isinstance(st.value, ast.Name) and st.value.id in init.params:
                    param = st.value.id
        # methods that (transitively) write and are not connection_made = the send methods
        senders = set()
        for name, m in ci.methods.items():
            if name in ("connection_made", "__init__"):
                continue
            if any(method_call(c) and method_call(c)[1] == "write" and dotted(method_call(c)[0]) == "self.transport" for c in calls(m.node)):
                senders.add(name)
        info[ci.name] = (param, senders, bool(writes) and ok)
    # construction sites in the session
    mi = chk.proj.module("client.session")
    n_sites = 0
    for fi in mi.functions.values():
        for c in calls(fi.node):
            cname = (dotted(c.func) or "").split(".")[-1]
            if cname in info:
                n_sites += 1
                param, _s, has_flag = info[cname]
                if not has_flag or param is None:
                    chk.ob("F1", f"{fi.key}: constructs {cname} deferred under TOFU", False)
                    continue
                v = kwarg(c, param)
                if v is None:
                    init = chk.proj.find_method(next(ci for ci in classes if ci.name == cname), "__init__")
                    params = [p for p in init.params if p != "self"]
                    idx = params.index(param)
                    v = c.args[idx] if len(c.args) > idx else None
                interp = Interp(chk.proj, fi)
                dbv, special = tofu_object(chk)
                interp.oracle = {"self.tofu_db": dbv, "self.trust_on_first_use": BoolV(True)}
                val = interp.eval(v, {}) if v is not None else BoolV(True)  # default True = send at connect
                ok = isinstance(val, BoolV) and val.value is False
                if not ok:
                    extra = f" (TOFUDatabase defines {'/'.join(special)}, so a configured but empty store is falsy: `{norm(v)}` is then true while verification is still performed)" if special and v is not None else ""
                    chk.finding("F1", fi.key, f"not-deferred:{cname}", f"{cname} is constructed with {param}={norm(v) if v is not None else '<default True>'}, which is not provably false whenever a TOFU database is configured{extra}: the request is sent during connection set-up, before verification", fi.loc(c))
                chk.ob("F1", f"{fi.key}: {cname}({param}={norm(v) if v is not None else 'default'}) is false under TOFU", ok)
    chk.require("F1", "client.session", "protocol construction sites", n_sites, 2, "the session no longer constructs both client protocols")
    return info


def rule_f2(chk: Check, info) -> None:
    chk.rule("F2", "the deferred send is behind the success edge of verify, precedes awaiting the response on every TOFU path, and is absent for failing verdicts / unreadable certificates")
    senders = set()
    for _p, s, _h in info.values():
        senders |= s
    funcs = connecting_functions(chk)
    for fi in funcs:
        g = Builder(chk.proj, inline_local, 3).build(fi)  # verification may live in a helper
        sends = [n for n in g.nodes if n.ast is not None and n.kind == "stmt" and any(method_call(c) and method_call(c)[1] in senders for c in calls(n.ast))]
        if not chk.require("F2", fi.key, "deferred send call", len(sends), 1, "the session never triggers the deferred send: with TOFU active no request would ever be sent (or it is sent at connect time)"):
            continue
        conn, ver, waits = _conn_nodes(g), _verify_nodes(g), _wait_nodes(g)
        blocked_e, _nt = tofu_guard_edges(g, active=False)
        for v in ver:
            for b, lab in g.succ[v.id]:
                if lab is None:
                    blocked_e.add((v.id, b, lab))
        starts = [b for c in conn for b, lab in g.succ[c.id] if lab not in ("exc", "raise")]
        par = g.reach(starts, blocked_edges=blocked_e)
        early = [s for s in sends if s.id in par]
        ok = not early
        if early:
            chk.finding("F2", fi.key, "send-before-verify", "with TOFU active the request can be sent on a path that has not passed certificate verification", early[0].where(), g.fmt_path(g.path_to(par, early[0].id)))
        # on TOFU paths the send precedes the wait
        blocked_e2, _nt2 = tofu_guard_edges(g, active=False)
        par2 = g.reach(starts, blocked_nodes={s.id for s in sends}, blocked_edges=blocked_e2, follow=normal_only)
        unsent = [w for w in waits if w.id in par2]
        if unsent:
            ok = False
            chk.finding("F2", fi.key, "wait-without-send", "with TOFU active the response is awaited on a path that never sent the request: the call can only time out", unsent[0].where())
        chk.ob("F2", f"{fi.key}: send is behind verify and before the wait", ok, evals=3)
        # abstract evaluation per verdict
        for (valid, msg), summ, _g in run_samples(chk, fi):
            if valid is not False:
                continue
            bad = [s for s in summ if any(nm in senders for nm, _c, _n in s["called"])]
            if bad:
                chk.finding("F2", fi.key, f"send-on-failed-verdict:{msg}", f"for verify() == ({valid}, {msg!r}) the request is still sent before the error is raised", bad[0]["path"][-1][0].where())
            chk.ob("F2", f"{fi.key}: nothing sent for ({valid}, {msg!r})", not bad, evals=max(1, len(summ)))
        for (valid, msg), summ, _g in run_samples(chk, fi, cert_present=False)[:1]:
            bad = [s for s in summ if any(nm in senders for nm, _c, _n in s["called"])]
            if bad:
                chk.finding("F2", fi.key, "send-without-certificate", "when no certificate can be read the request is still sent", bad[0]["path"][-1][0].where())
            chk.ob("F2", f"{fi.key}: nothing sent when the certificate is unreadable", not bad, evals=max(1, len(summ)))


def run(chk: Check) -> None:
    info = rule_f1(chk)
    rule_f2(chk, info)
    from .c03 import rule_t6

    before = len(chk.findings)
    rule_t6(chk)
    for f in chk.findings[before:]:
        f.rule = "F3"
    for o in chk.obligations:
        if o["rule"].endswith(".T6"):
            o["rule"] = f"{chk.prop}.F3"
    chk.rules["F3"] = chk.rules.pop("T6", "")
    from .c03 import rule_t4
    from .common import reuse

    reuse(chk, rule_t4, "F5", "verify() reports a match only from comparing the presented certificate's fingerprint with the pin stored now (= C03.T4): a request is sent only to a peer that passes the current pin", ("T4",))
    from .c03 import tofu_wiring

    chk.rule("F4", "verification before sending is switched off only by an explicit decision: every GeminiClient construction passes trust_on_first_use as the caller's own option, a literal, or the default (= C03.T10)")
    tofu_wiring(chk, "F4")
    from .common import client_stateless

    client_stateless(chk, "F6", "a later call on the same client runs with what an earlier call left behind - e.g. a TOFU store reset by close(), after which requests are sent without any verification")
    chk.trusted = ["CPython ast parser", "engine CFG / abstract evaluator", "asyncio calls connection_made before create_connection returns"]
    chk.assumptions = ["bytes of the TLS handshake itself (SNI, client certificate) are outside the property", "`nauyaca tofu trust` connects with TOFU disabled on purpose (explicit re-pin) and is outside the property"]
