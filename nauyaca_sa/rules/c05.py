"""C05 - Certificate rules are applied to the resource that is actually served.

  A1 decision table of the rule: abstract evaluation of
     CertificateAuth.process_request over every consistent combination of
     (require_cert, certificate present, allow-list absent / empty / containing
     / not containing the fingerprint) equals the specification: 60, 61, admit
  A2 None / empty fidelity of the optional allow-list from TOML to the rule
     ("an empty list admits nobody"): [] must stay an empty set, never None
  A3 key fidelity: each rule field is read from the like-named key and passed
     to the like-named constructor keyword; from_toml hands
     certificate_auth.paths over unchanged; the CLI wires it into the server
  A4 first match wins: the matcher iterates the rules in list order and
     returns at the first prefix hit
  A5 matcher and server agree on what a path denotes: the value compared with
     the rule prefix has been percent-decoded as often as the served path, has
     dot segments and repeated / leading slashes collapsed, and a directory
     requested without its trailing slash is matched as that directory
  A7 backend selection: client certificates are requested (PyOpenSSL backend)
     whenever some rule needs one
Not decided: TLS delivering the client certificate; fingerprint provenance is
C04.M3.
"""

from __future__ import annotations

import ast

from ..astutil import calls, dotted, is_none, kwarg, method_call, norm, walk
from ..cfg import build_cfg
from ..flow import Defs, _Sel, origins
from ..paths import normal_only
from ..report import Check
from ..strdom import TOP, BoolV, Interp, IntV, NoneV, ObjV, SetV, StrV, TupleV, lit

EXPLANATION = (
    "Static necessary conditions of C05. (A1) CertificateAuth.process_request is interpreted "
    "abstractly for all 16 combinations of require_cert x certificate present x allow-list "
    "(absent, empty, containing, not containing the fingerprint); on every feasible path the "
    "returned verdict and status must equal the specification table. (A2) "
    "get_certificate_auth_config is interpreted with the TOML value None, [] and ['fp']: the "
    "allowed_fingerprints passed to the rule must be None, the empty set and {'fp'}. (A3) each "
    "rule keyword is fed from the like-named dict key; from_toml passes certificate_auth.paths "
    "unchanged; serve() passes the built config to start_server, which installs CertificateAuth "
    "iff it is set. (A4) the matcher iterates path_rules in order and returns at the first "
    "prefix hit. (A5) a small path-canonicalisation domain (decode count, dot segments, "
    "repeated slashes, leading slashes, directory slash) is evaluated on the matcher's "
    "compared value and on the static handler's served path; they must agree. (A7) "
    "request_client_cert covers every rule with require_cert or an allow-list. TLS delivery of "
    "the certificate is trusted. "
    "(A3, prefix) the rule prefix reaches CertificateAuthPathRule as a plain read of the configured key. (A6) the URL handed to middleware carries the handler's path (C19.N1-N3). (A8) the fingerprint function is sha256 over DER, untruncated and pure."
    ' (A11) no method of ServerConfig rewrites certificate_auth_* / require_client_cert (carrier rule). (A12) CertificateAuthConfig defines no __len__/__bool__ while start_server tests it for truthiness. (A13) the path_rules handed to CertificateAuthConfig hold one rule per configured entry in the configured order (unfiltered loop with one append, or unfiltered comprehension).'
)

MW = "server.middleware"
FP = "sha256:" + "ab" * 32


def _rule_lookup(chk: Check):
    """(process_request FunctionInfo, variable holding the matched rule, the
    lookup call, the matcher FunctionInfo) - discovered from the data flow: the
    variable whose `.require_cert` is read, and the self-method call bound to it."""
    from ..cfg import Resolver

    fi = chk.proj.func(f"{MW}:CertificateAuth.process_request")
    var = None
    for n in walk(fi.node):
        if isinstance(n, ast.Attribute) and n.attr in ("require_cert", "allowed_fingerprints") and isinstance(n.value, ast.Name):
            var = n.value.id
    call = None
    if var is not None:
        for st in walk(fi.node):
            if isinstance(st, ast.Assign) and dotted(st.targets[0]) == var and isinstance(st.value, ast.Call):
                call = st.value
    matcher = Resolver(chk.proj).resolve(fi, call) if call is not None else None
    return fi, var, call, matcher


def rule_a1(chk: Check) -> None:
    chk.rule("A1", "decision table of CertificateAuth.process_request equals: no cert & (required | list) -> 60; cert & list & fp not in list -> 61; else admit (empty list admits nobody)")
    fi, rule_var, lookup_call, _matcher = _rule_lookup(chk)
    g = build_cfg(chk.proj, fi)
    if rule_var is None or lookup_call is None:
        chk.floor("A1", "matched-rule variable / lookup call", 0, 1)
    fpp = [p for p in fi.params if "fingerprint" in p or "cert" in p]
    if not fpp:
        chk.floor("A1", "fingerprint parameter", 0, 1)
    fpp = fpp[0]
    rows = 0
    for require in (True, False):
        for has_fp in (True, False):
            for lst_name, lst in (("absent", NoneV()), ("empty", SetV(frozenset())), ("containing", SetV(frozenset({FP, "sha256:" + "cd" * 32}))), ("other", SetV(frozenset({"sha256:" + "cd" * 32})))):
                if not has_fp and lst_name == "containing":
                    continue
                rows += 1
                if not has_fp and (require or lst_name != "absent"):
                    want = (False, 60)
                elif has_fp and lst_name in ("empty", "other"):
                    want = (False, 61)
                else:
                    want = (True, None)
                interp = Interp(chk.proj, fi)
                interp.oracle = {f"{rule_var}.require_cert": BoolV(require), f"{rule_var}.allowed_fingerprints": lst, f"{rule_var}.prefix": lit("/")}
                interp.call_oracle = lambda c, _lc=lookup_call: ObjV("rule") if c is _lc else None
                init = {fpp: lit(FP) if has_fp else NoneV()}
                res = interp.run_paths(g, lambda n: list(n.ast.value.elts) if n.kind == "stmt" and isinstance(n.ast, ast.Return) and isinstance(n.ast.value, ast.Tuple) else [], init)
                got = set()
                witness = None
                for path, (st, recs) in res:
                    if path[-1][0].kind != "exit":
                        continue
                    rets = [(node, vals) for node, vals, _ in recs if isinstance(node.ast, ast.Return)]
                    if not rets:
                        got.add(("no-tuple", None))
                        witness = path
                        continue
                    node, vals = rets[-1]
                    verdict = vals[0].value if isinstance(vals[0], BoolV) else None
                    status = None
                    head = None
                    if len(vals) > 1 and isinstance(vals[1], StrV):
                        # the status is the first two characters; the rest of the line may be
                        # computed (e.g. naming the resource), so a known prefix is enough
                        head = vals[1].exact if isinstance(vals[1].exact, str) else (vals[1].prefix if isinstance(vals[1].prefix, str) else None)
                    if head is not None and len(head) >= 3 and head[:2].isdigit() and head[2] == " ":
                        status = int(head[:2])
                    got.add((verdict, status))
                    if (verdict, status) != want:
                        witness = path
                ok = got == {want}
                inst = f"require_cert={require}, cert={'present' if has_fp else 'none'}, allow-list={lst_name}"
                if not ok:
                    chk.finding(
                        "A1", fi.key, f"table:{inst}",
                        f"for a rule with {inst} the middleware returns {sorted(map(str, got))}, the property demands {want}",
                        fi.loc(), g.fmt_path(witness) if witness else [],
                    )
                chk.ob("A1", inst, ok, f"expected {want}, got {sorted(map(str, got))}", evals=max(1, len(res)))
    chk.sample({"rule": "A1", "rows": rows, "function": fi.key})
    # no rule matched -> admit is the documented behaviour; a rule lookup must exist
    chk.require("A1", fi.key, "rule lookup call", 1 if lookup_call is not None else 0, 1, "process_request does not look up the matching rule")


def rule_a2(chk: Check) -> None:
    chk.rule("A2", "the optional allow-list keeps its None/empty distinction from TOML to the rule: None -> None, [] -> empty set, ['fp'] -> {'fp'}")
    from ..cfg import Builder, inline_local

    fi = chk.proj.func("server.config:ServerConfig.get_certificate_auth_config")
    g = Builder(chk.proj, inline_local, 3).build(fi)
    ctor = [n for n in g.nodes if n.ast is not None and n.kind == "stmt" and any((dotted(c.func) or "").split(".")[-1] == "CertificateAuthPathRule" for c in calls(n.ast))]
    chk.require("A2", fi.key, "CertificateAuthPathRule construction", len(ctor), 1, "the TOML path rules are never turned into CertificateAuthPathRule objects")
    if not ctor:
        return
    cn = ctor[0]
    call = next(c for c in calls(cn.ast) if (dotted(c.func) or "").split(".")[-1] == "CertificateAuthPathRule")
    arg = kwarg(call, "allowed_fingerprints") or (call.args[2] if len(call.args) > 2 else None)
    if arg is None:
        chk.finding("A2", fi.key, "allow-list-dropped", "allowed_fingerprints from the configuration is never passed to the rule: a configured allow-list is not enforced", cn.where())
        chk.ob("A2", "allow-list passed", False)
        return
    for name, sample, want in (
        ("absent", NoneV(), NoneV()),
        ("empty list", SetV(frozenset()), SetV(frozenset())),
        ("one entry", SetV(frozenset({FP})), SetV(frozenset({FP}))),
    ):
        interp = Interp(chk.proj, fi)

        def oracle(c, _s=sample):
            mc = method_call(c)
            if mc and mc[1] == "get" and c.args and isinstance(c.args[0], ast.Constant) and c.args[0].value == "allowed_fingerprints":
                return _s
            return None

        interp.call_oracle = oracle
        interp.oracle = {"self.certificate_auth_paths": ObjV("paths")}
        res = interp.run_paths(g, lambda n, _cn=cn, _a=arg: [_a] if n.id == _cn.id else [], {})
        got = set()
        for path, (st, recs) in res:
            for node, vals, _ in recs:
                got.add(vals[0])
        ok = got == {want}
        if not ok:
            chk.finding(
                "A2", fi.key, f"allow-list-fidelity:{name}",
                f"allowed_fingerprints = {name} in the TOML file reaches the rule as {sorted(map(repr, got))} instead of {want!r}"
                + (": an empty allow-list (admit nobody) silently becomes 'no allow-list' (admit everybody with any certificate, or without one)" if name == "empty list" else ""),
                cn.where(),
            )
        chk.ob("A2", f"TOML allow-list {name}", ok, f"rule receives {sorted(map(repr, got))}", evals=max(1, len(res)))


def _key_reads(e: ast.AST) -> set[str]:
    out = set()
    for n in walk(e):
        if isinstance(n, ast.Subscript) and isinstance(n.slice, ast.Constant) and isinstance(n.slice.value, str):
            out.add(n.slice.value)
        if isinstance(n, ast.Call) and method_call(n) and method_call(n)[1] == "get" and n.args and isinstance(n.args[0], ast.Constant):
            out.add(n.args[0].value)
    return out


def rule_a3(chk: Check) -> None:
    chk.rule("A3", "key fidelity: rule fields <- like-named dict keys; from_toml: certificate_auth.paths -> certificate_auth_paths; serve() -> start_server -> CertificateAuth")
    from ..cfg import Builder, inline_local

    fi = chk.proj.func("server.config:ServerConfig.get_certificate_auth_config")
    g = Builder(chk.proj, inline_local, 3).build(fi)
    defs = Defs(g)
    rule_cls = chk.proj.cls(f"{MW}:CertificateAuthPathRule")
    fields = list(rule_cls.fields)
    for n in g.nodes:
        if n.ast is None or n.kind != "stmt":
            continue
        for c in calls(n.ast):
            if (dotted(c.func) or "").split(".")[-1] != "CertificateAuthPathRule":
                continue
            given = {k.arg: k.value for k in c.keywords if k.arg}
            for i, a in enumerate(c.args):
                if i < len(fields):
                    given[fields[i]] = a
            for f in fields:
                if f not in given:
                    if f == "prefix":
                        chk.finding("A3", fi.key, f"field-missing:{f}", f"rule field `{f}` is not passed to CertificateAuthPathRule", n.where())
                        chk.ob("A3", f"rule field {f}", False)
                    else:
                        chk.finding("A3", fi.key, f"field-missing:{f}", f"rule field `{f}` is never read from the configuration: what is written is not what is enforced", n.where())
                        chk.ob("A3", f"rule field {f}", False)
                    continue
                keys = set()
                for _dn, le in origins(defs, n, given[f]) if isinstance(given[f], ast.Name) else [(n, given[f])]:
                    if not isinstance(le, _Sel):
                        keys |= _key_reads(le)
                        # follow one more level of names inside the leaf
                        for nm in [x for x in walk(le) if isinstance(x, ast.Name)]:
                            for _d2, l2 in origins(defs, _dn, nm):
                                if not isinstance(l2, _Sel):
                                    keys |= _key_reads(l2)
                ok = keys == {f}
                if not ok:
                    chk.finding("A3", fi.key, f"key-crossed:{f}<-{sorted(keys)}", f"rule field `{f}` is fed from dict keys {sorted(keys)}", n.where())
                chk.ob("A3", f"rule field {f} <- key {sorted(keys)}", ok)
                if f == "prefix":
                    # what is written is what is enforced: the prefix reaches the rule as
                    # written (plain read of the key, possibly through copies) - any rewriting
                    # (strip, added slash, normalisation) changes which paths the rule covers
                    leaves = origins(defs, n, given[f]) if isinstance(given[f], ast.Name) else [(n, given[f])]
                    okw = bool(leaves)
                    for _dn, le in leaves:
                        plain = (
                            isinstance(le, ast.Subscript) and isinstance(le.slice, ast.Constant) and le.slice.value == "prefix"
                        ) or (
                            isinstance(le, ast.Call) and method_call(le) and method_call(le)[1] == "get" and le.args and isinstance(le.args[0], ast.Constant) and le.args[0].value == "prefix"
                        ) or (isinstance(le, ast.Call) and dotted(le.func) == "str" and len(le.args) == 1 and isinstance(le.args[0], ast.Subscript))
                        if not plain:
                            okw = False
                            chk.finding(
                                "A3", fi.key, f"prefix-rewritten:{norm(le)[:50] if not isinstance(le, _Sel) else repr(le)}",
                                f"the rule prefix is not the configured string but `{norm(le) if not isinstance(le, _Sel) else repr(le)}`: a rule written as `/private` that becomes `/private/` no longer covers `/private.gmi` or `/private-notes/`, which the written prefix covers",
                                n.where(),
                            )
                    chk.ob("A3", "rule prefix reaches the rule as written", okw)
    # from_toml
    ft = chk.proj.func("server.config:ServerConfig.from_toml")
    src = None
    for c in calls(ft.node):
        if dotted(c.func) == "cls":
            src = kwarg(c, "certificate_auth_paths")
    ok = False
    if src is not None:
        g2 = build_cfg(chk.proj, ft)
        d2 = Defs(g2)
        node = next(x for x in g2.nodes if x.ast is not None and any(dotted(cc.func) == "cls" for cc in calls(x.ast)))
        ok = isinstance(src, ast.Call) and method_call(src) and method_call(src)[1] == "get" and src.args and isinstance(src.args[0], ast.Constant) and src.args[0].value == "paths" and len(src.args) == 1
        if ok:
            sect = origins(d2, node, method_call(src)[0])
            ok = all(not isinstance(le, _Sel) and _key_reads(le) == {"certificate_auth"} for _, le in sect)
    if not ok:
        chk.finding("A3", ft.key, "toml-paths", "from_toml does not pass [certificate_auth].paths unchanged to certificate_auth_paths", ft.loc())
    chk.ob("A3", "from_toml: certificate_auth.paths -> certificate_auth_paths", ok)
    # wiring in serve() and start_server
    main = chk.proj.module("__main__")
    okw = False
    for fi2 in main.functions.values():
        for c in calls(fi2.node):
            if (dotted(c.func) or "").split(".")[-1] == "start_server":
                v = kwarg(c, "certificate_auth_config")
                if v is not None:
                    from ..cfg import Builder, inline_local

                    g3 = Builder(chk.proj, inline_local, 3).build(fi2)  # the decision may live in a helper
                    d3 = Defs(g3)
                    node = next(x for x in g3.nodes if x.ast is not None and any(cc is c for cc in calls(x.ast)))
                    ls = origins(d3, node, v)
                    okw = any(isinstance(le, ast.Call) and (dotted(le.func) or "").endswith("get_certificate_auth_config") for _, le in ls)
    if not okw:
        chk.finding("A3", "__main__:serve", "cli-wiring", "serve() does not pass config.get_certificate_auth_config() to start_server", main.relpath)
    chk.ob("A3", "serve(): config.get_certificate_auth_config() -> start_server", okw)
    ss = chk.proj.func("server.server:start_server")
    g4 = build_cfg(chk.proj, ss)
    inst = [n for n in g4.nodes if n.ast is not None and n.kind == "stmt" and any((dotted(c.func) or "").split(".")[-1] == "CertificateAuth" and c.args and dotted(c.args[0]) == "certificate_auth_config" for c in calls(n.ast))]
    oki = bool(inst)
    if oki:
        # constructed exactly under `if certificate_auth_config` and appended
        tests = [n for n in g4.nodes if n.kind == "test" and dotted(n.ast) == "certificate_auth_config"]
        blocked = {(t.id, b, lab) for t in tests for b, lab in g4.succ[t.id] if lab == "F"}
        # when the config is set, the append is on every path to create_server
        app = [n for n in g4.nodes if n.ast is not None and n.kind == "stmt" and any(method_call(c) and method_call(c)[1] == "append" and c.args and isinstance(c.args[0], ast.Name) for c in calls(n.ast))]
        srv = [n for n in g4.nodes if n.ast is not None and any(method_call(c) and method_call(c)[1] == "create_server" for c in calls(n.ast))]
        ids = {n.id for n in inst}
        par = g4.reach([g4.entry.id], blocked_nodes=ids, blocked_edges=blocked, follow=normal_only)
        oki = not any(s.id in par for s in srv)
    if not oki:
        chk.finding("A3", ss.key, "middleware-not-installed", "with a certificate_auth_config given, start_server can reach create_server without installing CertificateAuth", ss.loc())
    chk.ob("A3", "start_server installs CertificateAuth whenever a config is given", oki)


def rule_a4(chk: Check) -> None:
    chk.rule("A4", "the matcher iterates the rules in list order and returns the loop variable at the first prefix hit")
    _pr, _var, _call, fi = _rule_lookup(chk)
    if fi is None:
        chk.require("A4", f"{MW}:CertificateAuth.process_request", "rule matcher method", 0, 1, "the matched rule is not obtained from a matcher method of the middleware")
        return
    g = build_cfg(chk.proj, fi)
    heads = [n for n in g.nodes if n.kind == "for"]
    chk.require("A4", fi.key, "rule loop", len(heads), 1, "the rule matcher has no loop over the rules")
    if not heads:
        return
    h = heads[0]
    it = h.ast.iter
    ok = (dotted(it) or "").endswith("path_rules")
    if not ok:
        chk.finding("A4", fi.key, f"rule-order:{norm(it)}", f"rules are iterated as `{norm(it)}`, not in the order they were written", h.where())
    var = dotted(h.ast.target)
    tests = [n for n in g.nodes if n.kind == "test" and isinstance(n.ast, ast.Call) and method_call(n.ast) and method_call(n.ast)[1] == "startswith" and n.ast.args and dotted(n.ast.args[0]) == f"{var}.prefix"]
    ok2 = bool(tests)
    for t in tests:
        tsucc = [b for b, lab in g.succ[t.id] if lab == "T"]
        # T edge must lead to `return <var>` before the next iteration
        par = g.reach(tsucc, follow=normal_only)
        rets = [g.nodes[i] for i in par if g.nodes[i].kind == "stmt" and isinstance(g.nodes[i].ast, ast.Return)]
        direct = g.reach(tsucc, blocked_nodes={r.id for r in rets if dotted(r.ast.value) == var}, follow=normal_only)
        if h.id in direct or g.exit.id in direct:
            ok2 = False
    if not ok2:
        chk.finding("A4", fi.key, "first-match", "a prefix hit does not immediately return that rule (first match does not win)", fi.loc())
    chk.ob("A4", "iteration order = list order", ok)
    chk.ob("A4", "first prefix hit returns that rule", ok2, f"{len(tests)} prefix tests", evals=max(1, len(tests)))


# ------------------------------------------------------------------ A5
class PathForm:
    """Abstract canonical form of a URL path value."""

    def __init__(self, decoded=0, dots=False, slashes=False, leading=False):
        self.decoded = decoded  # number of percent-decodings applied
        self.dots = dots  # dot segments collapsed
        self.slashes = slashes  # repeated slashes collapsed
        self.leading = leading  # leading slashes normalised (exactly one / none)

    def __repr__(self) -> str:
        return f"decoded={self.decoded}, dot-segments={'collapsed' if self.dots else 'raw'}, repeated-slashes={'collapsed' if self.slashes else 'raw'}, leading-slashes={'normalised' if self.leading else 'raw'}"


def path_form(defs: Defs, node, e: ast.AST, depth=0) -> PathForm:
    """Evaluate the canonicalisation applied on the def-use chain feeding e."""
    if depth > 12:
        return PathForm()
    if isinstance(e, ast.Name):
        forms = []
        for dn, val, sel in defs.at(node, e.id):
            if val is not None and sel is None:
                forms.append(path_form(defs, dn, val, depth + 1))
            elif sel == "param" and val is not None:
                forms.append(path_form(defs, defs.g.nodes[dn.stack[-1]] if dn.stack else dn, val, depth + 1))
            else:
                forms.append(PathForm())
        if not forms:
            return PathForm()
        return PathForm(
            min(f.decoded for f in forms) if len({f.decoded for f in forms}) == 1 else -1,
            all(f.dots for f in forms), all(f.slashes for f in forms), all(f.leading for f in forms),
        )
    if isinstance(e, ast.BoolOp):
        # `parsed.path or "/"`
        return path_form(defs, node, e.values[0], depth + 1)
    if isinstance(e, ast.IfExp):
        a, b = path_form(defs, node, e.body, depth + 1), path_form(defs, node, e.orelse, depth + 1)
        return PathForm(a.decoded if a.decoded == b.decoded else -1, a.dots and b.dots, a.slashes and b.slashes, a.leading and b.leading)
    if isinstance(e, ast.BinOp) and isinstance(e.op, ast.Add):
        # "/" + x.lstrip("/")
        if isinstance(e.left, ast.Constant) and e.left.value == "/":
            f = path_form(defs, node, e.right, depth + 1)
            return PathForm(f.decoded, f.dots, f.slashes, f.leading)
        return path_form(defs, node, e.left, depth + 1)
    if isinstance(e, ast.BinOp) and isinstance(e.op, ast.Div):
        return path_form(defs, node, e.right, depth + 1)
    if isinstance(e, ast.Call):
        d = (dotted(e.func) or "")
        last = d.split(".")[-1]
        mc = method_call(e)
        # result of an inlined helper of the package: combine its returns
        g = defs.g
        enter = next((x for x in g.nodes if x.kind == "call_enter" and x.ast is e), None)
        if enter is not None:
            stack = enter.stack + (enter.id,)
            rets = [x for x in g.nodes if x.kind == "stmt" and isinstance(x.ast, ast.Return) and x.stack == stack and x.ast.value is not None]
            forms = []
            for r in rets:
                if isinstance(r.ast.value, ast.Constant):
                    continue  # constant fallbacks such as "/" are canonical already
                forms.append(path_form(defs, r, r.ast.value, depth + 1))
            if forms:
                return PathForm(
                    forms[0].decoded if len({f.decoded for f in forms}) == 1 else -1,
                    all(f.dots for f in forms), all(f.slashes for f in forms), all(f.leading for f in forms),
                )
            return PathForm()
        if last in ("unquote", "unquote_plus") and e.args:
            f = path_form(defs, node, e.args[0], depth + 1)
            return PathForm(f.decoded + 1 if f.decoded >= 0 else -1, f.dots, f.slashes, f.leading)
        if last == "normpath" and e.args:
            f = path_form(defs, node, e.args[0], depth + 1)
            return PathForm(f.decoded, True, True, f.leading)
        if last in ("PurePosixPath", "PurePath", "Path") and e.args:
            f = path_form(defs, node, e.args[-1], depth + 1)
            return PathForm(f.decoded, f.dots, True, True)
        if d == "re.sub" and len(e.args) >= 3 and isinstance(e.args[0], ast.Constant) and e.args[0].value in ("/+", "/{2,}", "//+"):
            f = path_form(defs, node, e.args[2], depth + 1)
            return PathForm(f.decoded, f.dots, True, True)
        if d == "str" and e.args:
            return path_form(defs, node, e.args[0], depth + 1)
        if mc is not None:
            recv, name = mc
            f = path_form(defs, node, recv, depth + 1)
            if name == "resolve":
                return PathForm(f.decoded, True, True, True)
            if name == "lstrip" and e.args and isinstance(e.args[0], ast.Constant) and e.args[0].value == "/":
                return PathForm(f.decoded, f.dots, f.slashes, True)
            if name in ("strip", "rstrip", "as_posix", "__str__"):
                return f
            if name == "joinpath" and e.args:
                return path_form(defs, node, e.args[-1], depth + 1)
        return PathForm()
    if isinstance(e, ast.Attribute):
        # parsed.path: the raw path; request.path: whatever the property of the
        # request class applies (normally nothing)
        from .common import request_accessor_decodes

        k = request_accessor_decodes(_PROJ[0], node.func, e) if _PROJ[0] is not None else 0
        return PathForm(decoded=k)
    return PathForm()


_PROJ: list = [None]


def rule_a5(chk: Check) -> None:
    _PROJ[0] = chk.proj
    chk.rule("A5", "the value the matcher compares with rule prefixes is canonicalised like the path the static handler serves (decode count, dot segments, repeated and leading slashes) and a directory without trailing slash is matched as the directory")
    from ..cfg import Builder, inline_self_methods

    pr = chk.proj.func(f"{MW}:CertificateAuth.process_request")
    g = Builder(chk.proj, inline_self_methods, 3).build(pr)
    defs = Defs(g)
    tests = [n for n in g.nodes if n.kind == "test" and isinstance(n.ast, ast.Call) and method_call(n.ast) and method_call(n.ast)[1] == "startswith" and n.ast.args and (dotted(n.ast.args[0]) or "").endswith(".prefix")]
    chk.require("A5", pr.key, "prefix comparison", len(tests), 1, "no `path.startswith(rule.prefix)` comparison found in the matcher")
    if not tests:
        return
    forms = [path_form(defs, t, method_call(t.ast)[0]) for t in tests]
    # served side
    hd = chk.proj.func("server.handler:StaticFileHandler.handle")
    g2 = Builder(chk.proj, inline_self_methods, 3).build(hd)  # the resolution may live in a helper
    d2 = Defs(g2)
    served = None
    for n in g2.nodes:
        val = n.ast.value if n.kind == "stmt" and isinstance(n.ast, (ast.Assign, ast.Return)) else None
        if isinstance(val, ast.Call) and method_call(val) and method_call(val)[1] == "resolve":
            inner = method_call(val)[0]
            if any(dotted(x) == "self.document_root" for x in walk(inner)):
                served = path_form(d2, n, val)
                break
    if served is None:
        chk.floor("A5", "served-path resolution in the static handler", 0, 1)
    m = forms[0]
    chk.sample({"rule": "A5", "matcher": repr(m), "server": repr(served)})
    pairs = [
        ("percent-decoding", m.decoded == served.decoded, f"matcher decodes {m.decoded}x, server {served.decoded}x: `/adm%69n/x` and `/admin/x` denote {'the same' if served.decoded else 'different'} resource(s) for the server but {'different' if served.decoded else 'the same'} for the matcher"),
        ("dot-segments", m.dots or not served.dots, "the matcher sees dot segments raw while the server collapses them: `/pub/../admin/x` and `/./admin/x` are served from /admin/ but not matched by its rule"),
        ("repeated-slashes", m.slashes or not served.slashes, "the matcher sees repeated slashes raw while the server collapses them: `/admin//x` / `/pub//../admin/x`"),
        ("leading-slashes", m.leading or not served.leading, "the matcher sees leading slashes raw while the server strips them: `//admin/x` is served from /admin/ but does not start with the rule prefix"),
    ]
    for name, ok, why in pairs:
        if not ok:
            chk.finding("A5", pr.key, f"spelling:{name}", why, tests[0].where())
        chk.ob("A5", f"matcher/server agree on {name}", ok, f"matcher: {m}; server: {served}")
    # directory without trailing slash: some comparison uses `path + "/"` (or both sides rstripped)
    okd = False
    for t in tests:
        recv = method_call(t.ast)[0]
        for _dn, le in (origins(defs, t, recv) if isinstance(recv, ast.Name) else [(t, recv)]):
            if isinstance(le, _Sel):
                continue
            for x in walk(le):
                if isinstance(x, ast.BinOp) and isinstance(x.op, ast.Add) and isinstance(x.right, ast.Constant) and x.right.value == "/":
                    okd = True
        arg = t.ast.args[0]
        if isinstance(arg, ast.Call) and method_call(arg) and method_call(arg)[1] == "rstrip":
            okd = True
    if not okd:
        chk.finding("A5", pr.key, "spelling:directory-slash", "a directory requested without its trailing slash (`/admin` for the rule prefix `/admin/`) is served (index file / listing) but is not matched by the rule", tests[0].where())
    chk.ob("A5", "directory without trailing slash is matched as the directory", okd)


def _expand_simple_calls(chk: Check, fi, expr: ast.AST, depth: int = 0) -> ast.AST:
    """Replace calls of same-module helpers that consist of a single
    `return <expression>` by that expression (parameters substituted), so that
    a predicate extracted into a helper reads like the inline predicate."""
    import copy

    if depth > 3:
        return expr

    class T(ast.NodeTransformer):
        def visit_Call(self, n):  # noqa: N802
            self.generic_visit(n)
            d = dotted(n.func)
            callee = fi.module.functions.get(d) if d and "." not in d else None
            if callee is None or callee.cls is not None:
                return n
            body = [st for st in callee.node.body if not (isinstance(st, ast.Expr) and isinstance(st.value, ast.Constant))]
            if len(body) != 1 or not isinstance(body[0], ast.Return) or body[0].value is None:
                return n
            params = [a.arg for a in callee.node.args.args]
            if len(n.args) != len(params) or n.keywords:
                return n
            sub = dict(zip(params, n.args))

            class S(ast.NodeTransformer):
                def visit_Name(self, m):  # noqa: N802
                    return copy.deepcopy(sub[m.id]) if m.id in sub else m

            return _expand_simple_calls(chk, fi, S().visit(copy.deepcopy(body[0].value)), depth + 1)

    return ast.fix_missing_locations(T().visit(copy.deepcopy(expr)))


def rule_a7(chk: Check) -> None:
    chk.rule("A7", "client certificates are requested (PyOpenSSL backend selected) whenever a rule requires a certificate or has an allow-list")
    from ..cfg import Builder, inline_local

    fi = chk.proj.func("server.server:start_server")
    g = Builder(chk.proj, inline_local, 2).build(fi)
    defs = Defs(g)
    tests = [n for n in g.nodes if n.kind == "test" and not n.stack and dotted(n.ast) == "use_pyopenssl"]
    chk.require("A7", fi.key, "backend selection test", len(tests), 1, "start_server no longer selects the TLS backend on use_pyopenssl")
    if not tests:
        return
    leaves = origins(defs, tests[0], tests[0].ast)
    ok = False
    for _dn, le in leaves:
        if isinstance(le, _Sel):
            continue
        le = _expand_simple_calls(chk, fi, le)
        txt = norm(le)
        gens = [x for x in walk(le) if isinstance(x, ast.GeneratorExp)]
        for ge in gens:
            body = norm(ge.elt)
            it = norm(ge.generators[0].iter)
            if "require_cert" in body and "allowed_fingerprints is not None" in body and it.endswith("path_rules") and " or " in body:
                if "any(" in txt:
                    ok = True
    if not ok:
        chk.finding("A7", fi.key, "backend-selection", "the PyOpenSSL backend (which requests client certificates) is not selected for every rule that requires a certificate or carries an allow-list: such a rule could never be satisfied or would be enforced without any certificate being requested", tests[0].where())
    chk.ob("A7", "request_client_cert covers require_cert and allow-lists of all rules", ok)
    okc = True
    n = 0
    for c in calls(fi.node):
        if (dotted(c.func) or "").split(".")[-1] == "create_pyopenssl_server_context":
            n += 1
            v = kwarg(c, "request_client_cert") or (c.args[2] if len(c.args) > 2 else None)
            if not (isinstance(v, ast.Constant) and v.value is True):
                okc = False
                chk.finding("A7", fi.key, "pyopenssl-no-client-cert", "the PyOpenSSL context is built without request_client_cert=True", fi.loc(c))
    chk.ob("A7", "PyOpenSSL contexts request client certificates", okc, evals=max(1, n))


_RESHAPING = {"insert", "sort", "reverse", "pop", "remove", "clear", "extend", "__setitem__", "__delitem__"}


def rule_a13(chk: Check) -> None:
    """What is written is what is enforced, for the *list*: the rules handed
    to CertificateAuthConfig are one rule per configured entry, in the
    configured order.  The matcher is first-match-wins (A4), so collapsing
    entries with equal prefixes, sorting, reversing, de-duplicating or
    filtering the list changes which rule decides a path."""
    chk.rule("A13", "rule-list fidelity: path_rules given to CertificateAuthConfig is built with one element per entry of self.certificate_auth_paths, in iteration order (append in an unfiltered loop, or an unfiltered list comprehension)")
    from ..cfg import Builder, inline_local

    fi = chk.proj.func("server.config:ServerConfig.get_certificate_auth_config")
    g = Builder(chk.proj, inline_local, 3).build(fi)
    defs = Defs(g)
    sites = [(n, c) for n in g.nodes if n.ast is not None and n.kind == "stmt" for c in calls(n.ast) if (dotted(c.func) or "").split(".")[-1] == "CertificateAuthConfig"]
    chk.require("A13", fi.key, "CertificateAuthConfig construction", len(sites), 1, "the configured path rules are never handed to a CertificateAuthConfig")
    funcs = [f.node for f in chk.proj.functions.values() if f.module is fi.module]

    def owner(a):
        return next((fn for fn in funcs if any(x is a for x in ast.walk(fn))), None)

    def from_paths(e, fn) -> bool:
        """the iterable is self.certificate_auth_paths (possibly through a plain
        local copy or enumerate/list/tuple/iter), not a filtered/sorted view"""
        while isinstance(e, ast.Call) and dotted(e.func) in ("enumerate", "list", "tuple", "iter") and len(e.args) == 1 and not e.keywords:
            e = e.args[0]
        if dotted(e) == "self.certificate_auth_paths":
            return True
        if isinstance(e, ast.Name) and fn is not None:
            ds = [st.value for st in ast.walk(fn) if isinstance(st, ast.Assign) and any(isinstance(t, ast.Name) and t.id == e.id for t in st.targets)]
            return len(ds) == 1 and from_paths(ds[0], None)
        return False

    def unfiltered_comp(e, fn) -> bool:
        if isinstance(e, ast.Call) and dotted(e.func) == "list" and len(e.args) == 1 and isinstance(e.args[0], ast.GeneratorExp):
            e = e.args[0]
        return isinstance(e, (ast.ListComp, ast.GeneratorExp)) and len(e.generators) == 1 and not e.generators[0].ifs and from_paths(e.generators[0].iter, fn)

    for n, c in sites:
        arg = kwarg(c, "path_rules") or (c.args[0] if c.args else None)
        if arg is None:
            chk.ob("A13", f"{fi.key}: path_rules passed", False)
            chk.finding("A13", fi.key, "rule-list-dropped", "CertificateAuthConfig is built without the configured path rules", n.where())
            continue
        leaves = origins(defs, n, arg) if isinstance(arg, (ast.Name, ast.Call)) else [(n, arg)]
        ok, why = bool(leaves), ""
        for dn, le in leaves:
            if isinstance(le, _Sel):
                ok, why = False, repr(le)
                continue
            fn = owner(le)
            if unfiltered_comp(le, fn):
                continue
            if isinstance(le, ast.List) and not le.elts and fn is not None:
                # accumulator idiom: find the variable bound to this literal
                names = [t.id for st in ast.walk(fn) if isinstance(st, (ast.Assign, ast.AnnAssign)) and st.value is le for t in (st.targets if isinstance(st, ast.Assign) else [st.target]) if isinstance(t, ast.Name)]
                if len(names) != 1:
                    ok, why = False, "accumulator not a plain local"
                    continue
                acc = names[0]
                uses = [mc for mc in ast.walk(fn) if isinstance(mc, ast.Call) and isinstance(mc.func, ast.Attribute) and isinstance(mc.func.value, ast.Name) and mc.func.value.id == acc]
                bad = [u.func.attr for u in uses if u.func.attr in _RESHAPING]
                stores = [st for st in ast.walk(fn) if isinstance(st, (ast.Assign, ast.AugAssign, ast.Delete)) and any(isinstance(t, ast.Subscript) and isinstance(t.value, ast.Name) and t.value.id == acc for t in (st.targets if not isinstance(st, ast.AugAssign) else [st.target]))]
                rebinds = [st for st in ast.walk(fn) if isinstance(st, (ast.Assign, ast.AugAssign)) and any(isinstance(t, ast.Name) and t.id == acc for t in (st.targets if isinstance(st, ast.Assign) else [st.target])) and getattr(st, "value", None) is not le]
                appends = [u for u in uses if u.func.attr == "append"]
                loops = [lp for lp in ast.walk(fn) if isinstance(lp, ast.For) and from_paths(lp.iter, fn)]
                # each append sits directly in the body of one loop over the configured entries (not under an if / nested loop / try that could skip it)
                direct = [u for u in appends if any(any(isinstance(b, ast.Expr) and b.value is u for b in lp.body) for lp in loops)]
                skips = [x for lp in loops for x in ast.walk(lp) if isinstance(x, (ast.Continue, ast.Break))]
                if bad or stores or rebinds:
                    ok, why = False, f"`{acc}` is reshaped ({', '.join(sorted(set(bad))) or 'item store / rebinding'})"
                elif len(appends) != 1 or len(direct) != 1:
                    ok, why = False, f"`{acc}` does not receive exactly one unconditional append per configured entry"
                elif skips:
                    ok, why = False, "the loop over the configured entries can skip or stop early"
                continue
            ok, why = False, f"`{norm(le)[:60]}`"
        if not ok:
            chk.finding(
                "A13", fi.key, f"rule-list-reshaped:{why[:60]}",
                f"the rules handed to CertificateAuthConfig are not one per configured entry in the configured order ({why}): the matcher is first-match-wins, so entries that are merged, dropped, de-duplicated or reordered let another rule than the first written one decide a path - a later, laxer entry for the same prefix replaces the stricter first one",
                n.where(),
            )
        chk.ob("A13", f"{fi.key}: path_rules is the configured list, entry by entry", ok)


def run(chk: Check) -> None:
    rule_a1(chk)
    rule_a13(chk)
    rule_a2(chk)
    rule_a3(chk)
    rule_a4(chk)
    rule_a5(chk)
    rule_a7(chk)
    from .c04 import rule_m1c, rule_m3p

    rule_m3p(chk, "A9")
    from .common import reuse

    reuse(chk, rule_m1c, "A10", "a configured chain (and with it the certificate rules) is never skipped because the chain object is falsy (= C04.M1c)", ("M1c",))
    from .c03 import fingerprint_definition

    chk.rule("A8", "the fingerprint compared with a rule's allow-list is a pure function of the presented certificate: sha256 over its DER encoding, no state between calls (= C03.T4)")
    fingerprint_definition(chk, "A8")
    from .c19 import wire_fidelity

    wire_fidelity(chk, "A6", "the URL handed to the middleware carries exactly the path the handler acts on: normalised string and ParsedURL fields are built from the same components (= C19.N1-N3)")
    from .common import config_fields_carrier, config_presence_tests

    config_fields_carrier(chk, "A11", ("certificate_auth_", "require_client_cert"), "certificate rules", "a protected prefix is served under another rule than the one written in the configuration")
    config_presence_tests(chk, "A12", ("CertificateAuthConfig",))
    chk.trusted = ["CPython ast parser", "engine CFG / abstract evaluator / path-form catalogue", "pathlib.resolve, posixpath.normpath, urllib.parse.unquote semantics"]
    chk.assumptions = ["fingerprint provenance is decided under C04.M3", "a canonicalisation written with an idiom outside the path-form catalogue would be reported although correct (stated residual risk)"]
