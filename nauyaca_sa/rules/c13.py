"""C13 - Client calls always terminate with a faithful response or a clear error.

  E1 connection_lost is total on the response future: every path resolves it
     (or finds it done), and every call whose raise-set is non-empty - the
     catalogue is tiny and exact: bytes.decode(<literal utf-8>) ->
     {UnicodeDecodeError}; bytes.decode(<non-literal codec>) ->
     {UnicodeDecodeError, LookupError}; int(str) -> {ValueError} - sits in a
     try whose handlers cover that set and resolve the future
  E2 status/body decision table: status outside 10..69 -> error; 20..29 -> body
     present; other in-range -> body None (abstract evaluation)
  E3 the size cap: every exit of data_received has closed the transport or
     passed the comparison with MAX_RESPONSE_BODY_SIZE, whose true branch sets
     an error and closes; the constant is finite
  E4 every wait in the session is bounded by wait_for(..., timeout) and the
     transport is closed on every exit
  E5 the two client protocols agree (data_received, _parse_header,
     connection_lost, _set_error) modulo url/titan_url and transport guards
  E6 chunk non-interference in both data_received methods (= C07.S3)
Not decided: promptness after peer close (asyncio EOF handling), codec tables.
"""

from __future__ import annotations

import ast

from ..astutil import calls, dotted, is_self_attr, kwarg, method_call, norm, walk
from ..cfg import ExcLattice, build_cfg, handler_types
from ..paths import normal_only
from ..report import Check
from ..strdom import TOP, BoolV, Interp, IntV, NoneV, ObjV, StrV, lit

EXPLANATION = (
    "Static necessary conditions of C13. (E1) in connection_lost of both client protocols: "
    "every normal path from entry to exit passes response_future.done() -> return or a "
    "set_result/set_exception; every catalogue call (decode with a non-literal codec raises "
    "UnicodeDecodeError or LookupError; decode('utf-8') UnicodeDecodeError; int() ValueError) "
    "has handlers covering its whole raise-set, each of which resolves the future. (E2) "
    "_parse_header evaluated abstractly for status samples 5, 9, 10, 20, 29, 30, 69, 70, 99 sets "
    "an error exactly outside 10..69; connection_lost builds the response with a body exactly "
    "for 20..29. (E3) all exits of data_received close or pass the size-cap comparison whose "
    "true edge reports an error and closes; MAX_RESPONSE_BODY_SIZE is a finite positive "
    "constant. (E4) create_connection and the response future are awaited only inside "
    "asyncio.wait_for(..., timeout=self.timeout); from a successful connection every path to "
    "any exit closes the transport. (E5/E6) sibling agreement and chunk non-interference. "
    "(E1b) connection_lost evaluated abstractly with exc set, or a clean close before any header, ends in set_exception on every feasible path. (E6) The C07.S3 segmentation rule set on both client data_received methods, including limit consistency between unterminated buffer and complete line. "
    "(E1, ctors) a package constructor's raise-set is what its __init__/__post_init__ raises. "
    "(E2, type) the receive buffer is an immutable bytes value (a binary body is handed out as bytes)."
    " (E8) LocationConfig.from_dict, run abstractly for a table without a `timeout` key, passes a number (never None) as timeout on every feasible path: the wait_for bound of E4 exists. (E9) the client's match of a parameter name against 'charset' sits in a loop / comprehension over all `;`-separated parameters. (E10) the status token reaches int() only behind an ASCII-digit test (re.fullmatch on a digit class, or isascii() and isdigit()); E2 is evaluated on exact header samples, including malformed tokens that int() alone reads as 20."
    " (E11) stateless client (see C11.F6): no shared 'current transport' slot that overlapping fetches close for each other."
)

PROTOS = ["client.protocol:GeminiClientProtocol", "client.protocol:TitanClientProtocol"]
RESOLVE = {"set_result", "set_exception"}


def _raise_set(c: ast.Call, proj=None) -> set[str]:
    mc = method_call(c)
    if proj is not None and mc is None:
        # construction of a package class whose __init__ / __post_init__ validates and raises
        cname = (dotted(c.func) or "").split(".")[-1]
        if cname[:1].isupper():
            out = set()
            for ci in proj.classes.values():
                if ci.name != cname:
                    continue
                for mn in ("__init__", "__post_init__"):
                    m = ci.methods.get(mn)
                    if m is None:
                        continue
                    for r in walk(m.node):
                        if isinstance(r, ast.Raise) and r.exc is not None:
                            e = r.exc.func if isinstance(r.exc, ast.Call) else r.exc
                            out.add((dotted(e) or "Exception").split(".")[-1])
            if out:
                return out
    if mc and mc[1] == "decode":
        enc = c.args[0] if c.args else kwarg(c, "encoding")
        errs = c.args[1] if len(c.args) > 1 else kwarg(c, "errors")
        out = set()
        if errs is None or (isinstance(errs, ast.Constant) and errs.value == "strict"):
            out.add("UnicodeDecodeError")
        if enc is not None and not isinstance(enc, ast.Constant):
            # a codec name chosen by the peer: unknown name -> LookupError; a name with an
            # embedded NUL -> ValueError; codecs such as "undefined" raise plain UnicodeError
            out |= {"LookupError", "ValueError", "UnicodeError"}
        return out
    if dotted(c.func) == "int" and c.args and not isinstance(c.args[0], ast.Constant):
        return {"ValueError"}
    return set()


def rule_e1(chk: Check) -> None:
    chk.rule("E1", "connection_lost resolves the response future on every path; handlers cover the whole raise-set of decode/int calls and resolve the future")
    lat = ExcLattice(chk.proj)
    for key in PROTOS:
        ci = chk.proj.cls(key)
        fi = ci.methods.get("connection_lost")
        if fi is None:
            chk.require("E1", key, "connection_lost", 0, 1, "the protocol has no connection_lost: the caller is never told that the connection ended")
            continue
        g = build_cfg(chk.proj, fi)
        res_nodes = {n.id for n in g.nodes if n.ast is not None and n.kind == "stmt" and any(method_call(c) and method_call(c)[1] in RESOLVE and "future" in norm(method_call(c)[0]) for c in calls(n.ast))}
        # also through self._set_error(...)
        res_nodes |= {n.id for n in g.nodes if n.ast is not None and n.kind == "stmt" and any(dotted(c.func) == "self._set_error" for c in calls(n.ast))}
        done_tests = [n for n in g.nodes if n.kind == "test" and isinstance(n.ast, ast.Call) and method_call(n.ast) and method_call(n.ast)[1] == "done"]
        blocked_e = {(t.id, b, lab) for t in done_tests for b, lab in g.succ[t.id] if lab == "T"}
        par = g.reach([g.entry.id], blocked_nodes=res_nodes, blocked_edges=blocked_e, follow=normal_only)
        ok = g.exit.id not in par
        if not ok:
            chk.finding("E1", fi.key, "unresolved-exit", "connection_lost can return without resolving the response future: the caller waits until the timeout", fi.loc(), g.fmt_path(g.path_to(par, g.exit.id)))
        chk.ob("E1", f"{fi.key}: every normal path resolves the future", ok, evals=2)
        n_cat = 0
        for n in g.nodes:
            if n.ast is None or n.kind not in ("stmt", "test"):
                continue
            for c in calls(n.ast):
                rs = _raise_set(c, chk.proj)
                if not rs:
                    continue
                n_cat += 1
                hs = [g.nodes[b] for b, lab in g.succ[n.id] if lab == "exc" and g.nodes[b].kind == "handler"]
                caught = set()
                for r in rs:
                    for h in hs:
                        if any(lat.is_sub(r, t, fi.module) is True for t in handler_types(h.ast)):
                            caught.add(r)
                missing = rs - caught
                okc = not missing
                for h in hs:
                    p2 = g.reach([h.id], blocked_nodes=res_nodes)
                    if g.exit.id in p2:
                        okc = False
                        chk.finding("E1", fi.key, f"handler-does-not-resolve:{norm(h.ast.type) if h.ast.type else 'bare'}", "an exception handler in connection_lost returns without resolving the future", h.where())
                if missing:
                    chk.finding(
                        "E1", fi.key, f"uncaught:{'+'.join(sorted(missing))}@{norm(c)[:40]}",
                        f"`{norm(c)}` can raise {sorted(missing)} (e.g. an unknown charset label in the meta), which no handler covers: the exception leaves the callback, the future is never resolved and the caller hangs until the timeout",
                        n.where(),
                    )
                chk.ob("E1", f"{fi.key}: `{norm(c)[:40]}` raise-set {sorted(rs)} covered", okc)
        chk.require("E1", fi.key, "decode of the body", n_cat, 1, "connection_lost no longer decodes text bodies with the declared charset")


def rule_e1b(chk: Check, R: str = "E1b", keys=None) -> None:
    chk.rule(R, "a connection that ended with an error (exc is set), or that closed before any header, never yields a response: every feasible path of connection_lost then sets an exception, whatever was buffered")
    for key in keys or PROTOS:
        ci = chk.proj.cls(key)
        fi = ci.methods.get("connection_lost")
        if fi is None:
            continue
        g = build_cfg(chk.proj, fi)
        excp = [p for p in fi.params if p != "self"][0]
        for err, hdr in ((True, True), (True, False), (False, False)):
            interp = Interp(chk.proj, fi)
            interp.oracle = {"self.status": IntV(20, 20) if hdr else NoneV(), "self.meta": lit("text/plain") if hdr else NoneV(), "self.header_received": BoolV(hdr), "self.buffer": StrV("bytes", maxb=10)}
            interp.call_oracle = lambda c: BoolV(False) if method_call(c) and method_call(c)[1] == "done" else None
            watch = lambda n: [ast.Constant(value=0)] if n.ast is not None and n.kind == "stmt" and any(method_call(c) and method_call(c)[1] in ("set_result", "set_exception") for c in calls(n.ast)) else []  # noqa: E731
            res = interp.run_paths(g, watch, {excp: ObjV("error") if err else NoneV()})
            kinds = set()
            for path, (st, recs) in res:
                if path[-1][0].kind != "exit":
                    continue
                k = tuple(sorted({method_call(c)[1] for node, _v, _s in recs for c in calls(node.ast) if method_call(c) and method_call(c)[1] in ("set_result", "set_exception")}))
                kinds.add(k)
            ok = kinds == {("set_exception",)}
            case = f"exc={'error' if err else 'None'},header_received={hdr}"
            if not ok:
                what = "a reset in the middle of the body is reported as a complete, successful response with a truncated body" if hdr else "a connection that ended before any header is not reported as an error"
                chk.finding(
                    R, fi.key, f"error-yields-response:{case}",
                    f"when the connection ends with {case}, connection_lost can finish with {sorted(kinds)}: {what}",
                    fi.loc(),
                )
            chk.ob(R, f"{fi.key}: {case} -> exception", ok, evals=max(1, len(res)))


def rule_e2(chk: Check) -> None:
    chk.rule("E2", "status outside 10..69 -> error; body present exactly for 20..29")
    for key in PROTOS:
        ci = chk.proj.cls(key)
        ph = ci.methods.get("_parse_header")
        cl = ci.methods.get("connection_lost")
        if ph is None or cl is None:
            continue
        g = build_cfg(chk.proj, ph)
        hparam = next((p_ for p_ in ph.params if p_ != "self"), None)
        samples = [(f"{k:02d} text/plain", k, not (10 <= k <= 69)) for k in (5, 9, 10, 20, 29, 30, 69, 70, 99)]
        # malformed status tokens that int() alone reads as 20 (library fact): always an error
        samples += [(t + " text/plain", 20, True) for t in ("2_0", "+20", "020", "\t20")]
        for header, k, want in samples:
            interp = Interp(chk.proj, ph)

            def _oracle(c, _k=k, _i=interp):
                # a status conversion the evaluator cannot fold from the sample header
                # (unusual way of cutting the token) still yields the sample's status
                if dotted(c.func) == "int" and c.args:
                    v = _i.eval(c.args[0], {})
                    if not (isinstance(v, StrV) and v.exact is not None):
                        return IntV(_k, _k)
                return None

            interp.call_oracle = _oracle
            res = interp.run_paths(g, lambda n: [ast.Constant(value=0)] if n.ast is not None and n.kind == "stmt" and any(dotted(c.func) == "self._set_error" for c in calls(n.ast)) else [], {hparam: lit(header)} if hparam else {})
            errs = set()
            for path, (st, recs) in res:
                if path[-1][0].kind == "exit":
                    errs.add(bool(recs))
            ok = errs == {want}
            tag = k if header[:2].isdigit() and header[2] == " " else header.split(" ")[0].encode("unicode_escape").decode()
            if not ok:
                chk.finding("E2", ph.key, f"status-range:{tag}", f"for the header {header!r} _parse_header {'does not report' if want else 'reports'} an error (observed error on paths: {sorted(errs)})", ph.loc())
            chk.ob("E2", f"{ph.key}: header {header!r} -> {'error' if want else 'accepted'}", ok, evals=max(1, len(res)))
        g2 = build_cfg(chk.proj, cl)
        ctor = [n for n in g2.nodes if n.ast is not None and n.kind == "stmt" and any((dotted(c.func) or "").split(".")[-1] == "GeminiResponse" for c in calls(n.ast))]
        chk.require("E2", cl.key, "GeminiResponse construction", len(ctor), 1, "connection_lost builds no response")
        for k in (10, 20, 29, 30, 51, 69):
            interp = Interp(chk.proj, cl)
            interp.oracle = {"self.status": IntV(k, k), "self.meta": lit("text/plain"), "self.header_received": BoolV(True), "self.buffer": StrV("bytes", maxb=10), "exc": NoneV()}
            interp.call_oracle = lambda c: BoolV(False) if method_call(c) and method_call(c)[1] == "done" else None
            watch = lambda n: [kwarg(c, "body") for c in calls(n.ast) if (dotted(c.func) or "").split(".")[-1] == "GeminiResponse" and kwarg(c, "body") is not None] if n.ast is not None and n.kind == "stmt" else []  # noqa: E731
            res = interp.run_paths(g2, watch, {"exc": NoneV()})
            got = set()
            for path, (st, recs) in res:
                if path[-1][0].kind != "exit":
                    continue
                for node, vals, _ in recs:
                    got.add("none" if isinstance(vals[0], NoneV) else "body")
            want = {"body"} if 20 <= k <= 29 else {"none"}
            ok = got == want
            if not ok:
                chk.finding("E2", cl.key, f"body-table:{k}", f"for status {k} the response is built with body {sorted(got)}, expected {sorted(want)}", cl.loc())
            chk.ob("E2", f"{cl.key}: status {k} -> body {sorted(want)}", ok, evals=max(1, len(res)))
        # body value = bytes after the header, unsliced
        srcs = set()
        for st in walk(cl.node):
            if isinstance(st, ast.Assign) and dotted(st.targets[0]) == "body" and not isinstance(st.value, ast.Constant):
                srcs.add(norm(st.value))
        okb = bool(srcs) and all(s in ("self.buffer", "self.buffer.decode(charset)") or s.startswith("self.buffer.decode(") for s in srcs)
        # ... and the buffer is an immutable `bytes` value: the binary body is handed out as
        # it is, and consumers (the proxy relay, the server's response sink) test for `bytes`
        ci_ = cl.cls
        for m_ in (ci_.methods.values() if ci_ else []):
            for st in walk(m_.node):
                if isinstance(st, (ast.Assign, ast.AnnAssign)) and st.value is not None and any(is_self_attr(t, "buffer") for t in (st.targets if isinstance(st, ast.Assign) else [st.target])):
                    v = st.value
                    if isinstance(v, ast.Call) and (dotted(v.func) or "") in ("bytearray", "memoryview", "list", "io.BytesIO"):
                        okb = False
                        chk.finding("E2", m_.key, f"body-type:{norm(v)[:30]}", f"the receive buffer is a `{dotted(v.func)}`; a binary body is returned as that object, not as `bytes`: the reverse proxy hands it to the server's response sink, which only knows str and bytes and answers 40 instead of relaying the body", m_.loc(st))
        if not okb:
            chk.finding("E2", cl.key, f"body-source:{sorted(srcs)}", "the response body is not exactly the bytes received after the header (decoded with the declared charset for text)", cl.loc())
        chk.ob("E2", f"{cl.key}: body = buffer [decoded]", okb)


def rule_e3(chk: Check) -> None:
    chk.rule("E3", "every exit of data_received closed the transport or passed the size-cap comparison; its true edge reports an error and closes; the cap is finite")
    cm = chk.proj.module("protocol.constants")
    cap = chk.proj.const_value(cm, "MAX_RESPONSE_BODY_SIZE")
    ok = isinstance(cap, int) and 0 < cap < 2**40
    if not ok:
        chk.finding("E3", "protocol.constants:MAX_RESPONSE_BODY_SIZE", "cap-value", f"the response size cap is {cap!r}, not a finite positive integer", cm.relpath)
    chk.ob("E3", f"MAX_RESPONSE_BODY_SIZE = {cap!r} is finite", ok)
    for key in PROTOS:
        fi = chk.proj.cls(key).methods.get("data_received")
        if fi is None:
            continue
        from ..cfg import Builder, inline_local

        g = Builder(chk.proj, inline_local, 3).build(fi)
        caps = [n for n in g.nodes if n.kind == "test" and n.ast is not None and any(isinstance(x, ast.Name) and x.id == "MAX_RESPONSE_BODY_SIZE" for x in walk(n.ast))]
        closes = {n.id for n in g.nodes if n.ast is not None and n.kind == "stmt" and any(method_call(c) and method_call(c)[1] in ("close", "abort") and "transport" in norm(method_call(c)[0]) for c in calls(n.ast))}
        if not chk.require("E3", fi.key, "size-cap comparison", len(caps), 1, "the received data is never compared with the size cap: a server that keeps sending exhausts memory"):
            continue
        # `if self.transport:` guards: nothing to close when there is no transport
        tguards = {(t.id, b, lab) for t in g.nodes if t.kind == "test" and dotted(t.ast) == "self.transport" for b, lab in g.succ[t.id] if lab == "F"}
        par = g.reach([g.entry.id], blocked_nodes=closes | {c.id for c in caps}, blocked_edges=tguards, follow=normal_only)
        ok = g.exit.id not in par
        # the compared quantity is the buffer length with > / >=
        for c in caps:
            # which edge means "over the cap": `len(buf) > CAP` -> T, `len(buf) <= CAP` -> F,
            # `CAP < len(buf)` -> T, `CAP >= len(buf)` -> F
            over = None
            a = c.ast
            if isinstance(a, ast.Compare) and len(a.ops) == 1:
                l_is_len = "len(self.buffer)" in norm(a.left)
                r_is_len = "len(self.buffer)" in norm(a.comparators[0])
                op = a.ops[0]
                if l_is_len and not r_is_len:
                    over = "T" if isinstance(op, (ast.Gt, ast.GtE)) else ("F" if isinstance(op, (ast.Lt, ast.LtE)) else None)
                elif r_is_len and not l_is_len:
                    over = "T" if isinstance(op, (ast.Lt, ast.LtE)) else ("F" if isinstance(op, (ast.Gt, ast.GtE)) else None)
            if over is None:
                ok = False
            ts = [b for b, lab in g.succ[c.id] if lab == (over or "T")]
            p2 = g.reach(ts, blocked_nodes=closes, blocked_edges=tguards, follow=normal_only)
            if g.exit.id in p2:
                ok = False
            errs = {n.id for n in g.nodes if n.ast is not None and n.kind == "stmt" and any(dotted(cc.func) == "self._set_error" or (method_call(cc) and method_call(cc)[1] == "set_exception") for cc in calls(n.ast))}
            p3 = g.reach(ts, blocked_nodes=errs, follow=normal_only)
            if g.exit.id in p3:
                ok = False
        if not ok:
            chk.finding("E3", fi.key, "cap-not-enforced", "data_received can return with an open transport without having checked the size cap, or exceeding the cap does not both report an error and close", fi.loc())
        chk.ob("E3", f"{fi.key}: cap enforced on every exit", ok, evals=3)


def _bounded_await(chk: Check, ci, v: ast.AST, depth: int) -> bool:
    """`await v` completes within self.timeout: v is asyncio.wait_for(...,
    timeout=self.timeout), or a call of a helper method of the class all of
    whose awaits are bounded in that sense and none of which sits in a loop
    (a loop of bounded waits is not bounded)."""
    if not isinstance(v, ast.Call) or depth > 3:
        return False
    if (dotted(v.func) or "").endswith("wait_for"):
        t = kwarg(v, "timeout") or (v.args[1] if len(v.args) > 1 else None)
        return t is not None and dotted(t) == "self.timeout"
    d = dotted(v.func) or ""
    if d.startswith("self."):
        h = chk.proj.find_method(ci, d[5:])
        if h is None:
            return False
        aws = [x for x in walk(h.node) if isinstance(x, ast.Await)]
        in_loop = any(isinstance(l, (ast.While, ast.For, ast.AsyncFor)) and any(isinstance(x, ast.Await) for x in walk(l)) for l in walk(h.node))
        return bool(aws) and not in_loop and all(_bounded_await(chk, ci, a.value, depth + 1) for a in aws)
    return False


def rule_e4(chk: Check) -> None:
    chk.rule("E4", "create_connection and the response future are awaited only inside asyncio.wait_for(..., timeout=self.timeout); the transport is closed on every exit after a successful connection")
    ci = chk.proj.cls("client.session:GeminiClient")
    n = 0
    for fi in ci.methods.values():
        has_conn = any(isinstance(c, ast.Call) and method_call(c) and method_call(c)[1] == "create_connection" for c in ast.walk(fi.node))
        if not has_conn:
            continue
        # functions nested in the method (e.g. a local connect() helper) are part of it
        nested = {fd.name: fd for fd in ast.walk(fi.node) if isinstance(fd, (ast.FunctionDef, ast.AsyncFunctionDef)) and fd is not fi.node}
        for aw in [x for x in ast.walk(fi.node) if isinstance(x, ast.Await)]:
            txt = norm(aw.value)
            calls_nested = isinstance(aw.value, ast.Call) and isinstance(aw.value.func, ast.Name) and aw.value.func.id in nested and "create_connection" in norm(nested[aw.value.func.id])
            if "create_connection" in txt or "response_future" in txt or calls_nested:
                n += 1
                if calls_nested:
                    fd = nested[aw.value.func.id]
                    inner = [x for x in ast.walk(fd) if isinstance(x, ast.Await)]
                    in_loop = any(isinstance(l, (ast.While, ast.For, ast.AsyncFor)) and any(isinstance(x, ast.Await) for x in ast.walk(l)) for l in ast.walk(fd))
                    ok = bool(inner) and not in_loop and all(_bounded_await(chk, ci, a.value, 1) for a in inner)
                else:
                    ok = _bounded_await(chk, ci, aw.value, 0)
                if not ok:
                    chk.finding("E4", fi.key, f"unbounded-wait:{txt[:40]}", f"`await {txt[:60]}` is not bounded by asyncio.wait_for(..., timeout=self.timeout): a server that never finishes holds the call for ever", fi.loc(aw))
                chk.ob("E4", f"{fi.key}: `{txt[:40]}` bounded", ok)
        g = build_cfg(chk.proj, fi)
        from .c03 import _conn_nodes

        conn = _conn_nodes(g)  # also a call of a nested helper that opens the connection
        closes = {x.id for x in g.nodes if x.ast is not None and x.kind == "stmt" and any(method_call(c) and method_call(c)[1] == "close" and dotted(method_call(c)[0]) == "transport" for c in calls(x.ast))}
        starts = [b for c in conn for b, lab in g.succ[c.id] if lab not in ("exc", "raise")]
        par = g.reach(starts, blocked_nodes=closes)
        ok = bool(closes) and g.exit.id not in par and g.raise_exit.id not in par
        if not ok:
            which = g.exit.id if g.exit.id in par else g.raise_exit.id
            chk.finding("E4", fi.key, "transport-leak", "after a successful connection there is an exit (normal or exceptional) on which the transport is not closed", fi.loc(), g.fmt_path(g.path_to(par, which)) if which in par else [])
        chk.ob("E4", f"{fi.key}: transport closed on every exit", ok, evals=2)
    chk.require("E4", ci.key, "awaits on connection/future", n, 2, "the client no longer awaits the connection and the response")


def rule_e8(chk: Check, R: str = "E8") -> None:
    """The bound of E4 is `self.timeout`: it bounds nothing when it is None
    (asyncio.wait_for(x, None) waits for ever).  The library's own long-lived
    caller, the reverse proxy, takes it from the location table: a location
    without a `timeout` key must still get a number."""
    from ..strdom import NoneV
    from .common import absent_key_values

    chk.rule(R, "a proxy location without a `timeout` key still bounds its upstream fetch: LocationConfig.from_dict passes a number (not None) as timeout on every path with the key absent, and the dataclass default is a number")
    ci = chk.proj.cls("server.location:LocationConfig")
    fd = ci.methods.get("from_dict")
    if fd is None:
        chk.floor(R, "LocationConfig.from_dict", 0, 1)
    vals = absent_key_values(chk, fd, "timeout", ("cls", "LocationConfig"), "timeout")
    fixes_none = any(
        isinstance(st, (ast.Assign, ast.AnnAssign)) and any(dotted(t) == "self.timeout" for t in (st.targets if isinstance(st, ast.Assign) else [st.target]))
        for nm_, m in ci.methods.items() if nm_ == "__post_init__" for st in walk(m.node)
    )
    bad = [(v, n) for v, n in vals if isinstance(v, NoneV)]
    ok = not bad or fixes_none
    if not ok:
        chk.finding(
            R, fd.key, "timeout-absent-none",
            "for a location table without a `timeout` key from_dict passes timeout=None: the proxy's client then awaits the connection and the response with asyncio.wait_for(..., timeout=None), i.e. without any bound - an upstream that never finishes holds the call (and the downstream client) for ever",
            bad[0][1].where(),
        )
    chk.ob(R, f"{fd.key}: timeout is a number when the key is absent", ok, f"{len(vals)} feasible constructor calls", evals=max(1, len(vals)))
    # the field default (used when from_dict passes nothing)
    if not vals:
        dflt = next((st.value for st in ci.node.body if isinstance(st, ast.AnnAssign) and dotted(st.target) == "timeout"), None)
        okd = dflt is not None and not (isinstance(dflt, ast.Constant) and dflt.value is None)
        if not okd:
            chk.finding(R, ci.key, "timeout-default-none", "LocationConfig.timeout has no numeric default and from_dict does not pass one: the upstream fetch is unbounded", ci.node.lineno and f"{ci.module.relpath}:{ci.node.lineno}")
        chk.ob(R, f"{ci.key}: timeout field default is a number", okd)


def rule_e10(chk: Check, R: str = "E10") -> None:
    """'Status in 10-69' is a statement about the two digits the server sent.
    int() also reads '2_0', '+20', '\\t20', '020' and non-ASCII digits as 20: a
    malformed header would be delivered as a success."""
    from .common import strict_int_guarded

    chk.rule(R, "the status token is tested to consist of ASCII digits before int(): a header whose status is not two digits ('2_0', '+20', '020', non-ASCII digits) is an error, not a 20")
    cp = chk.proj.module("client.protocol")
    n_sites = 0
    for ci in cp.classes.values():
        for m in ci.methods.values():
            ints = [c for c in calls(m.node) if dotted(c.func) == "int" and c.args and not isinstance(c.args[0], ast.Constant)]
            if not ints:
                continue
            g = build_cfg(chk.proj, m)
            for ic in ints:
                node = next((x for x in g.nodes if x.ast is not None and x.kind in ("stmt", "test") and any(c is ic for c in calls(x.ast))), None)
                if node is None:
                    continue
                n_sites += 1
                ok = strict_int_guarded(g, node, ic)
                if not ok:
                    chk.finding(
                        R, m.key, f"status-int-lenient:{norm(ic)[:40]}",
                        f"`{norm(ic)}` parses the status token with int() alone, which also accepts '2_0', '+20', a leading TAB, '020' and non-ASCII digits: a header that is not `<two digits> <meta>` is delivered as a response with status 20 instead of an error (the reverse proxy relays it instead of answering 43)",
                        node.where(),
                    )
                chk.ob(R, f"{m.key}: `{norm(ic)[:40]}` behind an ASCII-digit test", ok)
    chk.require(R, "client.protocol", "int() conversions of header text", n_sites, 1, "the status is no longer converted with int(): rule anchor lost")


def _canon(fn: ast.AST) -> str:
    body = [s for s in fn.body if not (isinstance(s, ast.Expr) and isinstance(s.value, ast.Constant))]
    s = norm(ast.Module(body=body, type_ignores=[]))
    s = s.replace("self.titan_url", "self.url")
    return s


def _strip_guards(fn: ast.AST) -> ast.AST:
    """`if self.transport: self.transport.close()` == `self.transport.close()`"""
    import copy

    fn = copy.deepcopy(fn)

    class T(ast.NodeTransformer):
        def visit_If(self, node):  # noqa: N802
            self.generic_visit(node)
            if dotted(node.test) == "self.transport" and not node.orelse and len(node.body) == 1:
                return node.body
            return node

    return T().visit(fn)


def rule_e5_e6(chk: Check) -> None:
    chk.rule("E5", "advisory sibling comparison of the two client protocols (never a finding: E1-E3 and E6 run on each class)")
    a, b = (chk.proj.cls(k) for k in PROTOS)
    for name in ("data_received", "_parse_header", "connection_lost", "_set_error"):
        fa, fb = a.methods.get(name), b.methods.get(name)
        if fa is None or fb is None:
            chk.note(f"E5 (advisory): only one of the client protocols implements {name}")
            continue
        sa, sb = _canon(_strip_guards(fa.node)), _canon(_strip_guards(fb.node))
        ok = sa == sb
        if not ok:
            chk.note(f"E5 (advisory, not a verdict): {name} differs textually between the Gemini and the Titan client protocol; E1-E3/E6 decide each on its own")
        chk.ob("E5", f"{name} compared (advisory)", True, "agree" if ok else "DIFFER", nontrivial=False)
    chk.rule("E6", "the chunk parameter of both client data_received methods only extends the buffer; nothing is read before the append; limits on an unterminated buffer leave room for a pending terminator")
    from .c07 import segmentation_rules

    for key in PROTOS:
        fi = chk.proj.cls(key).methods.get("data_received")
        if fi is not None:
            segmentation_rules(chk, "E6", fi)


def rule_e7(chk: Check) -> None:
    chk.rule("E7", "eof_received returns a falsy value (or is not overridden), so a peer's half-close closes the connection and connection_lost resolves the future promptly")
    for key in PROTOS:
        ci = chk.proj.cls(key)
        fi = ci.methods.get("eof_received")
        if fi is None:
            chk.ob("E7", f"{key}: eof_received not overridden (asyncio default closes)", True, nontrivial=False)
            continue
        rets = [r for r in walk(fi.node) if isinstance(r, ast.Return)]
        ok = all(r.value is None or (isinstance(r.value, ast.Constant) and not r.value.value) for r in rets)
        if not ok:
            chk.finding("E7", fi.key, "keeps-half-closed-connection", "eof_received returns a truthy value: after the server has finished and half-closed, the transport stays open and the call only ends at the timeout", fi.loc())
        chk.ob("E7", f"{fi.key}: returns falsy", ok, evals=max(1, len(rets)))


def run(chk: Check) -> None:
    rule_e7(chk)
    rule_e1(chk)
    rule_e1b(chk)
    rule_e2(chk)
    rule_e3(chk)
    rule_e4(chk)
    rule_e5_e6(chk)
    rule_e8(chk)
    rule_e10(chk)
    from .c18 import charset_scan_covers_all

    _cp = chk.proj.module("client.protocol")
    charset_scan_covers_all(chk, "E9", [("client.protocol", list(_cp.functions.values()) + [m for c in _cp.classes.values() for m in c.methods.values()])], "a text body is decoded as UTF-8 although the meta declares another charset")
    from .common import client_stateless

    client_stateless(chk, "E11", "overlapping fetches on one client share the slot: the fetch that finishes first closes the other one's transport, which then returns a truncated body as a success")
    chk.trusted = ["CPython ast parser", "engine CFG / abstract evaluator / builtin exception hierarchy", "asyncio calls connection_lost exactly once after the peer closed or after transport.close()"]
    chk.assumptions = ["exceptions outside the three-entry raise-set catalogue are not modelled", "promptness of EOF delivery by asyncio is trusted"]
