"""C07 - Outcome independent of read segmentation; handlers run at most once.

  S1 dispatch-once: over every sequence of activations of the protocol's entry
     points at most one handler / upload-handler invocation occurs (abstract
     machine over the class's own CFG)
  S2 the Titan content slices are ``buffer[:size]`` at every site; the Gemini
     path never reads the buffer after the request line was split off
  S3 chunk non-interference: the ``data`` parameter of every data_received
     flows only into the buffer append; no read counter
  S4 the PyOpenSSL pump hands over everything it decrypts, including data
     coalesced with the last handshake flight
Not decided: TLS record reassembly inside OpenSSL; byte equality of responses.
"""

from __future__ import annotations

import ast

from ..astutil import calls, dotted, is_self_attr, method_call, norm, walk
from ..cfg import Builder, build_cfg, inline_self_methods
from ..paths import BoolFacts, boolfacts_step, normal_only, walk_paths
from ..report import Check
from .common import SERVER_PROTO, TLS_PROTO, machine_findings, machine_floor, nodes_calling

EXPLANATION = (
    "Static necessary conditions of C07: (S1) an abstract state machine derived from the "
    "server protocol class's inlined CFG explores every sequence of data_received / timer / "
    "done-callback / connection_lost activations (latch facts on self.* carried between "
    "activations, contradictory branches pruned) and reports any sequence with a second "
    "handler or upload-handler dispatch; (S2) every assignment of the Titan content is the "
    "slice buffer[:size] and nothing on the Gemini path reads the buffer after the split; "
    "(S3) in all three data_received methods the chunk parameter is used only to extend the "
    "buffer and no self attribute is used as a read counter; (S4) in the PyOpenSSL pump, "
    "handshake completion is followed on every path by a drain of already-decrypted data and "
    "every recv() result reaches the inner protocol. TLS record reassembly and byte equality "
    "of responses across segmentations are not decided. "
    "(S3, search-start) a separator search start kept on self is 0 or len(buffer)-k with k >= len(separator)-1 at every assignment. (S4, drain) after a non-empty recv() every normal path of the pump calls recv() again before returning. "
    "(S4, parked) every recv() result is bound and handed to the inner protocol before the next engine call."
    ' (S5) connection_lost resets no attribute that is the receiver or an argument of a handler / upload-handler dispatch: a pending done-callback still finds what it hands to the handler.'
    ' (S6) = C15.X2 on every dispatch path. (S7) = C14.U10: request parsers are not memoised.'
)


def rule_s1(chk: Check) -> None:
    chk.rule("S1", "at most one handler/upload-handler dispatch over any activation sequence of the protocol (machine)")
    mach = machine_findings(chk, "S1", {"double-dispatch", "double-consult"}, "at most one dispatch and one chain consultation over all activation sequences")
    machine_floor(chk, "S1", mach, dispatch=2)


def rule_s2(chk: Check) -> None:
    chk.rule("S2", "Titan content is buffer[:size] at every assignment site; Gemini path does not read the buffer after the split")
    ci = chk.proj.cls(SERVER_PROTO)
    sites = []
    for fi in ci.methods.values():
        # local aliases of request objects held on self: `request = self.titan_request`
        alias: dict[str, str] = {}
        for st in walk(fi.node):
            if isinstance(st, ast.Assign) and len(st.targets) == 1 and isinstance(st.targets[0], ast.Name) and (dotted(st.value) or "").startswith("self."):
                nm = st.targets[0].id
                alias[nm] = "?" if nm in alias else dotted(st.value)
        # parameters that every call site in the class binds to the same `self.X`
        params = [p for p in fi.params if p != "self"]
        for idx, pn in enumerate(params):
            bound = set()
            for other in ci.methods.values():
                for c in calls(other.node):
                    if dotted(c.func) == f"self.{fi.node.name}":
                        a = c.args[idx] if idx < len(c.args) else next((k.value for k in c.keywords if k.arg == pn), None)
                        d_ = dotted(a) if a is not None else None
                        if isinstance(a, ast.Name):
                            # a local the caller also stores on self (`self.x = local`) is that attribute
                            tgt = {dotted(t) for st in walk(other.node) if isinstance(st, ast.Assign) and isinstance(st.value, ast.Name) and st.value.id == a.id for t in st.targets if (dotted(t) or "").startswith("self.")}
                            if len(tgt) == 1:
                                d_ = tgt.pop()
                        bound.add(d_)
            if len(bound) == 1 and (next(iter(bound)) or "").startswith("self.") and pn not in alias:
                alias[pn] = next(iter(bound))

        def canon(e, _alias=alias):
            d = dotted(e) or ""
            head = d.split(".")[0]
            if head in _alias and _alias[head] != "?":
                d = _alias[head] + d[len(head):]
            return d

        for st in walk(fi.node):
            if isinstance(st, ast.Assign):
                for t in st.targets:
                    d = canon(t)
                    if d.endswith(".content") and d.startswith("self."):
                        sites.append((fi, st, d, canon))
    chk.require("S2", ci.key, "Titan content assignment sites", len(sites), 1, "the protocol never assigns the upload content: uploads cannot carry the bytes sent")
    for fi, st, d, canon in sites:
        owner = d[: -len(".content")]
        v = st.value
        ok = (
            isinstance(v, ast.Subscript)
            and dotted(v.value) == "self.buffer"
            and isinstance(v.slice, ast.Slice)
            and v.slice.lower is None
            and v.slice.step is None
            and v.slice.upper is not None
            and canon(v.slice.upper) == f"{owner}.size"
        )
        if not ok:
            chk.finding("S2", fi.key, f"content-slice:{norm(v)}", f"Titan content is assigned `{norm(v)}`, not exactly the first `size` bytes of the buffer", fi.loc(st))
        chk.ob("S2", f"{fi.key}:{norm(st)}", ok)
    # Gemini branch: functions reachable from the non-titan branch must not read self.buffer
    dr = ci.methods.get("data_received")
    if dr is None:
        chk.floor("S2", "data_received", 0, 1)
    gem = [n for n in ("_handle_gemini_request", "_route_request", "_send_response", "_send_error_response", "_handle_middleware_result", "_handle_async_handler_result") if n in ci.methods]
    for name in gem:
        fi = ci.methods[name]
        reads = [n for n in walk(fi.node) if is_self_attr(n, "buffer") and isinstance(n.ctx, ast.Load)]
        if reads:
            chk.finding("S2", fi.key, "reads-buffer", "the Gemini request path reads self.buffer after the request line was split off: trailing bytes can influence the outcome", fi.loc(reads[0]))
        chk.ob("S2", f"{fi.key}: no buffer read on the Gemini path", not reads)


def rule_s3(chk: Check) -> None:
    chk.rule("S3", "the chunk parameter of the server's data_received flows only into the buffer append; no read counter on self; nothing read before the append; limits on an unterminated buffer leave room for a pending terminator")
    segmentation_rules(chk, "S3", chk.proj.func(SERVER_PROTO + ".data_received"))


def segmentation_rules(chk: Check, R: str, fi) -> None:
    """Per data_received: the decision may depend on the accumulated buffer only.
    Used for the server (C07.S3) and for the client protocols (C13.E6)."""
    if True:
        param = [p for p in fi.params if p != "self"][0]
        uses = [n for n in walk(fi.node) if isinstance(n, ast.Name) and n.id == param and isinstance(n.ctx, ast.Load)]
        good = 0
        for st in walk(fi.node):
            if isinstance(st, ast.AugAssign) and isinstance(st.op, ast.Add) and is_self_attr(st.target, "buffer"):
                if isinstance(st.value, ast.Name) and st.value.id == param:
                    good += 1
            if isinstance(st, ast.Assign) and len(st.targets) == 1 and is_self_attr(st.targets[0], "buffer"):
                v = st.value
                if isinstance(v, ast.BinOp) and isinstance(v.op, ast.Add) and is_self_attr(v.left, "buffer") and isinstance(v.right, ast.Name) and v.right.id == param:
                    good += 1
        ok = len(uses) == good and good >= 1
        if not ok:
            chk.finding(R, fi.key, f"chunk-use:{param}", f"the chunk `{param}` is read {len(uses)} times but only {good} of these are the buffer append: the outcome can depend on how reads are segmented", fi.loc())
        chk.ob(R, f"{fi.key}: chunk only appended", ok, evals=max(1, len(uses)))
        # nothing may be read from the buffer BEFORE the chunk is appended: such a
        # value (typically the old length) encodes where the read boundary fell.
        # Accepted idiom: old length used only as the start of a separator
        # search, moved back by at least len(separator) - 1.
        g = build_cfg(chk.proj, fi)
        app = [n for n in g.nodes if n.kind == "stmt" and n.ast is not None and isinstance(n.ast, (ast.AugAssign, ast.Assign)) and any(is_self_attr(t, "buffer") for t in ([n.ast.target] if isinstance(n.ast, ast.AugAssign) else n.ast.targets)) and any(isinstance(x, ast.Name) and x.id == param for x in walk(n.ast.value))]
        if app:
            before = g.reach([g.entry.id], blocked_nodes={a.id for a in app}, follow=normal_only)
            for nid in before:
                n = g.nodes[nid]
                if n.ast is None or n.kind not in ("stmt", "test"):
                    continue
                reads = [x for x in walk(n.ast) if is_self_attr(x, "buffer") and isinstance(x.ctx, ast.Load)]
                if not reads:
                    continue
                okb = False
                if isinstance(n.ast, ast.Assign) and isinstance(n.ast.targets[0], ast.Name) and _backed_off_length(n.ast.value):
                    # `v = max(0, len(self.buffer) - k)`, k >= len(separator) - 1, used only
                    # as the start of a separator search
                    v = n.ast.targets[0].id
                    uses = [x for x in walk(fi.node) if isinstance(x, ast.Name) and x.id == v and isinstance(x.ctx, ast.Load)]
                    starts = [c.args[1] for c in calls(fi.node) if method_call(c) and method_call(c)[1] in ("find", "index") and len(c.args) >= 2]
                    okb = bool(uses) and all(any(u is s0 for s0 in starts) for u in uses)
                elif isinstance(n.ast, ast.Assign) and isinstance(n.ast.targets[0], ast.Name):
                    v = n.ast.targets[0].id
                    uses = [x for x in walk(fi.node) if isinstance(x, ast.Name) and x.id == v and isinstance(x.ctx, ast.Load)]
                    safe = 0
                    for c in calls(fi.node):
                        mc = method_call(c)
                        if mc and mc[1] in ("find", "index") and len(c.args) >= 2:
                            st = c.args[1]
                            inner = st.args[1] if isinstance(st, ast.Call) and dotted(st.func) == "max" and len(st.args) == 2 else st
                            if isinstance(inner, ast.BinOp) and isinstance(inner.op, ast.Sub) and isinstance(inner.left, ast.Name) and inner.left.id == v and isinstance(inner.right, ast.Constant) and isinstance(inner.right.value, int) and inner.right.value >= 1:
                                safe += 1
                    okb = bool(uses) and safe == len(uses)
                if not okb:
                    chk.finding(
                        R, fi.key, f"pre-append-read:{norm(n.ast)[:50]}",
                        f"`{norm(n.ast)[:80]}` reads the buffer before the new chunk is appended: the value records where the read boundary fell, so a decision based on it depends on how the stream was segmented (e.g. a separator split across two reads is missed)",
                        n.where(),
                    )
                chk.ob(R, f"{fi.key}: pre-append read `{norm(n.ast)[:40]}` is boundary-safe", okb)
        # a separator search that starts at a position remembered on self across reads
        # must start at least len(separator) - 1 bytes before the end of what was searched
        for c in calls(fi.node):
            mc = method_call(c)
            if not (mc and mc[1] in ("find", "index") and dotted(mc[0]) == "self.buffer" and len(c.args) >= 2 and is_self_attr(c.args[1])):
                continue
            attr = c.args[1].attr
            sep = chk.proj.eval_const(fi.module, c.args[0])
            need = (len(sep) - 1) if isinstance(sep, (bytes, str)) else 1
            okp = True
            assigns = [st for m in (fi.cls.methods.values() if fi.cls else [fi]) for st in walk(m.node) if isinstance(st, (ast.Assign, ast.AugAssign)) and any(is_self_attr(t, attr) for t in (st.targets if isinstance(st, ast.Assign) else [st.target]))]
            for st in assigns:
                v = st.value
                if isinstance(st, ast.Assign) and isinstance(v, ast.Constant) and v.value == 0:
                    continue
                if isinstance(st, ast.Assign) and isinstance(v, ast.Call) and dotted(v.func) == "max" and len(v.args) == 2:
                    v = v.args[1] if isinstance(v.args[0], ast.Constant) else v.args[0]
                back = isinstance(st, ast.Assign) and isinstance(v, ast.BinOp) and isinstance(v.op, ast.Sub) and norm(v.left) == "len(self.buffer)" and isinstance(v.right, ast.Constant) and isinstance(v.right.value, int) and v.right.value >= need
                if not back:
                    okp = False
                    chk.finding(
                        R, fi.key, f"search-start:self.{attr}={norm(st.value)[:40]}",
                        f"the separator search starts at `self.{attr}`, which `{norm(st)[:70]}` sets without backing off {need} byte(s): a separator split across two reads (CR in one, LF in the next) is never found, so the same bytes give a different outcome depending on where the reads fall",
                        fi.loc(c),
                    )
            chk.ob(R, f"{fi.key}: search start self.{attr} is boundary-safe", okp, f"{len(assigns)} assignments")
        # no read counter / per-call accumulation other than the buffer
        bad = []
        for st in walk(fi.node):
            if isinstance(st, ast.AugAssign) and (dotted(st.target) or "").startswith("self.") and not is_self_attr(st.target, "buffer"):
                bad.append(st)
        if bad:
            chk.finding(R, fi.key, f"counter:{norm(bad[0].target)}", f"`{norm(bad[0])}` accumulates per read: state depends on segmentation", fi.loc(bad[0]))
        chk.ob(R, f"{fi.key}: no per-read accumulator", not bad)
        length_limit_consistency(chk, R, fi)


def _arms(expr: ast.AST, fn: ast.AST, depth: int = 0):
    """Alternatives of a length expression: IfExp arms and single-assignment
    locals are expanded.  Yields (arm expression, condition text under which it
    is used or '')."""
    if depth > 3:
        yield expr, ""
        return
    if isinstance(expr, ast.IfExp):
        for a, c in ((expr.body, norm(expr.test)), (expr.orelse, "not (" + norm(expr.test) + ")")):
            for e2, c2 in _arms(a, fn, depth + 1):
                yield e2, (c + " and " + c2) if c2 else c
        return
    if isinstance(expr, ast.Name):
        ds = [st.value for st in walk(fn) if isinstance(st, ast.Assign) and len(st.targets) == 1 and dotted(st.targets[0]) == expr.id]
        if len(ds) == 1:
            yield from _arms(ds[0], fn, depth + 1)
            return
    yield expr, ""


def _backed_off_length(v: ast.AST) -> bool:
    """`len(self.buffer) - k` with k >= 1, optionally inside max(0, .)."""
    if isinstance(v, ast.Call) and dotted(v.func) == "max" and len(v.args) == 2:
        v = v.args[1] if isinstance(v.args[0], ast.Constant) else v.args[0]
    return (
        isinstance(v, ast.BinOp) and isinstance(v.op, ast.Sub) and norm(v.left) == "len(self.buffer)"
        and isinstance(v.right, ast.Constant) and isinstance(v.right.value, int) and v.right.value >= 1
    )


def _int_term(proj, mi, e: ast.AST):
    """Integer value of an additive term: a literal, a module constant, or
    len(<module bytes/str constant>) such as len(CRLF)."""
    v = proj.eval_const(mi, e)
    if isinstance(v, int) and not isinstance(v, bool):
        return v
    if isinstance(e, ast.Call) and dotted(e.func) == "len" and len(e.args) == 1:
        c = proj.eval_const(mi, e.args[0])
        if isinstance(c, (str, bytes)):
            return len(c)
    return None


def _is_buffer_line(name: str, fn: ast.AST, depth: int = 0) -> bool:
    """`name` is (a copy / slice of) the part of self.buffer before the
    separator: bound from self.buffer.split/partition(...) or self.buffer[:i]."""
    if depth > 3:
        return False
    for st in walk(fn):
        if not isinstance(st, ast.Assign):
            continue
        tnames = [x.id for t in st.targets for x in walk(t) if isinstance(x, ast.Name)]
        if name not in tnames:
            continue
        for x in walk(st.value):
            if isinstance(x, ast.Call) and method_call(x) and method_call(x)[1] in ("split", "partition", "rsplit", "rpartition") and dotted(method_call(x)[0]) == "self.buffer":
                return True
            if isinstance(x, ast.Subscript) and dotted(x.value) == "self.buffer" and isinstance(x.slice, ast.Slice) and x.slice.lower is None:
                return True
        if isinstance(st.value, ast.Name) and _is_buffer_line(st.value.id, fn, depth + 1):
            return True
    return False


def _sep_absent_label(t: ast.AST, fn: ast.AST) -> str | None:
    """For a test on the presence of the separator in self.buffer: the edge label
    ('T'/'F') that means "absent"; None if the test is something else."""
    flip = False
    while isinstance(t, ast.UnaryOp) and isinstance(t.op, ast.Not):
        t, flip = t.operand, not flip
    lab = None
    if isinstance(t, ast.Compare) and len(t.ops) == 1:
        op, right = t.ops[0], t.comparators[0]
        if isinstance(op, (ast.In, ast.NotIn)) and dotted(right) == "self.buffer":
            lab = "F" if isinstance(op, ast.In) else "T"
        elif isinstance(t.left, ast.Name) and isinstance(right, (ast.Constant, ast.UnaryOp)):
            src = [st.value for st in walk(fn) if isinstance(st, ast.Assign) and any(isinstance(x, ast.Name) and x.id == t.left.id for x in st.targets)]
            if src and all(isinstance(v, ast.Call) and method_call(v) and method_call(v)[1] == "find" and dotted(method_call(v)[0]) == "self.buffer" for v in src):
                try:
                    val = ast.literal_eval(right)
                except Exception:  # noqa: BLE001
                    val = None
                if isinstance(op, ast.Lt) and val == 0 or isinstance(op, ast.Eq) and val == -1:
                    lab = "T"
                elif isinstance(op, ast.GtE) and val == 0 or isinstance(op, ast.NotEq) and val == -1 or isinstance(op, ast.Gt) and val == -1:
                    lab = "F"
    if lab is None:
        return None
    return ({"T": "F", "F": "T"}[lab]) if flip else lab


def _cfg_unterminated(chk: Check, fi):
    from ..paths import BoolFacts, boolfacts_step, walk_paths

    g = build_cfg(chk.proj, fi)
    out = []
    for c in g.nodes:
        if c.kind != "test" or not isinstance(c.ast, ast.Compare) or len(c.ast.ops) != 1 or not isinstance(c.ast.ops[0], (ast.Gt, ast.GtE)):
            continue
        if norm(c.ast.left) != "len(self.buffer)":
            continue
        lim = chk.proj.eval_const(fi.module, c.ast.comparators[0])
        if not isinstance(lim, int) or isinstance(lim, bool) or lim <= 2:
            continue
        # the statements reached directly behind the true edge (through further tests)
        acts, todo, seen = set(), [b for b, lab in g.succ[c.id] if lab == "T"], set()
        while todo:
            x = todo.pop()
            if x in seen:
                continue
            seen.add(x)
            if g.nodes[x].kind == "test":
                todo += [b for b, _l in g.succ[x]]
            elif g.nodes[x].kind in ("stmt", "with"):
                acts.add(x)
        if not acts:
            continue
        n_abs = n_all = 0
        try:
            paths = walk_paths(g, g.entry.id, BoolFacts(), boolfacts_step, stop=lambda n, _a=acts: n.id in _a, follow=normal_only, max_paths=5000)
        except Exception:  # noqa: BLE001 - path explosion: leave this site to the textual view
            continue
        for path, _st in paths:
            if path[-1][0].id not in acts or not any(n.id == c.id and lab == "T" for n, lab in path):
                continue
            n_all += 1
            if any(n.kind == "test" and n.ast is not None and _sep_absent_label(n.ast, fi.node) == lab for n, lab in path):
                n_abs += 1
        if n_all and n_abs == n_all:
            out.append((lim + (1 if isinstance(c.ast.ops[0], ast.Gt) else 0), c.ast))
    return out


def _callee_line_limit(chk: Check, fi) -> bool:
    """A complete-line length limit in a helper that data_received hands the
    buffered line to (one level)."""
    cls = fi.cls
    if cls is None:
        return False
    for c in calls(fi.node):
        d = dotted(c.func) or ""
        if not d.startswith("self."):
            continue
        m = chk.proj.find_method(cls, d[5:])
        if m is None:
            continue
        params = [p for p in m.params if p != "self"]
        for i, a in enumerate(c.args):
            if isinstance(a, ast.Name) and _is_buffer_line(a.id, fi.node) and i < len(params):
                p = params[i]
                for cmp in walk(m.node):
                    if isinstance(cmp, ast.Compare) and isinstance(cmp.ops[0], (ast.Gt, ast.GtE)) and f"len({p})" in norm(cmp.left):
                        return True
    return False


def length_limit_consistency(chk: Check, rule: str, fi, sep_len: int = 2) -> None:
    """Early rejection of an *unterminated* buffer must leave room for a pending,
    partly received terminator: if a complete line is refused from length t_T on,
    the unterminated buffer may only be refused from t_T + len(separator) - 1 on.
    Otherwise the same byte stream is accepted or refused depending on whether a
    read boundary falls inside the terminator."""
    proj = chk.proj
    unterminated, terminated = [], []
    for cmp in [c for c in walk(fi.node) if isinstance(c, ast.Compare) and len(c.ops) == 1 and isinstance(c.ops[0], (ast.Gt, ast.GtE))]:
        lim = proj.eval_const(fi.module, cmp.comparators[0])
        if not isinstance(lim, int) or isinstance(lim, bool) or lim <= 2:
            continue  # `end >= 0` / `!= -1` are found-tests, not length limits
        left = cmp.left
        k = 0
        if isinstance(left, ast.BinOp) and isinstance(left.op, (ast.Add, ast.Sub)):
            kv = _int_term(proj, fi.module, left.right)
            if kv is not None:
                k = kv if isinstance(left.op, ast.Add) else -kv
                left = left.left
        t0 = lim - k + (1 if isinstance(cmp.ops[0], ast.Gt) else 0)
        # the conjunct `CRLF not in self.buffer` of an enclosing `and`
        conj = ""
        for b in walk(fi.node):
            if isinstance(b, ast.BoolOp) and isinstance(b.op, ast.And) and any(v is cmp for v in b.values):
                conj = " and ".join(norm(v) for v in b.values if v is not cmp)
        for arm, cond in _arms(left, fi.node):
            t = t0
            if isinstance(arm, ast.BinOp) and isinstance(arm.op, (ast.Add, ast.Sub)) and isinstance(arm.right, ast.Constant) and isinstance(arm.right.value, int):
                t = t0 - (arm.right.value if isinstance(arm.op, ast.Add) else -arm.right.value)
                arm = arm.left
            txt = norm(arm)
            ctx = (cond + " " + conj).strip()
            if txt == "len(self.buffer)":
                absent = ("not in self.buffer" in ctx) or ("not (" in ctx and (">= 0" in ctx or "!= -1" in ctx or " in self.buffer" in ctx)) or ("< 0" in ctx) or ("== -1" in ctx)
                if absent:
                    unterminated.append((t, cmp))
            elif isinstance(arm, ast.Call) and dotted(arm.func) == "len" and arm.args and isinstance(arm.args[0], ast.Name) and _is_buffer_line(arm.args[0].id, fi.node):
                terminated.append((t, cmp))
            elif isinstance(arm, ast.Call) and method_call(arm) and method_call(arm)[1] in ("find", "index") and dotted(method_call(arm)[0]) == "self.buffer":
                terminated.append((t, cmp))
    # CFG view: a whole-buffer limit whose rejection is only reachable (on feasible
    # paths) through a "separator absent" edge is a limit on the unterminated buffer
    for t_u, cmp in _cfg_unterminated(chk, fi):
        if not any(c is cmp for _, c in unterminated):
            unterminated.append((t_u, cmp))
    if unterminated and not terminated and not _callee_line_limit(chk, fi):
        for t_u, cmp in unterminated:
            chk.finding(
                rule, fi.key, f"limit-only-while-terminator-pending:{norm(cmp)[:50]}",
                f"`{norm(cmp)}` limits the line only while its terminator has not arrived; no limit applies to a complete line: a line longer than {t_u - 1} bytes is accepted when its terminator arrives in the read that crosses the limit and refused when a read boundary falls before it",
                fi.loc(cmp),
            )
            chk.ob(rule, f"{fi.key}: unterminated limit {t_u} has a complete-line counterpart", False)
        return
    if not unterminated or not terminated:
        return
    t_t = min(t for t, _ in terminated)
    for t_u, cmp in unterminated:
        ok = t_u >= t_t + sep_len - 1
        if not ok:
            chk.finding(
                rule, fi.key, f"limit-ignores-pending-terminator:{norm(cmp)[:50]}",
                f"`{norm(cmp)}` refuses an unterminated buffer of {t_u} bytes, while a complete line is only refused from {t_t} bytes on: a maximal legal line whose CR has arrived but whose LF has not is refused, although the same bytes delivered in one read are accepted",
                fi.loc(cmp),
            )
        chk.ob(rule, f"{fi.key}: unterminated limit {t_u} >= terminated limit {t_t} + {sep_len - 1}", ok)


def rule_s4(chk: Check) -> None:
    chk.rule("S4", "PyOpenSSL pump: handshake completion is followed by a drain of decrypted data on every path; each recv() result reaches the inner protocol; data_received dispatches to handshake xor application processing")
    ci = chk.proj.cls(TLS_PROTO)
    # (a) after inner connection_made, a recv-drain follows on every normal path
    init = None
    for fi in ci.methods.values():
        if any((dotted(c.func) or "").startswith("self.") and "factory" in (dotted(c.func) or "") for c in calls(fi.node)):
            init = fi
    if init is None:
        chk.floor("S4", "inner protocol initialiser", 0, 1)
    g = build_cfg(chk.proj, init, inline_self_methods, 4)
    cm = nodes_calling(g, lambda c: method_call(c) is not None and method_call(c)[1] == "connection_made")
    chk.floor("S4", "inner connection_made call", len(cm), 1)
    recv_nodes = {n.id for n in nodes_calling(g, lambda c: method_call(c) is not None and method_call(c)[1] == "recv")}
    paths = walk_paths(g, g.entry.id, BoolFacts(), boolfacts_step, follow=normal_only)
    bad = None
    n_rel = 0
    for path, _st in paths:
        ids = [n.id for n, _ in path]
        if path[-1][0].kind != "exit" or cm[0].id not in ids:
            continue
        n_rel += 1
        after = ids[ids.index(cm[0].id):]
        if not any(i in recv_nodes for i in after):
            bad = path
            break
    ok = bad is None and bool(recv_nodes) and n_rel > 0
    if not ok:
        chk.finding("S4", init.key, "no-drain-after-handshake", "after the handshake completes there is a feasible path that never tries to read already-decrypted application data (data coalesced with the final handshake flight is lost until the next read)", init.loc(), g.fmt_path(bad) if bad else [])
    chk.ob("S4", f"{init.key}: drain after handshake", ok, f"{n_rel} feasible paths through inner connection_made", evals=max(1, len(paths)))

    # also: the handshake-success continuation reaches the initialiser
    hs = [fi for fi in ci.methods.values() if any(method_call(c) and method_call(c)[1] == "do_handshake" for c in calls(fi.node))]
    chk.floor("S4", "do_handshake caller", len(hs), 1)
    for fi in hs:
        g2 = build_cfg(chk.proj, fi)
        hn = nodes_calling(g2, lambda c: method_call(c) is not None and method_call(c)[1] == "do_handshake")[0]
        initn = {n.id for n in nodes_calling(g2, lambda c: is_self_call(c, init.node.name))}
        # from the normal successor of do_handshake, every path to exit passes the initialiser
        starts = [b for b, lab in g2.succ[hn.id] if lab not in ("exc", "raise")]
        par = g2.reach(starts, blocked_nodes=initn, follow=normal_only)
        ok2 = g2.exit.id not in par and bool(initn)
        if not ok2:
            chk.finding("S4", fi.key, "handshake-without-init", "a path from a successful do_handshake() to the return does not initialise the inner protocol", fi.loc())
        chk.ob("S4", f"{fi.key}: handshake success -> initialise inner protocol", ok2)

    # (b) recv loops: truthy result reaches inner data_received
    loops = 0
    for fi in ci.methods.values():
        g3 = None
        for st in walk(fi.node):
            walrus = isinstance(st, ast.NamedExpr) and isinstance(st.target, ast.Name)
            if (isinstance(st, ast.Assign) or walrus) and isinstance(st.value, ast.Call) and method_call(st.value) and method_call(st.value)[1] == "recv":
                loops += 1
                if g3 is None:
                    g3 = build_cfg(chk.proj, fi)
                var = dotted(st.target if walrus else st.targets[0])
                rn = next(n for n in g3.nodes if n.ast is not None and (n.ast is st or (walrus and n.kind == "test" and any(x is st for x in ast.walk(n.ast)))))
                feed = {
                    n.id for n in nodes_calling(
                        g3, lambda c: method_call(c) is not None and method_call(c)[1] == "data_received" and len(c.args) == 1 and dotted(c.args[0]) == var
                    )
                }
                # assume the result is non-empty and an inner protocol exists:
                # every feasible continuation must hand it over before the
                # next recv() or the return
                init_f = BoolFacts({var: True, "self.inner_protocol": True}, {var: False, "self.inner_protocol": False})
                # non-empty result: for `while x := recv():` that is the true edge of the test
                starts = [b for b, lab in g3.succ[rn.id] if lab not in ("exc", "raise") and not (walrus and lab == "F")]
                ok3 = bool(feed)
                for s0 in starts:
                    for path, _st in walk_paths(g3, s0, init_f, boolfacts_step, stop=lambda n: n.id == rn.id or n.kind == "exit", follow=normal_only):
                        if path[-1][0].id != rn.id and path[-1][0].kind != "exit":
                            continue
                        if not any(n.id in feed for n, _ in path):
                            ok3 = False
                if not ok3:
                    chk.finding("S4", fi.key, f"recv-dropped:{var}", f"a non-empty `{var}` from tls_conn.recv() can be discarded without being handed to the inner protocol", fi.loc(st))
                chk.ob("S4", f"{fi.key}: recv result reaches inner protocol", ok3)
                # drain completeness: recv() hands out at most one TLS record; after a
                # non-empty result the pump must call recv() again (until it raises
                # WantReadError or returns nothing) - returning earlier leaves complete
                # records that arrived in the same TCP read undelivered until more
                # ciphertext arrives
                all_recv = {n.id for n in nodes_calling(g3, lambda c: method_call(c) is not None and method_call(c)[1] == "recv")}
                ok4 = True
                wit = None
                for s0 in starts:
                    for path, _st in walk_paths(g3, s0, init_f, boolfacts_step, stop=lambda n: n.id in all_recv or n.kind == "exit", follow=normal_only):
                        if path[-1][0].kind == "exit":
                            ok4 = False
                            wit = path
                if not ok4:
                    chk.finding(
                        "S4", fi.key, f"drain-incomplete:{var}",
                        f"after a non-empty `{var}` the pump can return without calling recv() again: recv() yields at most one TLS record, so further complete records from the same TCP read (e.g. the CRLF or the upload body sent as its own record) stay undelivered - the outcome depends on how the peer's bytes were split into records and reads",
                        fi.loc(st), g3.fmt_path(wit) if wit else [],
                    )
                chk.ob("S4", f"{fi.key}: pump keeps reading after a non-empty recv()", ok4)
    chk.require("S4", ci.key, "recv loops", loops, 1, "the wrapper no longer reads decrypted data from the TLS engine")
    # every read of decrypted data is of the form checked above (bound to a name and handed
    # over before the next engine call): data parked in a container is delivered after
    # whatever the loop does in between - e.g. the teardown for a close_notify or alert that
    # arrived in the same read - so the request is answered into a closed connection or lost
    for fi in ci.methods.values():
        bound = {id(st.value) for st in walk(fi.node) if (isinstance(st, ast.Assign) or (isinstance(st, ast.NamedExpr) and isinstance(st.target, ast.Name))) and isinstance(st.value, ast.Call)}
        for c in calls(fi.node):
            mc = method_call(c)
            if mc and mc[1] == "recv" and "tls_conn" in (dotted(mc[0]) or "") and id(c) not in bound:
                chk.finding(
                    "S4", fi.key, f"recv-parked:{norm(c)[:40]}",
                    f"the result of `{norm(c)}` is not bound and handed to the inner protocol at once but collected for later: what the loop does in between (close_notify / alert / error handling for bytes of the same read) runs before the request is delivered, so the same bytes give a different outcome depending on how they were split into reads",
                    fi.loc(c),
                )
                chk.ob("S4", f"{fi.key}: `{norm(c)[:40]}` handed over directly", False)

    # (c) data_received: handshake xor application processing
    dr = ci.methods.get("data_received")
    if dr is None:
        chk.floor("S4", "TLS data_received", 0, 1)
    g4 = build_cfg(chk.proj, dr)
    hs_names = {fi.node.name for fi in hs}
    app = [fi.node.name for fi in ci.methods.values() if fi.node.name not in hs_names and fi is not init and any(method_call(c) and method_call(c)[1] == "recv" for c in calls(fi.node)) and "pending" not in fi.node.name]
    hn = nodes_calling(g4, lambda c: any(is_self_call(c, h) for h in hs_names))
    an = nodes_calling(g4, lambda c: any(is_self_call(c, a) for a in app))
    ok4 = bool(hn) and bool(an)
    if ok4:
        # every normal path from the bio_write node to exit passes exactly one of them
        bw = nodes_calling(g4, lambda c: method_call(c) is not None and method_call(c)[1] == "bio_write")
        par = g4.reach([bw[0].id] if bw else [g4.entry.id], blocked_nodes={n.id for n in hn + an}, follow=normal_only)
        ok4 = g4.exit.id not in par
        for h in hn:
            p2 = g4.reach([h.id], follow=normal_only)
            if any(a.id in p2 for a in an):
                pass  # handshake followed by application processing in the same call is fine (drains coalesced data)
    if not ok4:
        chk.finding("S4", dr.key, "no-processing", "after bio_write there is a path that neither continues the handshake nor processes application data: bytes fed to the TLS engine are never looked at", dr.loc())
    chk.ob("S4", f"{dr.key}: every chunk is processed", ok4)


def is_self_call(c: ast.Call, name: str) -> bool:
    mc = method_call(c)
    return bool(mc and dotted(mc[0]) == "self" and mc[1] == name)


def rule_s5(chk: Check, R: str = "S5") -> None:
    """A request can be complete while its handler has not run yet: the chain is
    consulted in a task and the handler is started from the task's done-callback.
    The peer's close (on the PyOpenSSL backend: a close_notify in the same read
    as the last request bytes) calls connection_lost *before* that callback.  If
    connection_lost clears what the callback hands to the handler, the request is
    silently dropped - but only for that segmentation."""
    chk.rule(R, "connection_lost clears nothing a pending done-callback still hands to a handler: no attribute that is the receiver or an argument of a handler / upload-handler dispatch is reset there")
    ci = chk.proj.cls(SERVER_PROTO)
    cl = ci.methods.get("connection_lost")
    if cl is None:
        chk.ob(R, "connection_lost not overridden", True, nontrivial=False)
        return
    needed: dict[str, str] = {}
    n_disp = 0
    for m in ci.methods.values():
        for c in calls(m.node):
            d = dotted(c.func) or ""
            mc = method_call(c)
            if d == "self.request_handler" or (mc and dotted(mc[0]) == "self.upload_handler"):
                n_disp += 1
                for x in walk(c):
                    if isinstance(x, ast.Attribute) and dotted(x.value) == "self":
                        needed.setdefault(x.attr, f"{m.key}: `{norm(c)[:60]}`")
    chk.require(R, ci.key, "handler dispatch sites", n_disp, 1, "the protocol dispatches to no handler")
    g = Builder(chk.proj, inline_self_methods, 3).build(cl)
    ok = True
    n = 0
    for node in g.nodes:
        if node.kind != "stmt" or node.ast is None:
            continue
        a = node.ast
        cleared = []
        if isinstance(a, (ast.Assign, ast.AnnAssign)) and a.value is not None:
            v = a.value
            falsy = (isinstance(v, ast.Constant) and not v.value) or (isinstance(v, (ast.List, ast.Dict, ast.Set, ast.Tuple)) and not getattr(v, "elts", getattr(v, "keys", None))) or (isinstance(v, ast.Call) and dotted(v.func) in ("bytes", "bytearray", "dict", "list", "set") and not v.args)
            if falsy:
                for t in (a.targets if isinstance(a, ast.Assign) else [a.target]):
                    if isinstance(t, ast.Attribute) and dotted(t.value) == "self":
                        cleared.append(t.attr)
        elif isinstance(a, ast.Delete):
            cleared += [t.attr for t in a.targets if isinstance(t, ast.Attribute) and dotted(t.value) == "self"]
        for attr in cleared:
            n += 1
            if attr in needed:
                ok = False
                chk.finding(
                    R, cl.key, f"cleared-under-pending-callback:{attr}",
                    f"connection_lost resets `self.{attr}`, which {needed[attr]} still reads when a pending middleware / handler task completes: a request whose last bytes and the peer's close arrive in one read is dropped (handler never runs), the same bytes in two reads are served",
                    node.where(),
                )
    chk.ob(R, f"{cl.key}: no dispatch argument is cleared", ok, f"{n} attributes reset; dispatch reads {sorted(needed)}", evals=n + n_disp)


def run(chk: Check) -> None:
    rule_s1(chk)
    rule_s2(chk)
    rule_s3(chk)
    rule_s4(chk)
    rule_s5(chk)
    from .c15 import rule_x2
    from .common import reuse as _reuse6

    _reuse6(chk, rule_x2, "S6", "the request timer is disarmed on every path that hands a complete request to the chain / handler, whatever the segmentation (= C15.X2, machine): a line and body in one read must not keep a deadline that two reads cancel", ("X2",))
    from .common import request_objects_fresh

    request_objects_fresh(chk, "S7")
    chk.trusted = [
        "CPython ast parser",
        "engine CFG / inliner / BoolFacts path pruning",
        "asyncio delivers reads only through data_received; OpenSSL reassembles TLS records",
    ]
    chk.assumptions = [
        "an event loop is running whenever a protocol callback runs (the RuntimeError 'no loop' fallbacks are not explored)",
        "implicit exceptions that would escape an entry point are not modelled (no general may-raise analysis)",
    ]
