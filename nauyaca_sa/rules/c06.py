"""C06 - Responses arrive complete and unaltered, for any size, both backends.

The size dimension is a run-time quantity; what is structural is that no byte
handed to the protocol can be dropped or altered by construction.
  R1 short-write results are never discarded: a call to an API that may accept
     fewer bytes than given and reports the count (OpenSSL Connection.send,
     socket.send, os.write, SSLObject.write) must consume its result in a loop,
     or the all-or-raise sibling (sendall) must be used
  R2 drain: in the transport wrapper every encrypt call is followed by a flush
     on all paths, close() shuts TLS down and flushes before closing TCP, and
     the flush loop leaves only when the BIO is empty
  R3 the body bytes written are the handler's bytes (no slice / strip /
     re-encode other than UTF-8), and the re-wrapping constructions pass
     status / meta / body through unchanged
  R4 both backends run the same inner protocol (= C04.M4)
  R5 the raw TCP transport only ever receives TLS engine output (= C20.K4)
Not decided: behaviour at record / buffer boundaries, back-pressure.
"""

from __future__ import annotations

import ast

from ..astutil import calls, dotted, kwarg, method_call, norm, walk
from ..cfg import Builder, Resolver, build_cfg, inline_self_methods
from ..flow import Defs, _Sel, origins
from ..paths import normal_only
from ..report import Check
from .common import SERVER_PROTO, TLS_PROTO, TLS_WRAPPER, nodes_calling

EXPLANATION = (
    "Static necessary conditions of C06 (sizes, record and buffer boundaries are run-time "
    "quantities and are not decided). (R1) every call in the server package that resolves - "
    "through attribute annotations - to a partial-write API (OpenSSL.SSL.Connection.send, "
    "socket.send, os.write, ssl.SSLObject.write) must use its result; an expression statement "
    "discards it and drops everything past the first TLS record. (R2) in TLSTransportWrapper "
    "each encrypt call is followed by _flush_outgoing on every path, close() runs shutdown() "
    "and a flush before the TCP close, and the flush loop can only be left with an empty BIO. "
    "(R3) the body written by _send_response has provenance response.body (optionally UTF-8 "
    "encoded) with no slicing/stripping, and the three url-rewrapping GeminiResponse "
    "constructions pass status/meta/body through. (R4/R5) both listeners construct the same "
    "protocol; the raw transport is written only with bio_read output. "
    "(R2, abort) transport.abort() - which discards queued output - is not reachable in the manual TLS classes once the handshake may be complete, nor in the inner protocol after a response write. "
    "(R6) listeners do not shorten asyncio's TLS shutdown grace period. "
    "(R7) = C13.E3 client cap on body bytes. (R8) = C07.S4 pump: every decrypted record is handed over at once. "
    "(R9) = C13.E2: the client hands out the received body bytes as bytes / decoded text for 2x statuses. "
    "(R10) no method of GeminiResponse (e.g. __post_init__) stores into status / meta / body anything but the field itself or a byte-preserving conversion: the response object is a carrier, and a rewrite there changes every response before the sink sees it."
    ' (R11) = C15.X2: the request timer is disarmed at every dispatch / consultation.'
)

PARTIAL_WRITE = {
    "OpenSSL.SSL.Connection.send": "pyOpenSSL contexts enable SSL_MODE_ENABLE_PARTIAL_WRITE: one call writes at most one TLS record (16 KiB) and returns the count",
    "socket.socket.send": "may send fewer bytes than given",
    "os.write": "may write fewer bytes than given",
    "ssl.SSLObject.write": "returns the number of bytes written",
    "ssl.SSLSocket.send": "may send fewer bytes than given",
}


def rule_r1(chk: Check) -> None:
    chk.rule("R1", "results of partial-write APIs are consumed (loop) or the all-or-raise sibling is used")
    res = Resolver(chk.proj)
    n_sites = 0
    n_send_like = 0
    for fi in chk.proj.functions.values():
        if not fi.module.name.startswith("server"):
            continue
        for st in walk(fi.node):
            for c in ([st.value] if isinstance(st, ast.Expr) and isinstance(st.value, ast.Call) else []):
                ext = res.external_name(fi, c)
                if ext in PARTIAL_WRITE:
                    n_sites += 1
                    chk.finding(
                        "R1", fi.key, f"dropped-short-write:{norm(c)[:50]}",
                        f"`{norm(c)}` resolves to {ext} and its result is discarded - {PARTIAL_WRITE[ext]}: everything past the first chunk of each write is silently lost",
                        fi.loc(c),
                    )
                    chk.ob("R1", f"{fi.key}:{norm(c)[:60]}", False)
        for c in calls(fi.node):
            ext = res.external_name(fi, c)
            if ext in PARTIAL_WRITE or (ext or "").endswith((".sendall", ".bio_write")):
                n_send_like += 1
                if ext in PARTIAL_WRITE:
                    # used result: accept only inside a loop that advances an offset
                    parent_expr = any(isinstance(st, ast.Expr) and st.value is c for st in walk(fi.node))
                    if not parent_expr:
                        in_loop = any(isinstance(l, (ast.While, ast.For)) and any(sub is c for sub in ast.walk(l)) for l in walk(fi.node))
                        ok = in_loop
                        if not ok:
                            chk.finding("R1", fi.key, f"short-write-not-looped:{norm(c)[:50]}", f"the result of `{norm(c)}` ({ext}) is read but not used to resend the remainder in a loop", fi.loc(c))
                        chk.ob("R1", f"{fi.key}:{norm(c)[:60]} looped", ok)
                else:
                    chk.ob("R1", f"{fi.key}:{norm(c)[:60]} ({ext.split('.')[-1]})", True)
    # the wrapper must have some encrypting write at all
    wr = chk.proj.cls(TLS_WRAPPER).methods.get("write")
    has = wr is not None and any((res.external_name(wr, c) or "").startswith("OpenSSL.SSL.Connection.send") for c in calls(wr.node))
    chk.require("R1", TLS_WRAPPER + ".write", "encrypting write through tls_conn", 1 if has else 0, 1, "TLSTransportWrapper.write no longer hands the plaintext to the TLS engine")
    if wr is not None:
        # resolution sanity: the receiver type must be known, else the rule is blind
        for c in calls(wr.node):
            mc = method_call(c)
            if mc and mc[1] in ("send", "sendall") and "conn" in norm(mc[0]):
                ext = res.external_name(wr, c)
                if not ext or not ext.startswith("OpenSSL.SSL.Connection"):
                    from ..loader import AnalysisError

                    raise AnalysisError(f"R1: cannot resolve the type of `{norm(mc[0])}` (got {ext!r}); the dropped-result rule would be blind")


def rule_r2(chk: Check) -> None:
    chk.rule("R2", "wrapper: encrypt -> flush on every path; close(): shutdown + flush before TCP close; flush loop leaves only with an empty BIO")
    w = chk.proj.cls(TLS_WRAPPER)
    wr, cl = w.methods.get("write"), w.methods.get("close")
    if wr is not None:
        g = build_cfg(chk.proj, wr)
        _res = Resolver(chk.proj)
        enc = nodes_calling(g, lambda c: (_res.external_name(wr, c) or "").startswith("OpenSSL.SSL.Connection.send"))
        fl = {n.id for n in nodes_calling(g, lambda c: method_call(c) is not None and method_call(c)[1] == "_flush_outgoing")}
        ok = bool(enc) and bool(fl)
        for e in enc:
            par = g.reach([b for b, lab in g.succ[e.id] if lab not in ("exc", "raise")], blocked_nodes=fl, follow=normal_only)
            if g.exit.id in par:
                ok = False
        if not ok:
            chk.finding("R2", wr.key, "encrypt-without-flush", "after handing plaintext to the TLS engine there is a path that does not flush the ciphertext to the TCP transport: the bytes stay in the memory BIO", wr.loc())
        chk.ob("R2", f"{wr.key}: flush follows encrypt", ok)
    if cl is not None:
        g = build_cfg(chk.proj, cl)
        from .common import absent_edges, alias_map, canon_dotted

        am = alias_map(cl.node)
        tcp = nodes_calling(g, lambda c: method_call(c) is not None and method_call(c)[1] == "close" and canon_dotted(method_call(c)[0], am).endswith(".transport"))
        sh = {n.id for n in nodes_calling(g, lambda c: method_call(c) is not None and method_call(c)[1] == "shutdown")}
        fl = [n for n in nodes_calling(g, lambda c: method_call(c) is not None and method_call(c)[1] == "_flush_outgoing")]
        ok = bool(tcp) and bool(sh) and bool(fl)
        if ok:
            # with a live tls_conn (present edge of its test), TCP close is not reachable without shutdown
            blocked_e = absent_edges(g, lambda d: d.endswith("tls_conn"), am)
            par = g.reach([g.entry.id], blocked_nodes=sh, blocked_edges=blocked_e, follow=normal_only)
            if any(t.id in par for t in tcp):
                ok = False
            # after a successful shutdown the flush precedes the TCP close
            for s in sh:
                par = g.reach([b for b, lab in g.succ[s] if lab not in ("exc", "raise")], blocked_nodes={f.id for f in fl}, follow=normal_only)
                if any(t.id in par for t in tcp):
                    ok = False
        if not ok:
            chk.finding("R2", cl.key, "close-without-drain", "close() can close the TCP transport without TLS shutdown and a flush of pending ciphertext: the tail of the response (and close_notify) is lost", cl.loc())
        chk.ob("R2", f"{cl.key}: shutdown + flush precede TCP close", ok)
    # no discarding teardown once application data may be queued: transport.abort()
    # throws away asyncio's write buffer, transport.close() flushes it first
    n_abort = 0
    for ci in (chk.proj.cls(TLS_PROTO), w):
        for m in ci.methods.values():
            g = build_cfg(chk.proj, m)
            ab = nodes_calling(g, lambda c: method_call(c) is not None and method_call(c)[1] == "abort" and (dotted(method_call(c)[0]) or "").endswith("transport"))
            if not ab:
                continue
            n_abort += len(ab)
            # allowed only where the handshake is known to be incomplete
            tests = [n for n in g.nodes if n.kind == "test" and "handshake_complete" in norm(n.ast)]
            blocked_e = set()
            for t in tests:
                neg = isinstance(t.ast, ast.UnaryOp) and isinstance(t.ast.op, ast.Not)
                for b, lab in g.succ[t.id]:
                    if lab == ("T" if neg else "F"):
                        blocked_e.add((t.id, b, lab))
            par = g.reach([g.entry.id], blocked_edges=blocked_e)
            for a in ab:
                bad = a.id in par
                if bad:
                    chk.finding(
                        "R2", m.key, f"abort-after-data:{norm(a.ast)[:40]}",
                        "the TCP transport is abort()ed on a path on which the handshake may be complete: abort() discards response ciphertext still queued in the transport's write buffer (close() flushes it), so a response can arrive truncated on this backend only",
                        a.where(),
                    )
                chk.ob("R2", f"{m.key}: `{norm(a.ast)[:40]}` only before the handshake completes", not bad)
    # the inner protocol: abort() after a response write drops the queued tail on both backends
    sp = chk.proj.cls(SERVER_PROTO)
    for m in sp.methods.values():
        if not any(method_call(c) and method_call(c)[1] == "abort" for c in calls(m.node)):
            continue
        g = Builder(chk.proj, inline_self_methods, 4).build(m)
        ab = nodes_calling(g, lambda c: method_call(c) is not None and method_call(c)[1] == "abort" and (dotted(method_call(c)[0]) or "").endswith("transport"))
        wn = nodes_calling(g, lambda c: method_call(c) is not None and method_call(c)[1] in ("write", "writelines") and (dotted(method_call(c)[0]) or "").endswith("transport"))
        n_abort += len(ab)
        after = g.reach([b for x in wn for b, lab in g.succ[x.id] if lab not in ("exc", "raise")]) if wn else set()
        for a in ab:
            bad = a.id in after
            if bad:
                chk.finding("R2", m.key, f"abort-after-write:{norm(a.ast)[:40]}", "the transport is abort()ed after a response write: abort() discards what the transport has not sent yet, so a large response arrives truncated", a.where())
            chk.ob("R2", f"{m.key}: `{norm(a.ast)[:40]}` not after a response write", not bad)
    chk.ob("R2", "no discarding teardown (transport.abort) once data may be queued", True, f"{n_abort} abort sites examined", nontrivial=False)
    tls = chk.proj.cls(TLS_PROTO)
    fo = tls.methods.get("_flush_outgoing")
    if fo is None:
        chk.require("R2", tls.key, "_flush_outgoing", 0, 1, "the wrapper has no routine that moves ciphertext from the BIO to the TCP transport")
        return
    g = build_cfg(chk.proj, fo)
    rd = nodes_calling(g, lambda c: method_call(c) is not None and method_call(c)[1] == "bio_read")
    wrn = nodes_calling(g, lambda c: method_call(c) is not None and method_call(c)[1] == "write" and (dotted(method_call(c)[0]) or "").endswith("transport"))
    ok = bool(rd) and bool(wrn)
    if ok:
        r = rd[0]
        var = dotted(r.ast.targets[0]) if isinstance(r.ast, ast.Assign) else None
        # leaving the loop (reaching exit) from the read node's normal successor requires the
        # `not pending` edge; with a non-empty read the write happens and the loop continues
        from ..paths import BoolFacts, boolfacts_step, walk_paths

        starts = [b for b, lab in g.succ[r.id] if lab not in ("exc", "raise")]
        if r.kind == "test":
            # `while chunk := bio_read(...)`: the read is the loop test; a non-empty read is its true edge
            t_, neg = r.ast, False
            while isinstance(t_, ast.UnaryOp) and isinstance(t_.op, ast.Not):
                t_, neg = t_.operand, not neg
            if isinstance(t_, ast.NamedExpr) and isinstance(t_.target, ast.Name):
                var = t_.target.id
                starts = [b for b, lab in g.succ[r.id] if lab == ("F" if neg else "T")]
        init = BoolFacts({var: True} if var else {}, {var: False} if var else {})
        for s0 in starts:
            for path, _ in walk_paths(g, s0, init, boolfacts_step, stop=lambda n: n.id == r.id or n.kind == "exit", follow=normal_only):
                if path[-1][0].kind == "exit":
                    ok = False  # left the loop although data was pending
                elif path[-1][0].id == r.id and not any(n.id in {w.id for w in wrn} for n, _ in path):
                    ok = False  # looped without writing the chunk
        # written value is the chunk read
        defs = Defs(g)
        for w in wrn:
            call = next(c for c in calls(w.ast) if method_call(c) and method_call(c)[1] == "write")
            if not all(isinstance(le, ast.Call) and method_call(le) and method_call(le)[1] == "bio_read" for _, le in origins(defs, w, call.args[0])):
                ok = False
    if not ok:
        chk.finding("R2", fo.key, "flush-incomplete", "_flush_outgoing can stop (or skip a chunk) while ciphertext is still pending in the BIO", fo.loc())
    chk.ob("R2", f"{fo.key}: loop runs until the BIO is empty and writes every chunk", ok)


def rule_r3(chk: Check) -> None:
    chk.rule("R3", "body bytes written = response.body (optionally .encode('utf-8')); url-rewrapping constructions pass status/meta/body unchanged")
    ci = chk.proj.cls(SERVER_PROTO)
    sr = ci.methods.get("_send_response")
    if sr is None:
        chk.floor("R3", "_send_response", 0, 1)
    from ..cfg import inline_local

    g = Builder(chk.proj, inline_local, 3).build(sr)
    defs = Defs(g)
    ws = nodes_calling(g, lambda c: method_call(c) is not None and dotted(method_call(c)[0]) == "self.transport" and method_call(c)[1] == "write")
    body_leaves = []
    for w in ws:
        call = next(c for c in calls(w.ast) if method_call(c) and method_call(c)[1] == "write")
        for _dn, le in origins(defs, w, call.args[0]):
            body_leaves.append((w, le))
    # classify leaves: header (f-string / encode of f-string) vs body
    ok = True
    n_body = 0
    for w, le in body_leaves:
        if isinstance(le, _Sel):
            continue
        txt = norm(le)
        if isinstance(le, ast.Constant) and le.value in (b"", ""):
            continue
        core = le
        while isinstance(core, ast.Call) and method_call(core) and method_call(core)[1] == "encode":
            enc = core.args[0] if core.args else kwarg(core, "encoding")
            if enc is not None and not (isinstance(enc, ast.Constant) and str(enc.value).lower().replace("_", "-") in ("utf-8", "utf8")):
                ok = False
                chk.finding("R3", sr.key, f"body-codec:{txt[:40]}", f"text bodies are encoded with `{norm(enc)}`, not UTF-8", w.where())
            # UTF-8 encodes every character except lone surrogates, which have no
            # encoding at all: with the UTF-8 codec the error mode cannot alter any
            # encodable text, it only decides whether an unencodable one raises.
            # With any other codec an error handler silently alters ordinary text.
            utf8 = enc is None or (isinstance(enc, ast.Constant) and str(enc.value).lower().replace("_", "-") in ("utf-8", "utf8"))
            if kwarg(core, "errors") is not None and "body" in txt and not utf8:
                ok = False
                chk.finding("R3", sr.key, f"body-lossy:{txt[:40]}", "text bodies are encoded with a codec and error handler that alter characters", w.where())
            core = method_call(core)[0]
        if isinstance(core, ast.JoinedStr) or (isinstance(core, ast.Name)):
            continue  # header
        if "body" in txt:
            n_body += 1
            if isinstance(core, ast.Subscript) and isinstance(core.slice, ast.Slice) and isinstance(core.value, ast.Name):
                # chunked write `for i in range(0, len(X), N): write(X[i:i+N])`: complete iff the
                # loop bound is the length of the very bytes that are sliced
                why = _chunk_loop_ok(sr, w, core)
                if why is None:
                    inner = origins(defs, w, core.value)
                    if all(not isinstance(l2, _Sel) and (dotted(_strip_enc(l2)) == "response.body" or (isinstance(l2, ast.Constant) and l2.value in (b"", ""))) for _, l2 in inner):
                        continue
                    why = f"the sliced value `{norm(core.value)}` is not the handler's body"
                ok = False
                chk.finding("R3", sr.key, f"body-altered:{txt[:50]}", f"the body is written in slices `{txt}` that do not provably cover it: {why}", w.where())
                continue
            if dotted(core) != "response.body":
                ok = False
                chk.finding("R3", sr.key, f"body-altered:{txt[:50]}", f"the body written is `{txt}`, not the handler's body unchanged", w.where())
    chk.require("R3", sr.key, "body write provenance", n_body, 1, "no write of response.body found in the sink: success responses carry no body")
    chk.ob("R3", f"{sr.key}: body = response.body [.encode('utf-8')]", ok, evals=len(body_leaves))
    # rewraps
    n = 0
    for fi in ci.methods.values():
        for c in calls(fi.node):
            if (dotted(c.func) or "").split(".")[-1] == "GeminiResponse" and kwarg(c, "url") is not None and kwarg(c, "body") is not None:
                n += 1
                good = True
                src = None
                for f in ("status", "meta", "body"):
                    v = kwarg(c, f)
                    d = dotted(v) or ""
                    if not d.endswith("." + f):
                        good = False
                    else:
                        base = d[: -len(f) - 1]
                        src = src or base
                        if base != src:
                            good = False
                if not good:
                    chk.finding("R3", fi.key, f"rewrap-alters:{norm(c)[:50]}", "re-wrapping the handler's response (to attach the URL) does not pass status, meta and body through unchanged", fi.loc(c))
                chk.ob("R3", f"{fi.key}: rewrap passes status/meta/body through", good)
    chk.floor("R3", "response re-wrapping sites", n, 2)


def _strip_enc(e: ast.AST) -> ast.AST:
    while isinstance(e, ast.Call) and method_call(e) and method_call(e)[1] == "encode":
        e = method_call(e)[0]
    return e


def _chunk_loop_ok(fi, wnode, sub: ast.Subscript) -> str | None:
    """None if `sub` (= X[i:i+N]) is written inside `for i in range(0, len(X), N)`;
    otherwise the reason."""
    x = sub.value.id
    loop = next((l for l in walk(fi.node) if isinstance(l, ast.For) and any(s2 is sub for s2 in ast.walk(l))), None)
    if loop is None:
        return "the slice is not written in a loop over the whole value"
    it = loop.iter
    if not (isinstance(it, ast.Call) and dotted(it.func) == "range" and len(it.args) == 3):
        return f"the loop `{norm(it)}` is not range(0, len({x}), step)"
    start, stop, step = it.args
    if not (isinstance(start, ast.Constant) and start.value == 0):
        return "the loop does not start at offset 0"
    if not (isinstance(stop, ast.Call) and dotted(stop.func) == "len" and len(stop.args) == 1 and dotted(stop.args[0]) == x):
        return f"the loop bound `{norm(stop)}` is not len({x}) - e.g. a length counted in characters before encoding drops the tail of a non-ASCII body"
    i = dotted(loop.target)
    lo, hi = sub.slice.lower, sub.slice.upper
    if not (dotted(lo) == i and isinstance(hi, ast.BinOp) and isinstance(hi.op, ast.Add) and dotted(hi.left) == i and norm(hi.right) == norm(step)):
        return "the slice bounds do not match the loop step"
    return None


def rule_r4_r5(chk: Check) -> None:
    from .c04 import rule_m4

    chk.rule("R4", "both listeners construct the same inner protocol")
    # reuse the sibling comparison under this property's rule id
    class _Proxy:
        def __init__(self, chk): self.chk = chk
    before = len(chk.findings)
    rule_m4(chk)
    for f in chk.findings[before:]:
        f.rule = "R4"
    for o in chk.obligations:
        if o["rule"].endswith(".M4"):
            o["rule"] = f"{chk.prop}.R4"
    chk.rules.pop("M4", None)
    chk.rule("R5", "the raw TCP transport of the TLS wrapper is written only with bio_read output")
    tls = chk.proj.cls(TLS_PROTO)
    n = 0
    for m in tls.methods.values():
        g = None
        for c in calls(m.node):
            mc = method_call(c)
            if mc and mc[1] in ("write", "writelines") and dotted(mc[0]) == "self.transport":
                n += 1
                if g is None:
                    g = build_cfg(chk.proj, m)
                    defs = Defs(g)
                node = next(x for x in g.nodes if x.ast is not None and any(cc is c for cc in calls(x.ast)))
                good = all(isinstance(le, ast.Call) and method_call(le) and method_call(le)[1] == "bio_read" for _, le in origins(defs, node, c.args[0]))
                if not good:
                    chk.finding("R5", m.key, f"raw-write:{norm(c)[:40]}", "bytes other than TLS engine output are written to the TCP transport: the client's TLS stream is corrupted", m.loc(c))
                chk.ob("R5", f"{m.key}:{norm(c)[:40]}", good)
    chk.floor("R5", "raw write sites", n, 1)


def rule_r6(chk: Check) -> None:
    """close() right after write() relies on the transport flushing what is
    queued.  For ssl= listeners asyncio abandons that flush after
    ssl_shutdown_timeout (default 30 s) and discards the rest: shortening it
    makes a slow reader lose the tail of a large response on this backend only."""
    chk.rule("R6", "listeners do not shorten asyncio's TLS shutdown grace period (ssl_shutdown_timeout absent or >= the 30 s default): close() after write() keeps flushing the queued response")
    n = 0
    for mi in chk.proj.modules.values():
        if not mi.name.startswith("server"):
            continue
        for fi in mi.functions.values():
            for c in calls(fi.node):
                if not (method_call(c) and method_call(c)[1] in ("create_server", "start_server")):
                    continue
                n += 1
                v = kwarg(c, "ssl_shutdown_timeout")
                ok = True
                if v is not None:
                    val = chk.proj.eval_const(fi.module, v)
                    ok = (isinstance(val, (int, float)) and not isinstance(val, bool) and val >= 30) or (isinstance(v, ast.Constant) and v.value is None)
                    if not ok:
                        chk.finding(
                            "R6", fi.key, f"shutdown-timeout:{norm(v)[:30]}",
                            f"the listener is created with ssl_shutdown_timeout={norm(v)} (= {val!r}): asyncio force-closes the connection that long after close() and discards what is still queued, so a response a slow client has not finished reading is truncated (the PyOpenSSL backend still delivers it: the backends diverge)",
                            fi.loc(c),
                        )
                chk.ob("R6", f"{fi.key}: `{norm(c.func)}` keeps the default shutdown grace period", ok)
    chk.require("R6", "server.server", "listener creation sites", n, 1, "no listener is created any more")


def run(chk: Check) -> None:
    rule_r1(chk)
    rule_r2(chk)
    rule_r3(chk)
    rule_r4_r5(chk)
    rule_r6(chk)
    # R7: bodies up to the maximum are accepted by the library's own client: its size cap is
    # compared with the buffered body bytes only (= C13.E3)
    from .c13 import rule_e3
    from .common import reuse

    from .c07 import rule_s4

    reuse(chk, rule_s4, "R8", "PyOpenSSL pump: every decrypted record is handed to the inner protocol at once and the pump keeps reading (= C07.S4): a request is answered on this backend exactly when it is on the other", ("S4",))
    from .c13 import rule_e2

    reuse(chk, rule_e2, "R9", "the library's client hands out the body as the bytes received after the header (bytes for binary types, decoded str for text), for exactly the 2x statuses (= C13.E2): what a handler returned is what a caller - including the reverse proxy - gets", ("E2",))
    from .common import response_fields_immutable

    response_fields_immutable(chk, "R10", "the bytes the client receives are not the ones the handler returned (a bytes body decoded with the declared charset is written back as UTF-8)")
    reuse(chk, rule_e3, "R7", "the client's size cap is applied to the buffered body (len(self.buffer) after the header was split off), is finite, and exceeding it reports an error and closes (= C13.E3)", ("E3",))
    from .c15 import rule_x2

    reuse(chk, rule_x2, "R11", "the request timer is disarmed when the request is handed to the handler (= C15.X2, machine): otherwise a handler that answers after the deadline has its response replaced by `40 Request timeout`", ("X2",))
    chk.trusted = ["CPython ast parser", "engine resolver (attribute annotations)", "asyncio transports deliver everything given to write() before close() completes", "OpenSSL.SSL.Connection.sendall loops until everything is written"]
    chk.assumptions = ["record/buffer boundary behaviour and back-pressure are not decided"]
