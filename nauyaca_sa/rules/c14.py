"""C14 - Titan uploads change only the authorised target, exactly as sent.

  U1 checks dominate mutation: with a violating sample (wrong / missing token
     while tokens are configured; size above the limit; media type outside the
     allowed list; zero-byte request with deletion disabled) no feasible path of
     handle_upload (with _handle_delete inlined) reaches a filesystem mutation;
     with a conforming sample one does; every mutated path is resolved and
     contained (as C02.P1)
  U2 failure atomicity: the contained target is never opened with a truncating
     API; its content changes only through an atomic rename from a temporary
     file in the same directory, which is removed on every failing path
  U3 exact content: the bytes written have provenance request.content
  U4 the upload and delete paths compute the target the same way
  U5 configuration wiring: titan_* settings reach the like-named parameters
Not decided: check/use races, directories created for a later-failing write.
"""

from __future__ import annotations

import ast

from ..astutil import calls, dotted, kwarg, method_call, norm, walk
from ..cfg import Builder, build_cfg, inline_self_methods
from ..flow import Defs, _Sel, origins
from ..paths import normal_only
from ..report import Check
from ..strdom import BoolV, Interp, IntV, NoneV, ObjV, SetV, StrV, lit
from .c02 import _safe_pred_methods, check_value

EXPLANATION = (
    "Static necessary conditions of C14 on FileUploadHandler. (U1) handle_upload with "
    "_handle_delete inlined is interpreted abstractly with four violating samples (bad token "
    "with tokens configured, size above max_size, media type outside allowed_types, zero-byte "
    "request with deletion disabled): no feasible path may contain a filesystem mutation "
    "(mkdir / write / open-for-write / replace / rename / unlink), while a conforming sample "
    "reaches one; each mutated Path is the result of .resolve() and passed the containment test "
    "on every path. (U2) the target is never written in place (write_bytes / write_text / open "
    "with a truncating mode); it changes only by os.replace / rename from a temporary file "
    "created in target.parent, and from the creation of that file every path that does not "
    "complete the rename removes it. (U3) the written bytes have provenance request.content. "
    "(U4/U5) sibling agreement of the target computation; titan_* settings are wired to the "
    "like-named constructor parameters. OS fault behaviour itself and races are not decided. "
    "(U6) The protocol machine finds no second upload-handler invocation / chain consultation over any activation sequence, and the content handed over is buffer[:size] (C07.S2). "
    "(U5, values) the configured upload size limit reaches the handler unchanged (abstract evaluation with 0)."
    ' (U7) the configured token list reaches the upload handler unfiltered: no store to ServerConfig.titan_auth_tokens and no step of from_toml / get_upload_handler / FileUploadHandler.__init__ contains a filtering or element-rewriting comprehension, filter()/map() or a trimming call.'
    ' (U8) = C15.X6 (log processors total). (U9) carrier rule on titan_* settings.'
    ' (U10) the request parsers return a fresh object per call: no memoising decorator on from_line.'
)

HANDLER = "server.handler:FileUploadHandler"
MUTATORS = {"mkdir", "write_bytes", "write_text", "unlink", "rmdir", "rename", "replace", "touch", "symlink_to", "hardlink_to", "chmod"}
OS_MUTATORS = {"os.replace", "os.rename", "os.unlink", "os.remove", "os.rmdir", "os.mkdir", "os.makedirs", "shutil.move", "shutil.rmtree", "shutil.copy", "shutil.copyfile"}
TRUNCATING = {"write_bytes", "write_text"}


def _is_mutation(c: ast.Call) -> str | None:
    mc = method_call(c)
    d = dotted(c.func) or ""
    if d in OS_MUTATORS:
        return d
    if d == "open" or (mc and mc[1] == "open"):
        mode = None
        if d == "open":
            mode = c.args[1] if len(c.args) > 1 else kwarg(c, "mode")
        else:
            mode = c.args[0] if c.args else kwarg(c, "mode")
        if isinstance(mode, ast.Constant) and isinstance(mode.value, str) and any(ch in mode.value for ch in "wxa+"):
            return f"open({mode.value!r})"
        return None
    if mc and mc[1] in MUTATORS and not (dotted(mc[0]) or "").startswith("self.auth"):
        # str.replace on text is not a filesystem mutation
        if mc[1] == "replace" and len(c.args) == 2:
            return None
        return f".{mc[1]}()"
    return None


def _mutation_nodes(g):
    out = []
    for n in g.nodes:
        if n.ast is None or n.kind not in ("stmt", "test", "with"):
            continue
        src = n.ast.context_expr if isinstance(n.ast, ast.withitem) else n.ast
        for c in calls(src):
            m = _is_mutation(c)
            if m:
                out.append((n, c, m))
    return out


def _inlined(chk: Check, ci, fi):
    """handle_upload with its local helpers (delete path, target resolution,
    atomic store, ...) inlined; the containment predicate stays a call."""
    from ..cfg import inline_local

    preds = _safe_pred_methods(ci)
    pol = lambda caller, call, callee, depth, _p=preds: inline_local(caller, call, callee, depth) and callee.node.name not in _p  # noqa: E731
    return Builder(chk.proj, pol, 4).build(fi)


def rule_u1(chk: Check, ci) -> None:
    chk.rule("U1", "for each violating sample no feasible path reaches a filesystem mutation; a conforming sample does; every mutated path is resolved and contained")
    fi = ci.methods.get("handle_upload")
    if fi is None:
        chk.floor("U1", "handle_upload", 0, 1)
    g = _inlined(chk, ci, fi)
    muts = _mutation_nodes(g)
    chk.require("U1", fi.key, "filesystem mutation sites", len(muts), 3, "the upload handler no longer stores or deletes anything")
    mut_ids = {n.id for n, _c, _m in muts}
    req = [p for p in fi.params if p != "self"][0]
    base_oracle = {
        "self.auth_tokens": SetV(frozenset({"good-token"})), "self.max_size": IntV(1000, 1000),
        "self.allowed_types": SetV(frozenset({"text/gemini"})), "self.enable_delete": BoolV(True),
        f"{req}.token": lit("good-token"), f"{req}.size": IntV(10, 10), f"{req}.mime_type": lit("text/gemini"),
        f"{req}.path": lit("/note.gmi"), f"{req}.content": StrV("bytes", maxb=10),
    }
    samples = {
        "wrong token": {f"{req}.token": lit("bad-token")},
        "missing token": {f"{req}.token": NoneV()},
        "size above limit": {f"{req}.size": IntV(1001, 1001)},
        "media type not allowed": {f"{req}.mime_type": lit("image/png")},
        "delete while disabled": {f"{req}.size": IntV(0, 0), "self.enable_delete": BoolV(False)},
        "wrong token on delete": {f"{req}.size": IntV(0, 0), f"{req}.token": lit("bad-token")},
    }

    def run(over):
        interp = Interp(chk.proj, fi)
        interp.oracle = dict(base_oracle)
        interp.oracle.update(over)
        interp.call_oracle = lambda c: BoolV(True) if dotted(c.func) == "isinstance" else None
        res = interp.run_paths(g, lambda n: [], {}, follow=lambda lab: lab != "raise", max_paths=50000)
        hit = []
        for path, _ in res:
            ids = [n.id for n, _l in path]
            if any(i in mut_ids for i in ids):
                hit.append(path)
        return res, hit

    for name, over in samples.items():
        res, hit = run(over)
        ok = not hit and len(res) > 0
        if hit:
            m = next(n for n, _l in hit[0] if n.id in mut_ids)
            chk.finding("U1", fi.key, f"unguarded-mutation:{name}", f"with {name} a filesystem mutation (`{m.text(60)}`) is still reachable: the request changes the upload directory although it must be refused", m.where(), g.fmt_path(hit[0]))
        chk.ob("U1", f"{name} -> no mutation", ok, f"{len(res)} feasible paths", evals=max(1, len(res)))
    res, hit = run({})
    okc = bool(hit)
    if not okc:
        chk.finding("U1", fi.key, "conforming-never-stored", "with a conforming sample no path reaches the store step (abstract evaluation)", fi.loc())
    chk.ob("U1", "conforming upload reaches the store step", okc, evals=max(1, len(res)))
    res, hit = run({f"{req}.size": IntV(0, 0)})
    okd = bool(hit)
    chk.ob("U1", "conforming delete reaches unlink", okd, evals=max(1, len(res)))
    if not okd:
        chk.finding("U1", fi.key, "conforming-never-deleted", "with deletion enabled a zero-byte request never reaches unlink", fi.loc())
    # containment of the mutated paths, on the inlined graph
    preds = _safe_pred_methods(ci)
    g2 = g
    d2 = Defs(g2)
    for n, c, what in muts:
        m = n.func
        mc = method_call(c)
        cand = None
        if (dotted(c.func) or "") in OS_MUTATORS or dotted(c.func) == "open":
            mc = None
        if mc and isinstance(mc[0], ast.Name):
            cand = mc[0]
        elif mc and isinstance(mc[0], ast.Attribute) and mc[0].attr == "parent" and isinstance(mc[0].value, ast.Name):
            cand = mc[0].value  # parent of a contained non-root path is contained
        elif (dotted(c.func) or "") in OS_MUTATORS or dotted(c.func) == "open":
            args = [a for a in c.args if isinstance(a, ast.Name)]
            if dotted(c.func) in ("os.replace", "os.rename", "shutil.move") and len(c.args) >= 2 and isinstance(c.args[1], ast.Name):
                cand = c.args[1]
            elif args:
                cand = args[0]
        if cand is None:
            chk.finding("U1", m.key, f"mutation-operand:{norm(c)[:50]}", "cannot identify the path operand of a filesystem mutation", n.where())
            chk.ob("U1", f"{m.key}:{norm(c)[:40]} contained", False)
            continue
        ok = True
        handled = False
        for dn, le in origins(d2, n, cand):
            # a temporary path built as <contained>.parent / <name not taken from the request>
            if isinstance(le, ast.BinOp) and isinstance(le.op, ast.Div) and isinstance(le.left, ast.Attribute) and le.left.attr == "parent" and isinstance(le.left.value, ast.Name):
                handled = True
                reqish = [x for x in walk(le.right) if isinstance(x, (ast.Name, ast.Attribute)) and (dotted(x) or "").split(".")[0] in fi.params and (dotted(x) or "").split(".")[0] != "self"]
                if reqish:
                    ok = False
                    chk.finding("U1", m.key, f"temp-name-from-request:{norm(le)[:50]}", "a temporary file name is derived from the request: it can contain path separators", dn.where())
                elif not check_value(chk, g2, d2, dn, le.left.value.id, preds, dn.func, what, rule="U1"):
                    ok = False
            elif isinstance(le, ast.Call) and (dotted(le.func) or "").split(".")[-1] in ("mkstemp", "NamedTemporaryFile"):
                handled = True
        if not handled:
            if not check_value(chk, g2, d2, n, cand.id, preds, m, what, rule="U1"):
                ok = False
        chk.ob("U1", f"{m.key}: `{norm(c)[:50]}` operates on a resolved, contained path", ok, evals=2)


def rule_u2(chk: Check, ci) -> None:
    chk.rule("U2", "no in-place (truncating) write of the target; content changes by atomic rename from a temp file in the same directory; temp file removed on every failing path")
    fi = ci.methods["handle_upload"]
    g = _inlined(chk, ci, fi)
    defs = Defs(g)
    muts = _mutation_nodes(g)
    trunc = []
    renames = []
    creates = []
    for n, c, what in muts:
        mc = method_call(c)
        if mc and mc[1] in TRUNCATING:
            trunc.append((n, c))
        if what.startswith("open("):
            # opening the final target for writing truncates it; opening a temp file is the idiom
            tgt = c.args[0] if dotted(c.func) == "open" and c.args else (mc[0] if mc else None)
            creates.append((n, c, tgt))
        if (dotted(c.func) or "") in ("os.replace", "os.rename") or (mc and mc[1] in ("replace", "rename") and len(c.args) == 1):
            renames.append((n, c))
    for n, c in trunc:
        chk.finding("U2", fi.key, f"in-place-write:{norm(c)[:50]}", f"`{norm(c)}` truncates the target before writing: a failure after k bytes answers 40 but leaves an existing file destroyed", n.where())
    ok = not trunc and bool(renames)
    if not renames and not trunc:
        chk.finding("U2", fi.key, "no-atomic-rename", "the upload is not put in place by an atomic rename (os.replace / Path.replace)", fi.loc())
    # the opened-for-write path must not be the final target
    for n, c, tgt in creates:
        if tgt is None:
            continue
        final = False
        for _dn, le in origins(defs, n, tgt) if isinstance(tgt, ast.Name) else [(n, tgt)]:
            if isinstance(le, ast.Call) and method_call(le) and method_call(le)[1] == "resolve":
                final = True
        if final:
            ok = False
            chk.finding("U2", fi.key, f"in-place-open:{norm(c)[:50]}", "the resolved target itself is opened for writing (truncated in place)", n.where())
    # cleanup: from temp creation, every path that does not pass the rename's success passes a removal
    if renames and creates:
        rn = renames[0][0]
        rm = {n.id for n, c, what in muts if what in (".unlink()", "os.unlink", "os.remove")}
        for n, c, tgt in creates:
            succ_edges = {(rn.id, b, lab) for b, lab in g.succ[rn.id] if lab not in ("exc", "raise")}
            starts = [b for b, lab in g.succ[n.id]]
            par = g.reach(starts, blocked_nodes=rm, blocked_edges=succ_edges)
            leaks = [x for x in (g.exit.id, g.raise_exit.id) if x in par]
            # leaving by normal exit after the rename succeeded is blocked above; anything else must clean up
            if leaks:
                ok = False
                chk.finding("U2", fi.key, "temp-file-leak", "after the temporary file exists there is a failing path on which it is not removed: a refused upload leaves a stray file in the upload directory", n.where(), g.fmt_path(g.path_to(par, leaks[0])))
    chk.ob("U2", f"{fi.key}: atomic store", ok, f"{len(renames)} rename sites, {len(trunc)} truncating writes", evals=len(muts))


def rule_u3(chk: Check, ci) -> None:
    chk.rule("U3", "the bytes written are request.content unchanged")
    fi = ci.methods["handle_upload"]
    g = _inlined(chk, ci, fi)
    defs = Defs(g)
    req = [p for p in fi.params if p != "self"][0]
    n = 0
    ok = True
    for node in g.nodes:
        if node.ast is None or node.kind not in ("stmt", "with"):
            continue
        for c in calls(node.ast if not isinstance(node.ast, ast.withitem) else node.ast.context_expr):
            mc = method_call(c)
            if mc and mc[1] in ("write", "write_bytes", "write_text", "writelines") and c.args:
                n += 1
                for _dn, le in origins(defs, node, c.args[0]) if isinstance(c.args[0], ast.Name) else [(node, c.args[0])]:
                    if dotted(le) != f"{req}.content":
                        ok = False
                        chk.finding("U3", fi.key, f"content-altered:{norm(le)[:50]}", f"the bytes stored are `{norm(le)}`, not the request's content exactly", node.where())
    chk.require("U3", fi.key, "content write", n, 1, "handle_upload never writes the content")
    chk.ob("U3", f"{fi.key}: stored bytes = request.content", ok, evals=max(1, n))


def rule_u4_u5(chk: Check, ci) -> None:
    chk.rule("U4", "upload and delete compute the target with the same expression and containment predicate")
    chk.rule("U5", "ServerConfig.get_upload_handler wires titan_* settings to the like-named parameters and returns None when disabled")
    shapes = {}
    for name, var in (("handle_upload", "request.path"), ("_handle_delete", "path")):
        m = ci.methods.get(name)
        if m is None:
            continue
        for st in walk(m.node):
            if isinstance(st, ast.Assign) and isinstance(st.value, ast.Call) and method_call(st.value) and method_call(st.value)[1] == "resolve" and "upload_dir" in norm(st.value):
                shapes[name] = norm(st.value).replace(var, "<PATH>")
    ok = len(shapes) == 2 and len(set(shapes.values())) == 1
    if len(shapes) == 2 and not ok:
        chk.note(f"U4 (advisory, not a verdict): upload and delete resolve their target differently: {shapes}; U1 checks each mutated path on its own")
    if len(shapes) == 2:
        chk.ob("U4", "target computation compared (advisory)", True, "agree" if ok else "DIFFER", nontrivial=False)
    gu = chk.proj.func("server.config:ServerConfig.get_upload_handler")
    pairs = {"upload_dir": "self.titan_upload_dir", "max_size": "self.titan_max_upload_size", "allowed_types": "self.titan_allowed_mime_types", "enable_delete": "self.titan_enable_delete"}
    found = 0
    g = build_cfg(chk.proj, gu)
    defs = Defs(g)
    for c in calls(gu.node):
        if (dotted(c.func) or "").split(".")[-1] == "FileUploadHandler":
            found += 1
            node = next(x for x in g.nodes if x.ast is not None and any(cc is c for cc in calls(x.ast)))
            for kw, attr in pairs.items():
                v = kwarg(c, kw)
                okk = v is not None and dotted(v) == attr
                if not okk:
                    chk.finding("U5", gu.key, f"field-crossed:{kw}", f"FileUploadHandler.{kw} is fed from `{norm(v) if v is not None else 'nothing'}` instead of {attr}", gu.loc(c))
                chk.ob("U5", f"FileUploadHandler.{kw} <- {attr}", okk)
            v = kwarg(c, "auth_tokens")
            okt = False
            if v is not None:
                ls = origins(defs, node, v) if isinstance(v, ast.Name) else [(node, v)]
                okt = all("self.titan_auth_tokens" in norm(le) for _, le in ls if not isinstance(le, _Sel))
            if not okt:
                chk.finding("U5", gu.key, "field-crossed:auth_tokens", "the configured auth tokens do not reach the upload handler", gu.loc(c))
            chk.ob("U5", "FileUploadHandler.auth_tokens <- self.titan_auth_tokens", okt)
    chk.require("U5", gu.key, "FileUploadHandler construction", found, 1, "the upload handler is never built from the configuration")
    # disabled -> None
    interp = Interp(chk.proj, gu)
    interp.oracle = {"self.enable_titan": BoolV(False), "self.titan_upload_dir": ObjV("dir")}
    res = interp.run_paths(g, lambda n: [n.ast.value] if n.kind == "stmt" and isinstance(n.ast, ast.Return) and n.ast.value is not None else [], {})
    got = set()
    for path, (st, recs) in res:
        if path[-1][0].kind == "exit":
            rv = [vals[0] for node, vals, _ in recs if isinstance(node.ast, ast.Return)]
            got.add("none" if rv and isinstance(rv[-1], NoneV) else "handler")
    okn = got == {"none"}
    if not okn:
        chk.finding("U5", gu.key, "enabled-when-disabled", "with enable_titan = false an upload handler is still created", gu.loc())
    chk.ob("U5", "enable_titan = false -> no handler", okn)


def rule_u1_pred(chk: Check, ci) -> None:
    """The upload handler's containment predicate is path-wise against a
    resolved root and truthy only when the containment call succeeded (same rule
    as C02.P2, reported under U1)."""
    from .c02 import rule_p2

    before = len(chk.findings)
    nob = len(chk.obligations)
    rule_p2(chk, ci, _safe_pred_methods(ci))
    for f in chk.findings[before:]:
        f.rule = "U1"
    for o in chk.obligations[nob:]:
        o["rule"] = f"{chk.prop}.U1"
    chk.rules.pop("P2", None)


def _token_rewrite(e: ast.AST) -> ast.AST | None:
    """A sub-expression that drops or rewrites elements of a token collection:
    a comprehension with a filter or a non-identity element, filter()/map(), or
    a trimming / case-folding call."""
    for x in walk(e):
        if isinstance(x, (ast.ListComp, ast.SetComp, ast.GeneratorExp)):
            g0 = x.generators[0]
            if any(g_.ifs for g_ in x.generators) or not (isinstance(x.elt, ast.Name) and isinstance(g0.target, ast.Name) and x.elt.id == g0.target.id):
                return x
        elif isinstance(x, ast.Call):
            d = dotted(x.func) or ""
            if d in ("filter", "map"):
                return x
            if method_call(x) and method_call(x)[1] in ("strip", "lstrip", "rstrip", "lower", "upper", "casefold", "discard", "remove", "difference", "intersection"):
                return x
    return None


def rule_u7(chk: Check) -> None:
    """'If tokens are configured' every upload needs one of them.  A blank or
    odd entry in the configured list can never be presented (the parser trims
    the request's token) - it locks uploads, it does not open them.  Dropping
    such entries on the way to the handler can empty the list, and an empty list
    means 'no authentication'."""
    chk.rule("U7", "the configured token list reaches the upload handler as written: no store to ServerConfig.titan_auth_tokens, no step of from_toml / get_upload_handler / FileUploadHandler.__init__ filters or rewrites its elements (a list emptied by filtering switches authentication off)")
    cfg = chk.proj.cls("server.config:ServerConfig")
    sites: list[tuple[object, ast.AST, ast.AST]] = []
    for m in cfg.methods.values():
        for st in walk(m.node):
            if isinstance(st, (ast.Assign, ast.AnnAssign)) and st.value is not None:
                tg = st.targets if isinstance(st, ast.Assign) else [st.target]
                if any(dotted(t) == "self.titan_auth_tokens" for t in tg):
                    sites.append((m, st.value, st))
            elif isinstance(st, ast.Call):
                if dotted(st.func) in ("cls", "ServerConfig") and kwarg(st, "titan_auth_tokens") is not None:
                    sites.append((m, kwarg(st, "titan_auth_tokens"), st))
                elif (dotted(st.func) or "").split(".")[-1] == "FileUploadHandler" and kwarg(st, "auth_tokens") is not None:
                    sites.append((m, kwarg(st, "auth_tokens"), st))
    h = chk.proj.cls(HANDLER)
    init = h.methods.get("__init__")
    if init is not None:
        for st in walk(init.node):
            if isinstance(st, (ast.Assign, ast.AnnAssign)) and st.value is not None and any(dotted(t) == "self.auth_tokens" for t in (st.targets if isinstance(st, ast.Assign) else [st.target])):
                sites.append((init, st.value, st))
    chk.require("U7", cfg.key, "steps that carry the token list (from_toml, get_upload_handler, handler constructor)", len(sites), 3, "the configured tokens no longer reach the upload handler: uploads are not authenticated")
    for m, val, st in sites:
        # follow single-assignment locals of the function
        exprs, seen = [val], set()
        while exprs:
            e = exprs.pop()
            for nm in [x for x in walk(e) if isinstance(x, ast.Name) and x.id not in seen and x.id not in m.params]:
                seen.add(nm.id)
                exprs += [s2.value for s2 in walk(m.node) if isinstance(s2, ast.Assign) and any(isinstance(t, ast.Name) and t.id == nm.id for t in s2.targets)]
            bad = _token_rewrite(e)
            if bad is not None:
                chk.finding(
                    "U7", m.key, f"token-list-rewritten:{norm(bad)[:50]}",
                    f"`{norm(bad)[:80]}` drops or rewrites entries of the configured token list on its way to the upload handler: a list that only holds entries nobody can present (blank strings) becomes empty, an empty list means 'no authentication', and every upload is then accepted without a token",
                    m.loc(st),
                )
                chk.ob("U7", f"{m.key}: `{norm(st)[:50]}` passes the tokens through", False)
                break
        else:
            chk.ob("U7", f"{m.key}: `{norm(st)[:50]}` passes the tokens through", True)


def run(chk: Check) -> None:
    ci = chk.proj.cls(HANDLER)
    rule_u1(chk, ci)
    rule_u1_pred(chk, ci)
    rule_u2(chk, ci)
    rule_u3(chk, ci)
    rule_u4_u5(chk, ci)
    rule_u7(chk)
    from .common import config_fields_carrier

    config_fields_carrier(chk, "U9", ("titan_", "enable_titan"), "upload settings (tokens, size limit, media types, delete switch, directory)", "uploads are accepted that the written configuration refuses")
    from .c15 import rule_x6
    from .common import reuse as _reuse8

    _reuse8(chk, rule_x6, "U8", "the logging pipeline cannot raise between the store and the response: the package's own structlog processors are total (= C15.X6) - a raising log call after the file was written turns a completed upload into a `40`", ("X6",))
    # U5 (values): the configured size limit reaches the handler as written (0 = frozen capsule)
    from .c10 import config_value_fidelity

    config_value_fidelity(chk, "U5", {"titan_max_upload_size": "max_upload_size"}, "uploads larger than the configured limit are accepted and change files")
    # U6: one upload-handler invocation per connection, so the stored bytes are the
    # first `size` bytes the client sent and not what a later read left behind
    from .c07 import rule_s2
    from .common import machine_findings

    chk.rule("U6", "the protocol hands the upload handler the first `size` buffered bytes (= C07.S2) and invokes it at most once per connection over every activation sequence (machine)")
    machine_findings(chk, "U6", {"double-dispatch", "double-consult", "dispatch-after-response"}, "at most one upload-handler invocation, never after the connection was answered", only=lambda v: v.extra == "upload" or (v.kind == "double-consult" and "titan" in v.chain.lower()))
    before, nob = len(chk.findings), len(chk.obligations)
    rule_s2(chk)
    for f in chk.findings[before:]:
        f.rule = "U6"
    for o in chk.obligations[nob:]:
        o["rule"] = f"{chk.prop}.U6"
    chk.rules.pop("S2", None)
    from .common import request_objects_fresh

    request_objects_fresh(chk, "U10")
    chk.trusted = ["CPython ast parser", "engine CFG / abstract evaluator / reaching definitions", "POSIX rename atomicity; pathlib.resolve"]
    chk.assumptions = ["an empty token list means no authentication is configured (the property says 'if tokens are configured')", "directories created by mkdir(parents=True) for a later-failing store are not considered"]
