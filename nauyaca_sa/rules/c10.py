"""C10 - Rate limiting bounds admitted requests per address in every window.

The window inequality is arithmetic over real time and is not decided.
Structural necessary conditions:
  L1 every assignment to a bucket's token count is either a refill clamped at
     capacity or a decrement guarded by the availability test; the refill
     updates the time stamp; True is returned only on the decrement path
  L2 isolation: buckets are keyed by the peer address only, one fresh bucket
     per new key, no shared mutable state in the bucket class
  L3 eviction cannot mint allowance: deleting a bucket resets that address to a
     full bucket, so the eviction condition must depend on the bucket's fill
     state (tokens, or capacity and refill_rate), not on idle time alone
  L4 the decision is atomic: no suspension point between bucket lookup and the
     verdict, none inside consume, none between selecting and deleting buckets
  L5 only the monotonic clock is read
  L6 refusal is status 44 carrying the configured retry hint, returned exactly
     when consume() fails
"""

from __future__ import annotations

import ast

from ..astutil import calls, dotted, is_self_attr, kwarg, method_call, norm, walk
from ..cfg import build_cfg
from ..flow import Defs, _Sel, origins
from ..paths import normal_only
from .common import nodes_calling
from ..report import Check
from ..strdom import BoolV, Interp, IntV, StrV

EXPLANATION = (
    "Static necessary conditions of C10 (the bound capacity + rate x T itself is arithmetic "
    "over real time and is not decided). (L1) in TokenBucket.consume every store to the token "
    "count is a refill bounded by capacity (min(capacity, ...) or a dominating clamp) or a "
    "decrement on the success edge of `tokens >= n`; the refill is followed by the time-stamp "
    "update on every path; True is returned only after the decrement. (L2) the bucket map is "
    "indexed only by the client_ip parameter; a missing key gets a new TokenBucket; the bucket "
    "class has no class-level mutable attribute. (L3) the `del buckets[...]` in the cleanup "
    "loop is control-dependent on an expression reading the bucket's tokens (or capacity and "
    "refill_rate). (L4) no await between bucket lookup and return, none in consume, none "
    "between computing the eviction set and deleting. (L5) only time.monotonic is read. (L6) "
    "abstract evaluation: consume() false -> (False, '44 ...retry_after...'), true -> (True, None). "
    "(L7) from_toml passes the configured capacity / refill_rate / retry_after through unchanged (abstract evaluation with the key set to 0) and get_rate_limit_config passes the like-named fields. "
    "(L8) With rate limiting enabled a RateLimiter is installed on every path of start_server. "
    "(L9) = C04.M1: a refused request is never dispatched."
    " (L11) carrier rule on rate_limit_*. (L12) RateLimitConfig defines no __len__/__bool__. (L13) = C04.M3: the bucket key is the transport's own peer address (the leaf must be self.peer_name[0] itself)."
)

MW = "server.middleware"


def rule_l1(chk: Check) -> None:
    chk.rule("L1", "abstract evaluation of TokenBucket.consume (helpers inlined): the token count stays within [0, capacity] on every path, success is reported only after a token was taken, failure leaves the refilled count untouched, and the time stamp is set to the clock reading used")
    from ..cfg import Builder, inline_local
    from ..strdom import IntV, ObjV

    fi = chk.proj.func(f"{MW}:TokenBucket.consume")
    g = Builder(chk.proj, inline_local, 3).build(fi)
    npar = [p for p in fi.params if p != "self"]
    CAP, NOW = 10, 1000
    rets_seen = 0
    problems: dict[str, tuple] = {}
    n_paths = 0
    for t0 in (IntV(0, 0), IntV(0, CAP), IntV(CAP, CAP)):
        interp = Interp(chk.proj, fi)
        interp.oracle = {"self.capacity": IntV(CAP, CAP), "self.refill_rate": IntV(0, 5), "self.tokens": t0, "self.last_update": IntV(0, NOW)}
        interp.call_oracle = lambda c: IntV(NOW, NOW) if (dotted(c.func) or "").startswith("time.") else None
        init = {npar[0]: IntV(1, 1)} if npar else {}
        res = interp.run_paths(g, lambda n: [n.ast.value] if n.kind == "stmt" and isinstance(n.ast, ast.Return) and not n.stack and n.ast.value is not None else [], init)
        for path, (st, recs) in res:
            if path[-1][0].kind != "exit":
                continue
            n_paths += 1
            tok = interp.eval(ast.parse("self.tokens", mode="eval").body, st)
            lu = interp.eval(ast.parse("self.last_update", mode="eval").body, st)
            rv = [vals[0] for node, vals, _ in recs if isinstance(node.ast, ast.Return)]
            verdict = None
            if rv:
                from ..strdom import truthy

                verdict = truthy(rv[-1])
                rets_seen += 1
            if not (isinstance(tok, IntV) and tok.lo is not None and tok.hi is not None and tok.lo >= 0 and tok.hi <= CAP):
                problems.setdefault("bounds", (f"with {t0} tokens before the call, the count afterwards is {tok}: outside [0, capacity={CAP}] (an unclamped refill lets an idle address burst beyond capacity; an unguarded decrement lets it go negative)", path))
            if verdict is True and isinstance(tok, IntV) and not (tok.hi is not None and tok.hi <= CAP - 1):
                problems.setdefault("success-without-token", (f"consume() reports success on a path where no token was taken (count afterwards {tok})", path))
            if verdict is None:
                problems.setdefault("verdict", ("consume() returns a value whose truth cannot be decided from the availability test", path))
            if not (isinstance(lu, IntV) and lu.lo == lu.hi == NOW):
                problems.setdefault("refill-without-timestamp", (f"after the call last_update is {lu}, not the clock reading used for the refill: the same idle time is credited again on the next call", path))
    for k, (msg, path) in problems.items():
        chk.finding("L1", fi.key, k, msg, fi.loc(), g.fmt_path(path))
    chk.ob("L1", f"{fi.key}: 0 <= tokens <= capacity on every path", "bounds" not in problems, f"{n_paths} feasible paths", evals=max(1, n_paths))
    chk.ob("L1", f"{fi.key}: success only after taking a token", "success-without-token" not in problems and "verdict" not in problems and rets_seen > 0)
    chk.ob("L1", f"{fi.key}: last_update = clock reading", "refill-without-timestamp" not in problems)
    # with an empty bucket and no elapsed time the request must be refused
    interp = Interp(chk.proj, fi)
    interp.oracle = {"self.capacity": IntV(CAP, CAP), "self.refill_rate": IntV(1, 1), "self.tokens": IntV(0, 0), "self.last_update": IntV(NOW, NOW)}
    interp.call_oracle = lambda c: IntV(NOW, NOW) if (dotted(c.func) or "").startswith("time.") else None
    res = interp.run_paths(g, lambda n: [n.ast.value] if n.kind == "stmt" and isinstance(n.ast, ast.Return) and not n.stack and n.ast.value is not None else [], {npar[0]: IntV(1, 1)} if npar else {})
    from ..strdom import truthy

    verdicts = {truthy([vals[0] for node, vals, _ in recs if isinstance(node.ast, ast.Return)][-1]) for path, (st, recs) in res if path[-1][0].kind == "exit" and any(isinstance(node.ast, ast.Return) for node, _v, _s in recs)}
    ok = verdicts == {False}
    if not ok:
        chk.finding("L1", fi.key, "admit-on-empty-bucket", f"with an empty bucket and no time elapsed consume() can return {sorted(map(str, verdicts))}: a request is admitted without allowance", fi.loc())
    chk.ob("L1", f"{fi.key}: empty bucket, no elapsed time -> refused", ok)
    # and with a full bucket it must be admitted
    interp = Interp(chk.proj, fi)
    interp.oracle = {"self.capacity": IntV(CAP, CAP), "self.refill_rate": IntV(1, 1), "self.tokens": IntV(CAP, CAP), "self.last_update": IntV(NOW, NOW)}
    interp.call_oracle = lambda c: IntV(NOW, NOW) if (dotted(c.func) or "").startswith("time.") else None
    res = interp.run_paths(g, lambda n: [n.ast.value] if n.kind == "stmt" and isinstance(n.ast, ast.Return) and not n.stack and n.ast.value is not None else [], {npar[0]: IntV(1, 1)} if npar else {})
    verdicts = {truthy([vals[0] for node, vals, _ in recs if isinstance(node.ast, ast.Return)][-1]) for path, (st, recs) in res if path[-1][0].kind == "exit" and any(isinstance(node.ast, ast.Return) for node, _v, _s in recs)}
    ok = verdicts == {True}
    if not ok:
        chk.finding("L1", fi.key, "refuse-on-full-bucket", f"with a full bucket consume() can return {sorted(map(str, verdicts))}: a request is refused although allowance is available", fi.loc())
    chk.ob("L1", f"{fi.key}: full bucket -> admitted", ok)


def _elapsed_before(g, lu) -> bool:
    return False


def rule_l2(chk: Check) -> None:
    chk.rule("L2", "buckets keyed by the peer address only; a fresh bucket per missing key; no shared mutable state")
    fi = chk.proj.func(f"{MW}:RateLimiter.process_request")
    ipp = [p for p in fi.params if "ip" in p]
    ok = bool(ipp)
    subs = [n for n in walk(fi.node) if isinstance(n, ast.Subscript) and dotted(n.value) == "self.buckets"]
    chk.require("L2", fi.key, "bucket map accesses", len(subs), 2, "the limiter does not look buckets up in its per-address map")
    for s in subs:
        if not (ipp and dotted(s.slice) == ipp[0]):
            ok = False
            chk.finding("L2", fi.key, f"bucket-key:{norm(s.slice)}", f"a bucket is selected by `{norm(s.slice)}` instead of the peer address alone: traffic from one address alters the outcome for another (or one address gets several buckets)", fi.loc(s))
    for t in [n for n in walk(fi.node) if isinstance(n, ast.Compare) and any(dotted(c) == "self.buckets" for c in n.comparators)]:
        if not (ipp and dotted(t.left) == ipp[0]):
            ok = False
            chk.finding("L2", fi.key, f"bucket-key-test:{norm(t.left)}", "bucket presence is tested with a key other than the peer address", fi.loc(t))
    chk.ob("L2", "bucket map indexed by client_ip only", ok, evals=len(subs))
    # a new TokenBucket per missing key
    new = [c for c in calls(fi.node) if (dotted(c.func) or "").split(".")[-1] == "TokenBucket"]
    okn = len(new) >= 1
    for st in walk(fi.node):
        if isinstance(st, ast.Assign) and any(isinstance(t, ast.Subscript) and dotted(t.value) == "self.buckets" for t in st.targets):
            if not (isinstance(st.value, ast.Call) and (dotted(st.value.func) or "").split(".")[-1] == "TokenBucket"):
                okn = False
                chk.finding("L2", fi.key, f"shared-bucket:{norm(st.value)[:40]}", "a map entry is assigned something other than a freshly constructed TokenBucket: addresses may share allowance", fi.loc(st))
            else:
                a = st.value.args + [k.value for k in st.value.keywords]
                if not any("capacity" in norm(x) for x in a) or not any("refill_rate" in norm(x) for x in a):
                    okn = False
                    chk.finding("L2", fi.key, "bucket-parameters", "new buckets are not created with the configured capacity and refill_rate", fi.loc(st))
    chk.ob("L2", "fresh TokenBucket(capacity, refill_rate) per new address", okn)
    # the bucket consumed is the address's own
    g = build_cfg(chk.proj, fi)
    defs = Defs(g)
    okc = False
    for n in g.nodes:
        if n.ast is None or n.kind != "test":
            continue
        for c in calls(n.ast):
            mc = method_call(c)
            if mc and mc[1] == "consume":
                ls = origins(defs, n, mc[0]) if isinstance(mc[0], ast.Name) else [(n, mc[0])]
                okc = bool(ls) and all(isinstance(le, ast.Subscript) and dotted(le.value) == "self.buckets" and ipp and dotted(le.slice) == ipp[0] for _, le in ls)
    if not okc:
        chk.finding("L2", fi.key, "consume-target", "the bucket whose token is consumed is not self.buckets[client_ip]", fi.loc())
    chk.ob("L2", "consume() on the address's own bucket", okc)
    # no class-level mutable state in TokenBucket
    ci = chk.proj.cls(f"{MW}:TokenBucket")
    shared = [st for st in ci.node.body if isinstance(st, (ast.Assign, ast.AnnAssign)) and isinstance(getattr(st, "value", None), (ast.List, ast.Dict, ast.Set, ast.Call))]
    if shared:
        chk.finding("L2", ci.key, "class-level-state", "TokenBucket has class-level mutable state shared by all addresses", f"{ci.module.relpath}:{shared[0].lineno}")
    chk.ob("L2", "TokenBucket has no class-level mutable state", not shared)
    init = ci.methods.get("__init__")
    okt = False
    if init is not None:
        for st in walk(init.node):
            if isinstance(st, ast.Assign) and any(is_self_attr(t, "tokens") for t in st.targets):
                okt = "capacity" in norm(st.value) and not any(isinstance(x, ast.BinOp) and isinstance(x.op, (ast.Mult, ast.Add)) for x in walk(st.value))
    if not okt:
        chk.finding("L2", ci.key, "initial-fill", "a new bucket does not start with exactly `capacity` tokens", init.loc() if init else "")
    chk.ob("L2", "new bucket starts with capacity tokens", okt)


def rule_l3(chk: Check) -> None:
    chk.rule("L3", "eviction condition reads the bucket's fill state (tokens, or capacity and refill_rate): evicting resets the address to a full bucket")
    fi = chk.proj.func(f"{MW}:RateLimiter._cleanup_loop") if chk.proj.has_func(f"{MW}:RateLimiter._cleanup_loop") else None
    ci = chk.proj.cls(f"{MW}:RateLimiter")
    dels = []
    for m in ci.methods.values():
        for st in walk(m.node):
            if isinstance(st, ast.Delete) and any(isinstance(t, ast.Subscript) and dotted(t.value) == "self.buckets" for t in st.targets):
                dels.append((m, st))
            if isinstance(st, ast.Call) and method_call(st) and dotted(method_call(st)[0]) == "self.buckets" and method_call(st)[1] in ("pop", "clear", "popitem"):
                dels.append((m, st))
    if not dels:
        chk.note("L3: no bucket eviction exists; nothing can mint allowance (memory growth is not a C10 concern)")
        chk.ob("L3", "no eviction sites", True, nontrivial=False)
        return
    for m, st in dels:
        g = build_cfg(chk.proj, m)
        defs = Defs(g)
        node = next(n for n in g.nodes if n.ast is not None and any(sub is st for sub in ast.walk(n.ast)))
        # conditions the deletion is control/data dependent on: the filter of the
        # comprehension that computes the key set, or enclosing tests
        conds: list[ast.AST] = []
        key = st.targets[0].slice if isinstance(st, ast.Delete) else (st.args[0] if st.args else None)
        # loop variable -> iterated collection -> comprehension ifs
        for h in [n for n in g.nodes if n.kind == "for"]:
            if key is not None and dotted(h.ast.target) == dotted(key) and any(sub is st for sub in ast.walk(h.ast)):
                for _dn, le in (origins(defs, h, h.ast.iter) if isinstance(h.ast.iter, ast.Name) else [(h, h.ast.iter)]):
                    if isinstance(le, (ast.ListComp, ast.SetComp, ast.GeneratorExp)):
                        for gen in le.generators:
                            conds += gen.ifs
                    elif not isinstance(le, _Sel):
                        conds.append(le)
        # enclosing if tests
        for n in g.nodes:
            if n.kind == "test" and n.ast is not None:
                ts = [b for b, lab in g.succ[n.id] if lab == "T"]
                fs = [b for b, lab in g.succ[n.id] if lab == "F"]
                rt = node.id in g.reach(ts, follow=normal_only)
                rf = node.id in g.reach(fs, follow=normal_only)
                if rt != rf and not (isinstance(n.ast, ast.Constant)):
                    conds.append(n.ast)
        reads = set()
        for c in conds:
            for x in walk(c):
                if isinstance(x, ast.Attribute):
                    reads.add(x.attr)
                if isinstance(x, ast.Call) and method_call(x):
                    reads.add(method_call(x)[1] + "()")
        ok = "tokens" in reads or ({"capacity", "refill_rate"} <= reads) or any(r.endswith("()") and ("full" in r or "refill" in r) for r in reads)
        if not ok:
            chk.finding(
                "L3", m.key, "eviction-ignores-fill-state",
                f"buckets are evicted on a condition that reads only {sorted(reads) or 'nothing of the bucket'}: an evicted address restarts with a full bucket, which for any configuration with capacity / refill_rate above the idle threshold hands it more allowance than it would have had",
                f"{m.module.relpath}:{st.lineno}",
            )
        chk.ob("L3", f"{m.key}: eviction depends on fill state", ok, f"condition reads {sorted(reads)}")


def rule_l4_l5(chk: Check) -> None:
    chk.rule("L4", "no suspension point inside the rate-limit decision, inside consume, or between selecting and deleting buckets")
    chk.rule("L5", "only the monotonic clock is read by the bucket and the cleanup loop")
    fi = chk.proj.func(f"{MW}:RateLimiter.process_request")
    aw = [n for n in walk(fi.node) if isinstance(n, (ast.Await, ast.AsyncFor, ast.AsyncWith))]
    if aw:
        chk.finding("L4", fi.key, "await-in-decision", "the rate-limit decision contains a suspension point: two requests from one address can interleave between the bucket lookup and the consume and both be admitted on one token", fi.loc(aw[0]))
    chk.ob("L4", f"{fi.key}: no await", not aw)
    cf = chk.proj.func(f"{MW}:TokenBucket.consume")
    okc = not cf.is_async and not any(isinstance(n, ast.Await) for n in walk(cf.node))
    if not okc:
        chk.finding("L4", cf.key, "await-in-consume", "TokenBucket.consume can be suspended between refill and decrement", cf.loc())
    chk.ob("L4", f"{cf.key}: synchronous", okc)
    if chk.proj.has_func(f"{MW}:RateLimiter._cleanup_loop"):
        cl = chk.proj.func(f"{MW}:RateLimiter._cleanup_loop")
        g = build_cfg(chk.proj, cl)
        sel = [n for n in g.nodes if n.kind == "stmt" and isinstance(n.ast, ast.Assign) and any(isinstance(x, (ast.ListComp, ast.SetComp)) for x in walk(n.ast.value)) and "buckets" in norm(n.ast.value)]
        dl = [n for n in g.nodes if n.kind == "stmt" and isinstance(n.ast, ast.Delete)]
        ok = True
        for s in sel:
            after = g.reach([b for b, _l in g.succ[s.id]], blocked_nodes={s.id}, follow=normal_only)
            for nid in after:
                n = g.nodes[nid]
                if not n.has_await:
                    continue
                onward = g.reach([nid], blocked_nodes={s.id}, follow=normal_only)
                if any(d.id in onward for d in dl):
                    ok = False
                    chk.finding("L4", cl.key, "await-between-select-and-delete", "the cleanup loop can be suspended between selecting idle buckets and deleting them: a bucket that was used in between is deleted and its address starts over with a full bucket", n.where())
        chk.ob("L4", f"{cl.key}: select+delete atomic", ok, evals=len(sel) + len(dl))
    clocks = []
    for key in (f"{MW}:TokenBucket.__init__", f"{MW}:TokenBucket.consume", f"{MW}:RateLimiter._cleanup_loop", f"{MW}:RateLimiter.process_request"):
        if not chk.proj.has_func(key):
            continue
        f2 = chk.proj.func(key)
        for c in calls(f2.node):
            d = dotted(c.func) or ""
            if d.startswith("time.") or d.startswith("datetime."):
                clocks.append((f2, c, d))
    bad = [(f2, c, d) for f2, c, d in clocks if d != "time.monotonic"]
    for f2, c, d in bad:
        chk.finding("L5", f2.key, f"clock:{d}", f"`{d}()` is a wall clock: a clock step backwards refills nothing for a long time, a step forwards mints allowance", f2.loc(c))
    chk.require("L5", f"{MW}:TokenBucket", "clock reads", len(clocks), 2, "the bucket no longer reads a clock")
    chk.ob("L5", "only time.monotonic is read", not bad, evals=len(clocks))


def rule_l6(chk: Check) -> None:
    chk.rule("L6", "consume() false -> (False, `44 ... <retry_after> ...`); true -> (True, None)")
    fi = chk.proj.func(f"{MW}:RateLimiter.process_request")
    g = build_cfg(chk.proj, fi)
    for avail in (True, False):
        interp = Interp(chk.proj, fi)
        interp.call_oracle = lambda c, _a=avail: BoolV(_a) if method_call(c) and method_call(c)[1] == "consume" else None
        res = interp.run_paths(g, lambda n: list(n.ast.value.elts) if n.kind == "stmt" and isinstance(n.ast, ast.Return) and isinstance(n.ast.value, ast.Tuple) else [], {})
        got = set()
        for path, (st, recs) in res:
            if path[-1][0].kind != "exit":
                continue
            r = [vals for node, vals, _ in recs if isinstance(node.ast, ast.Return)]
            if not r:
                got.add(("?", None))
                continue
            v = r[-1]
            hdr = v[1]
            status = None
            if isinstance(hdr, StrV) and hdr.prefix and hdr.prefix[:2].isdigit():
                status = int(hdr.prefix[:2])
            got.add((v[0].value if isinstance(v[0], BoolV) else "?", status))
        want = {(True, None)} if avail else {(False, 44)}
        ok = got == want
        if not ok:
            chk.finding("L6", fi.key, f"verdict:consume={avail}", f"with consume() == {avail} the limiter returns {sorted(map(str, got))}, expected {sorted(map(str, want))}", fi.loc())
        chk.ob("L6", f"consume()={avail} -> {sorted(map(str, want))}", ok, evals=max(1, len(res)))
    # the retry hint is the configured one
    defs = Defs(g)
    okr = False
    for n in g.nodes:
        if n.kind == "stmt" and isinstance(n.ast, ast.Return) and isinstance(n.ast.value, ast.Tuple) and len(n.ast.value.elts) == 2:
            for _dn, le in origins(defs, n, n.ast.value.elts[1]) if isinstance(n.ast.value.elts[1], ast.Name) else [(n, n.ast.value.elts[1])]:
                if isinstance(le, ast.JoinedStr):
                    for fv in [x for x in le.values if isinstance(x, ast.FormattedValue)]:
                        ls = origins(defs, _dn, fv.value) if isinstance(fv.value, ast.Name) else [(_dn, fv.value)]
                        if all((dotted(l2) or "").endswith("config.retry_after") for _, l2 in ls):
                            okr = True
    if not okr:
        chk.finding("L6", fi.key, "retry-hint", "the 44 response does not carry the configured retry_after", fi.loc())
    chk.ob("L6", "44 carries config.retry_after", okr)
    # config wiring
    gc = chk.proj.func("server.config:ServerConfig.get_rate_limit_config")
    pairs = {"capacity": "self.rate_limit_capacity", "refill_rate": "self.rate_limit_refill_rate", "retry_after": "self.rate_limit_retry_after"}
    for c in calls(gc.node):
        if (dotted(c.func) or "").split(".")[-1] == "RateLimitConfig":
            for kw, attr in pairs.items():
                v = kwarg(c, kw)
                ok = v is not None and dotted(v) == attr
                if not ok:
                    chk.finding("L6", gc.key, f"field-crossed:{kw}", f"RateLimitConfig.{kw} is fed from `{norm(v) if v is not None else 'nothing'}`", gc.loc(c))
                chk.ob("L6", f"RateLimitConfig.{kw} <- {attr}", ok)


def rule_l7(chk: Check) -> None:
    chk.rule("L7", "the configured capacity / refill_rate / retry_after reach the limiter as written: from_toml passes the value of the like-named key (also 0, which is a valid quota) and get_rate_limit_config passes the like-named fields")
    config_value_fidelity(chk, "L7", {"rate_limit_capacity": "capacity", "rate_limit_refill_rate": "refill_rate", "rate_limit_retry_after": "retry_after"}, "the running limiter admits more than the configured bound")
    gr = chk.proj.func("server.config:ServerConfig.get_rate_limit_config")
    c2 = next((c for c in calls(gr.node) if (dotted(c.func) or "").split(".")[-1] == "RateLimitConfig"), None)
    for fld in ("capacity", "refill_rate", "retry_after"):
        v = kwarg(c2, fld) if c2 is not None else None
        ok = v is not None and dotted(v) == f"self.rate_limit_{fld}"
        if not ok:
            chk.finding("L7", gr.key, f"field-crossed:{fld}", f"RateLimitConfig.{fld} is fed from `{norm(v) if v is not None else 'nothing'}` instead of self.rate_limit_{fld}", gr.loc())
        chk.ob("L7", f"RateLimitConfig.{fld} <- self.rate_limit_{fld}", ok)


def config_value_fidelity(chk: Check, R: str, want: dict[str, str], consequence: str) -> None:
    """from_toml passes numeric settings through unchanged: the constructor
    argument evaluated abstractly with the key present and set to 0 is 0."""
    ft = chk.proj.func("server.config:ServerConfig.from_toml")
    ctor = next((c for c in calls(ft.node) if dotted(c.func) == "cls"), None)
    n = 0
    if ctor is not None:
        for k in ctor.keywords:
            if k.arg not in want:
                continue
            n += 1
            key = want[k.arg]
            # abstract evaluation with the key present and set to 0
            interp = Interp(chk.proj, ft)

            def oracle(c, _key=key):
                mc = method_call(c)
                if mc and mc[1] == "get" and c.args and isinstance(c.args[0], ast.Constant):
                    return IntV(0, 0) if c.args[0].value == _key else IntV(7, 7)
                return None

            interp.call_oracle = oracle

            class _Present(ast.NodeTransformer):
                """The sample: every key is present in the table.  `d[key]` reads
                like `d.get(key)`, `key in d` is true, `key not in d` is false."""

                def visit_Subscript(self, n):  # noqa: N802
                    self.generic_visit(n)
                    if isinstance(n.slice, ast.Constant) and isinstance(n.slice.value, str) and isinstance(n.value, ast.Name):
                        return ast.copy_location(ast.Call(func=ast.Attribute(value=n.value, attr="get", ctx=ast.Load()), args=[n.slice], keywords=[]), n)
                    return n

                def visit_Compare(self, n):  # noqa: N802
                    self.generic_visit(n)
                    if len(n.ops) == 1 and isinstance(n.ops[0], (ast.In, ast.NotIn)) and isinstance(n.left, ast.Constant) and isinstance(n.comparators[0], ast.Name):
                        return ast.copy_location(ast.Constant(value=isinstance(n.ops[0], ast.In)), n)
                    return n

            import copy

            def subst(e, depth=0):
                """Replace single-assignment locals by their defining expression."""
                if depth > 3:
                    return e

                class _S(ast.NodeTransformer):
                    def visit_Name(self, n):  # noqa: N802
                        ds = [st.value for st in walk(ft.node) if isinstance(st, ast.Assign) and len(st.targets) == 1 and isinstance(st.targets[0], ast.Name) and st.targets[0].id == n.id]
                        if len(ds) == 1 and not any(isinstance(x, ast.Name) and x.id == n.id for x in walk(ds[0])):
                            return subst(copy.deepcopy(ds[0]), depth + 1)
                        return n

                return _S().visit(e)

            expr = subst(copy.deepcopy(k.value))
            reads_expr = expr
            v = interp.eval(ast.fix_missing_locations(_Present().visit(copy.deepcopy(expr))), {})
            reads = [x.args[0].value for x in walk(reads_expr) if isinstance(x, ast.Call) and method_call(x) and method_call(x)[1] == "get" and x.args and isinstance(x.args[0], ast.Constant)]
            reads += [x.slice.value for x in walk(reads_expr) if isinstance(x, ast.Subscript) and isinstance(x.slice, ast.Constant)]
            ok = isinstance(v, IntV) and v.lo == 0 and v.hi == 0 and key in reads
            if not ok:
                chk.finding(
                    R, ft.key, f"config-value:{key}",
                    f"`{k.arg}={norm(k.value)[:70]}` does not pass a configured `{key} = 0` through (evaluates to {v!r} for 0; keys read: {reads}): a value written in the configuration is replaced, so {consequence}",
                    ft.loc(k.value),
                )
            chk.ob(R, f"from_toml: {k.arg} <- key {key}, 0 preserved", ok)
    chk.require(R, ft.key, "settings read from the file", n, len(want), f"from_toml no longer reads {sorted(want.values())}")


def rule_l8(chk: Check) -> None:
    chk.rule("L8", "with rate limiting enabled a RateLimiter is installed on every path of start_server (a missing explicit configuration means defaults, not no limiter), and it is registered in the chain the protocol is given")
    fi = chk.proj.func("server.server:start_server")
    g = build_cfg(chk.proj, fi)
    mk = nodes_calling(g, lambda c: (dotted(c.func) or "").split(".")[-1] == "RateLimiter")
    chain = nodes_calling(g, lambda c: (dotted(c.func) or "").split(".")[-1] == "MiddlewareChain")
    if not chk.require("L8", fi.key, "RateLimiter construction", len(mk), 1, "start_server never installs a rate limiter"):
        return
    if not chk.require("L8", fi.key, "MiddlewareChain construction", len(chain), 1, "start_server never builds the middleware chain"):
        return
    flag = next((p for p in fi.params if "rate_limit" in p and "config" not in p), None)
    off = set()
    for t in g.nodes:
        if t.kind == "test" and t.ast is not None and flag and dotted(t.ast) == flag:
            off |= {(t.id, b, lab) for b, lab in g.succ[t.id] if lab == "F"}
    par = g.reach([g.entry.id], blocked_nodes={x.id for x in mk}, blocked_edges=off, follow=normal_only)
    bad = [c for c in chain if c.id in par]
    ok = bool(flag) and not bad
    if not ok:
        chk.finding(
            "L8", fi.key, "limiter-skipped",
            f"with `{flag}` true the middleware chain can be built on a path that installs no RateLimiter (e.g. when no explicit configuration object is passed): requests are then admitted without any bound",
            (bad[0] if bad else mk[0]).where(), g.fmt_path(g.path_to(par, bad[0].id)) if bad else [],
        )
    chk.ob("L8", f"{fi.key}: rate limiting enabled -> limiter installed on every path", ok, evals=len(par))


def run(chk: Check) -> None:
    rule_l1(chk)
    rule_l2(chk)
    rule_l3(chk)
    rule_l4_l5(chk)
    rule_l6(chk)
    rule_l7(chk)
    rule_l8(chk)
    # L9: a request the limiter refused never reaches a handler (= C04.M1, machine)
    from .c04 import rule_m1, rule_m1c
    from .common import reuse

    reuse(chk, rule_m1c, "L10", "an installed limiter is consulted even while it tracks nothing: the chain object is never falsy, or its presence is tested with `is not None` (= C04.M1c)", ("M1c",))

    reuse(chk, rule_m1, "L9", "a handler is dispatched only after the chain's truthy verdict in its own callback, or with no chain configured: a request answered 44 is not served (= C04.M1)", ("M1",))
    from .common import config_fields_carrier, config_presence_tests

    config_fields_carrier(chk, "L11", ("rate_limit_", "enable_rate_limiting"), "capacity / refill rate / retry hint", "more requests are admitted in a burst than the configured capacity allows")
    config_presence_tests(chk, "L12", ("RateLimitConfig",))
    # L13: the bucket key is the transport's own peer address, unaltered (= C04.M3)
    from ..machine import server_machine
    from .c04 import rule_m3
    from .common import reuse as _reuse13

    _reuse13(chk, rule_m3, "L13", "buckets are keyed by the address the chain is consulted with, which is the transport's own peer address, unaltered (= C04.M3): two addresses never share a bucket because of a rewrite in the protocol", ("M3",), server_machine(chk.proj))
    chk.trusted = ["CPython ast parser", "engine CFG / abstract evaluator", "asyncio runs coroutines without preemption between awaits"]
    chk.assumptions = ["the inequality admitted <= capacity + refill_rate x T and float rounding are not decided"]
