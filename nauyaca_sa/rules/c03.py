"""C03 - TOFU: a pinned host is never accepted with a different certificate.

  T1 the verification region is fail-closed: in every client function that
     connects while a TOFU database is configured, no path from the connection
     to awaiting the response avoids the success edge of tofu_db.verify(...);
     the path on which no certificate could be read is a path like any other
  T2 writer/reader table: every literal result tuple of TOFUDatabase.verify is
     fed through the callers (abstract evaluation): (False, *) always ends in
     raise CertificateChangedError carrying both fingerprints; first_use pins
     exactly (hostname, port, cert); a match proceeds
  T3 no trust-store mutation on the failure path
  T4 fingerprint = SHA-256 over the DER certificate, compared exactly, computed
     from the certificate handed in
  T5 per-host statements are keyed (hostname, port) (= C12.D6)
  T6 every redirect hop goes through the verifying fetch with the hop's own
     host and port
  T7 sibling agreement: get_peer_certificate x2; the TOFU regions of get/upload
Not decided: SQLite semantics over histories; which certificates parsers reject.
"""

from __future__ import annotations

import ast

from ..astutil import calls, dotted, is_none, kwarg, method_call, norm, walk
from ..cfg import Builder, build_cfg, inline_local
from ..flow import Defs, _Sel, origins
from ..loader import FunctionInfo
from ..paths import normal_only
from ..report import Check
from ..strdom import TOP, BoolV, Interp, NoneV, ObjV, StrV, TupleV, lit

EXPLANATION = (
    "Static necessary conditions of C03. (T1) In GeminiClient._get_single and upload (every "
    "function of the client package that awaits create_connection with a tofu_db attribute), "
    "with tofu_db truthy no CFG path leads from the connection to awaiting the response future "
    "without passing the normal edge of tofu_db.verify(...): the no-certificate branch must "
    "raise. (T2/T3) the literal return tuples of TOFUDatabase.verify are enumerated from its "
    "source and each is pushed through both callers by path-sensitive abstract evaluation: "
    "(False, *) must end in raise CertificateChangedError(host, port, stored, presented) on "
    "every feasible path with no trust/revoke/clear/import call; (True, 'first_use') must "
    "call trust(hostname, port, cert) with the verified triple; (True, '') must proceed without "
    "store mutation. (T4) get_certificate_fingerprint hashes cert.public_bytes(DER) with "
    "sha256 by default, no caller overrides the algorithm, verify compares with ==. (T5) SQL "
    "statements are keyed by (hostname, port). (T6) the redirect follower only reaches the "
    "network through _get_single(hop URL), whose host/port come from that URL. (T7) sibling "
    "implementations agree. "
    "(T9) The TOFU key is canonical: the C19 component samples (incl. a mixed-case host and IPv6 literals) evaluate to the lower-cased, unbracketed hostname and the effective port. "
    "(T10) Every GeminiClient construction passes trust_on_first_use as the caller's own option, a literal or the default. "
    "(T4, chain) every function that turns the peer's certificate into the fingerprinted object is pure."
    ' (T11) = C12.D4: the store connection is not in autocommit mode, so a refused import cannot have removed pins.'
)

SESSION = "client.session:GeminiClient"
TOFU = "security.tofu:TOFUDatabase"
STORE_MUT = {"trust", "revoke", "revoke_by_hostname", "clear", "import_toml"}


def connecting_functions(chk: Check) -> list[FunctionInfo]:
    ci = chk.proj.cls(SESSION)
    out = []
    for fi in ci.methods.values():
        # also when the connect sits in a nested helper of the method
        if any(isinstance(c, ast.Call) and method_call(c) and method_call(c)[1] == "create_connection" for c in ast.walk(fi.node)):
            out.append(fi)
    return out


def _conn_call(n, fi) -> ast.Call:
    """The create_connection call behind a connecting statement: in the
    statement itself or in the nested helper it calls."""
    for c in calls(n.ast):
        if method_call(c) and method_call(c)[1] == "create_connection":
            return c
    return next(c for c in ast.walk(fi.node) if isinstance(c, ast.Call) and method_call(c) and method_call(c)[1] == "create_connection")


def _nested_connectors(fi) -> set[str]:
    """Names of functions nested in `fi` that open the connection."""
    return {
        fd.name for fd in ast.walk(fi.node)
        if isinstance(fd, (ast.FunctionDef, ast.AsyncFunctionDef)) and fd is not fi.node
        and any(isinstance(c, ast.Call) and method_call(c) and method_call(c)[1] == "create_connection" for c in ast.walk(fd))
    }


def verify_tuples(chk: Check) -> list[tuple[bool, str]]:
    """Literal (bool, str) outcomes of TOFUDatabase.verify, followed through
    helper methods it returns from (`return self._check(...)`) and through
    single-assignment locals."""
    top = chk.proj.func(f"{TOFU}.verify")
    out: list = []

    def collect(fi, depth: int) -> None:
        for r in walk(fi.node):
            if not isinstance(r, ast.Return):
                continue
            vals = [r.value]
            if isinstance(r.value, ast.Name):
                ds = [st.value for st in walk(fi.node) if isinstance(st, ast.Assign) and any(isinstance(t, ast.Name) and t.id == r.value.id for t in st.targets)]
                if ds:
                    vals = ds
            for v in vals:
                if isinstance(v, ast.Tuple) and len(v.elts) == 2 and all(isinstance(e, ast.Constant) for e in v.elts):
                    out.append((v.elts[0].value, v.elts[1].value))
                elif isinstance(v, ast.Call) and (dotted(v.func) or "").startswith("self.") and fi.cls is not None and depth < 3 and chk.proj.find_method(fi.cls, (dotted(v.func) or "")[5:]) is not None:
                    collect(chk.proj.find_method(fi.cls, (dotted(v.func) or "")[5:]), depth + 1)
                else:
                    out.append(("?", norm(v) if v is not None else "None"))

    collect(top, 0)
    seen, uniq = set(), []
    for t in out:
        if t not in seen:
            seen.add(t)
            uniq.append(t)
    return uniq


def _unwrap(c: ast.Call):
    """`asyncio.to_thread(f, a, b)` / `loop.run_in_executor(ex, f, a)` ->
    (callee expression f, its arguments); plain calls are returned as is."""
    d = (dotted(c.func) or "").split(".")[-1]
    if d == "to_thread" and c.args:
        return c.args[0], list(c.args[1:])
    if d == "run_in_executor" and len(c.args) >= 2:
        return c.args[1], list(c.args[2:])
    return c.func, list(c.args)


def _store_call(c: ast.Call, name: str) -> bool:
    f, _a = _unwrap(c)
    return isinstance(f, ast.Attribute) and f.attr == name and "tofu" in norm(f.value)


def tofu_guard_edges(g, active: bool):
    """Edges taken when the TOFU guard says verification is (in)active.  The guard
    is a truthiness test of self.tofu_db or `self.tofu_db is (not) None`."""
    out = set()
    n_tests = 0
    for n in g.nodes:
        if n.kind != "test" or n.ast is None:
            continue
        lab_active = None
        if dotted(n.ast) == "self.tofu_db":
            lab_active = "T"
        elif isinstance(n.ast, ast.Compare) and len(n.ast.ops) == 1 and dotted(n.ast.left) == "self.tofu_db" and is_none(n.ast.comparators[0]):
            lab_active = "T" if isinstance(n.ast.ops[0], ast.IsNot) else ("F" if isinstance(n.ast.ops[0], ast.Is) else None)
        if lab_active is None:
            continue
        n_tests += 1
        for b, lab in g.succ[n.id]:
            if (lab == lab_active) == active:
                out.add((n.id, b, lab))
    return out, n_tests


def tofu_object(chk: Check):
    """Abstract value of a configured TOFU database: an object whose
    truthiness is unknown if its class defines __bool__ / __len__."""
    ci = chk.proj.cls(TOFU)
    special = [m for m in ("__bool__", "__len__") if chk.proj.find_method(ci, m) is not None]
    return ObjV("db", None if special else True), special


def _wait_nodes(g):
    return [n for n in g.nodes if n.ast is not None and n.kind == "stmt" and n.has_await and "response_future" in norm(n.ast) and "create_connection" not in norm(n.ast)]


def _conn_nodes(g):
    nested = _nested_connectors(g.entry.func) if g.entry.func is not None else set()
    return [
        n for n in g.nodes
        if n.ast is not None and n.kind == "stmt" and not isinstance(n.ast, (ast.FunctionDef, ast.AsyncFunctionDef))
        and any((method_call(c) and method_call(c)[1] == "create_connection") or (isinstance(c.func, ast.Name) and c.func.id in nested) for c in calls(n.ast))
    ]


def _verify_nodes(g):
    return [n for n in g.nodes if n.ast is not None and n.kind == "stmt" and any(_store_call(c, "verify") for c in calls(n.ast))]


def rule_t1(chk: Check, funcs) -> None:
    chk.rule("T1", "with a TOFU database configured, no path from create_connection to awaiting the response avoids the success edge of tofu_db.verify")
    chk.require("T1", SESSION, "connecting functions", len(funcs), 2, "the client no longer has both a fetch and an upload path")
    for fi in funcs:
        g = Builder(chk.proj, inline_local, 3).build(fi)  # the check may live in a helper
        conn, waits, ver = _conn_nodes(g), _wait_nodes(g), _verify_nodes(g)
        if not waits:
            chk.finding("T1", fi.key, "no-wait-node", "cannot locate where the response is awaited", fi.loc())
            chk.ob("T1", fi.key, False)
            continue
        blocked_e, n_tests = tofu_guard_edges(g, active=False)
        tests = n_tests
        for v in ver:
            for b, lab in g.succ[v.id]:
                if lab is None:
                    blocked_e.add((v.id, b, lab))
        starts = [b for c in conn for b, lab in g.succ[c.id] if lab not in ("exc", "raise")]
        par = g.reach(starts, blocked_edges=blocked_e)
        hit = [w for w in waits if w.id in par]
        ok = bool(ver) and bool(tests) and not hit
        if not ver:
            chk.finding("T1", fi.key, "no-verify", "the connection is never checked against the TOFU database", fi.loc())
        elif not tests:
            chk.finding("T1", fi.key, "no-tofu-guard", "TOFU verification is not conditioned on self.tofu_db", fi.loc())
        elif hit:
            chk.finding(
                "T1", fi.key, "unverified-path",
                "with TOFU enabled the response is awaited on a path that never verified the certificate (e.g. when no certificate could be read): fail-open",
                hit[0].where(), g.fmt_path(g.path_to(par, hit[0].id)),
            )
        chk.ob("T1", f"{fi.key}: verification region is fail-closed", ok, f"{len(ver)} verify sites", evals=3)


def run_samples(chk: Check, fi: FunctionInfo, cert_present=True):
    """Abstractly evaluate a connecting function for each verify() outcome.
    Yields (sample, list of path summaries)."""
    g = Builder(chk.proj, inline_local, 2).build(fi)
    waits = {n.id for n in _wait_nodes(g)}
    tuples = verify_tuples(chk)
    results = []
    samples = [t for t in tuples]
    for valid, msg in samples:
        interp = Interp(chk.proj, fi)
        interp.oracle = {"self.tofu_db": ObjV("db"), "self.timeout": TOP}  # a non-empty, configured store

        def oracle(c, _v=valid, _m=msg):
            mc = method_call(c)
            if _store_call(c, "verify"):
                return TupleV((BoolV(_v) if isinstance(_v, bool) else BoolV(None), lit(_m) if isinstance(_m, str) else StrV("str")))
            if mc and mc[1] == "get_peer_certificate":
                return ObjV("cert") if cert_present else NoneV()
            if (dotted(c.func) or "").split(".")[-1] in ("parse_url",):
                return ObjV("parsed")
            return None

        interp.call_oracle = oracle
        res = interp.run_paths(g, lambda n: [], {}, follow=lambda lab: lab != "exc", max_paths=50000)
        summ = []
        for path, _ in res:
            ids = [n.id for n, _l in path]
            ver = [i for i, (n, _l) in enumerate(path) if n.ast is not None and n.kind == "stmt" and any(_store_call(c, "verify") for c in calls(n.ast))]
            if cert_present and not ver:
                continue
            start = ver[0] if ver else 0
            tail = path[start:]
            called = []
            raised = None
            for n, _l in tail:
                if n.ast is None:
                    continue
                if n.kind == "stmt" and isinstance(n.ast, ast.Raise):
                    raised = n
                for c in calls(n.ast if not isinstance(n.ast, ast.withitem) else n.ast.context_expr) if n.kind in ("stmt", "test", "with") else []:
                    f, a = _unwrap(c)
                    if isinstance(f, ast.Attribute):
                        eff = c if f is c.func else ast.Call(func=f, args=a, keywords=[])
                        called.append((f.attr, eff, n))
            reached_wait = any(n.id in waits for n, _l in tail)
            summ.append({"raised": raised, "called": called, "wait": reached_wait, "path": path, "end": path[-1][0].kind})
        results.append(((valid, msg), summ, g))
    return results


def rule_t2_t3(chk: Check, funcs) -> None:
    chk.rule("T2", "each literal result of TOFUDatabase.verify is handled: (False,*) -> raise CertificateChangedError(host, port, stored, presented); first_use -> trust(same triple); match -> proceed")
    chk.rule("T3", "no trust-store mutation between a failing verify and the raise")
    tuples = verify_tuples(chk)
    chk.require("T2", f"{TOFU}.verify", "literal result tuples", len([t for t in tuples if t[0] != "?"]), 3, "verify() no longer returns the three literal outcomes the callers are written against")
    for t in tuples:
        if t[0] == "?":
            chk.finding("T2", f"{TOFU}.verify", f"non-literal-result:{t[1][:40]}", f"verify() returns `{t[1]}`, which is not a literal (bool, str) pair: the callers' handling cannot be checked", "")
    for fi in funcs:
        for (valid, msg), summ, g in run_samples(chk, fi):
            inst = f"{fi.key}: verify -> ({valid}, {msg!r})"
            if not summ:
                chk.finding("T2", fi.key, f"unhandled:{valid},{msg}", f"no feasible path handles verify() == ({valid}, {msg!r})", fi.loc())
                chk.ob("T2", inst, False)
                continue
            ok = True
            ok3 = True
            for s in summ:
                names = [nm for nm, _c, _n in s["called"]]
                if valid is False:
                    r = s["raised"]
                    exc_calls = []
                    if r is not None and r.ast.exc is not None:
                        dd = Defs(g)
                        exc_calls = [(dn, le) for dn, le in origins(dd, r, r.ast.exc)]
                    good = r is not None and bool(exc_calls) and all(isinstance(le, ast.Call) and (dotted(le.func) or "").split(".")[-1] == "CertificateChangedError" for _, le in exc_calls) and not s["wait"]
                    if not good:
                        ok = False
                        chk.finding("T2", fi.key, f"changed-accepted:{msg}", f"when verify() reports ({valid}, {msg!r}) a path does not end in raise CertificateChangedError: a host with a different certificate than its pin is accepted", (r or s["path"][-1][0]).where(), g.fmt_path(s["path"]))
                    elif all(len(le.args) >= 4 for _, le in exc_calls):
                        rn_, le_ = exc_calls[0]
                        a = le_.args
                        d = Defs(g)
                        o2 = origins(d, rn_, a[2])
                        o3 = origins(d, rn_, a[3])
                        old_ok = any(not isinstance(le, _Sel) and "fingerprint" in norm(le) and ("old_info" in norm(le) or "get_host_info" in norm(le)) for _, le in o2)
                        new_ok = all(isinstance(le, ast.Call) and (dotted(le.func) or "").endswith("get_certificate_fingerprint") for _, le in o3)
                        if not (old_ok and new_ok):
                            ok = False
                            chk.finding("T2", fi.key, "error-fingerprints", "CertificateChangedError is not given the stored and the presented fingerprint", r.where())
                    else:
                        ok = False
                        chk.finding("T2", fi.key, "error-arity", "CertificateChangedError is raised without both fingerprints", r.where())
                    if any(nm in STORE_MUT for nm in names):
                        ok3 = False
                        chk.finding("T3", fi.key, f"mutation-on-failure:{[nm for nm in names if nm in STORE_MUT][0]}", "the trust store is modified on the path that reports a changed certificate: pins must stay unchanged", s["path"][-1][0].where())
                elif msg == "first_use":
                    tr = [(c, n) for nm, c, n in s["called"] if nm == "trust"]
                    vr = [c for nm, c, n in s["called"] if nm == "verify"]
                    good = s["wait"] and len(tr) == 1 and vr and [norm(a) for a in tr[0][0].args] == [norm(a) for a in vr[0].args]
                    if not good:
                        ok = False
                        chk.finding("T2", fi.key, "first-use-not-pinned", "on first use the presented certificate is not pinned with exactly the verified (hostname, port, cert)", (tr[0][1] if tr else s["path"][-1][0]).where())
                else:
                    good = s["wait"] and not any(nm in STORE_MUT for nm in names) and s["raised"] is None
                    if not good:
                        ok = False
                        chk.finding("T2", fi.key, f"match-not-accepted:{msg}", f"verify() == ({valid}, {msg!r}) does not simply proceed to the response", s["path"][-1][0].where())
            chk.ob("T2", inst, ok, f"{len(summ)} feasible paths", evals=len(summ))
            if valid is False:
                chk.ob("T3", f"{fi.key}: no store mutation on ({valid}, {msg!r})", ok3, evals=len(summ))
        # no certificate readable -> must raise, nothing else
        for (valid, msg), summ, g in run_samples(chk, fi, cert_present=False)[:1]:
            bad = [s for s in summ if s["wait"]]
            ok = not bad and bool(summ)
            if bad:
                chk.finding("T1", fi.key, "no-certificate-accepted", "when no certificate can be read the fetch proceeds unverified", bad[0]["path"][-1][0].where(), g.fmt_path(bad[0]["path"]))
            chk.ob("T1", f"{fi.key}: unreadable certificate -> refused", ok, evals=max(1, len(summ)))


def rule_t8(chk: Check, funcs) -> None:
    chk.rule("T8", "check-then-pin is atomic: no suspension point at or between tofu_db.verify and tofu_db.trust (unless the region is serialised by an `async with <lock>`)")
    for fi in funcs:
        g = build_cfg(chk.proj, fi)
        ver = _verify_nodes(g)
        trs = [n for n in g.nodes if n.ast is not None and n.kind == "stmt" and any(_store_call(c, "trust") for c in calls(n.ast))]
        if not ver or not trs:
            continue
        locked = False
        for w in walk(fi.node):
            if isinstance(w, ast.AsyncWith) and any("lock" in norm(i.context_expr).lower() for i in w.items):
                inside = lambda n: any(sub is n.ast for sub in ast.walk(w))  # noqa: E731
                if all(inside(n) for n in ver + trs):
                    locked = True
        ok = True
        bad = None
        if not locked:
            for v in ver:
                region = g.reach([v.id], blocked_nodes={t.id for t in trs}, follow=normal_only)
                cand = [g.nodes[i] for i in region] + trs
                for n in cand:
                    if n.has_await and (n.id == v.id or any(t.id in g.reach([n.id], follow=normal_only) for t in trs)) and (n.id in region or n in trs):
                        # awaits that are not on the way from verify to trust do not matter
                        if n in trs or any(t.id in g.reach([n.id], follow=normal_only) for t in trs):
                            ok = False
                            bad = n
        if not ok:
            chk.finding(
                "T8", fi.key, "check-then-pin-not-atomic",
                f"between checking the pin and pinning on first use the coroutine can be suspended (`{bad.text(60)}`): two concurrent connections to the same unpinned host:port can both see 'first_use', both succeed with different certificates, and the later pin silently replaces the earlier one",
                bad.where(),
            )
        chk.ob("T8", f"{fi.key}: verify..trust has no suspension point", ok, "serialised by a lock" if locked else "", evals=len(ver) + len(trs))


def _impure(fi) -> str:
    """Non-empty description if the function reads or writes state that
    outlives the call (module-level container, global, cache decorator)."""
    decos = [d for d in fi.node.decorator_list if "cache" in norm(d)]
    if decos:
        return norm(decos[0])
    for x in walk(fi.node):
        if isinstance(x, (ast.Global, ast.Nonlocal)):
            return norm(x)
    local = {t.id for st in walk(fi.node) if isinstance(st, (ast.Assign, ast.AnnAssign)) for t in (st.targets if isinstance(st, ast.Assign) else [st.target]) if isinstance(t, ast.Name)} | set(fi.params)
    for x in walk(fi.node):
        if isinstance(x, ast.Subscript) and isinstance(x.value, ast.Name) and x.value.id not in local and x.value.id in fi.module.constants:
            return norm(x)
        if isinstance(x, ast.Call) and method_call(x) and method_call(x)[1] in ("get", "setdefault", "pop", "clear", "update", "add", "append") and isinstance(method_call(x)[0], ast.Name) and method_call(x)[0].id not in local and method_call(x)[0].id in fi.module.constants and method_call(x)[0].id.startswith("_"):
            return norm(x)
    return ""


def fingerprint_definition(chk: Check, R: str) -> None:
    """The certificate fingerprint is a pure function of the certificate handed in:
    sha256 over its DER encoding, full hex digest, no state kept between calls."""
    fi = chk.proj.func("security.certificates:get_certificate_fingerprint")
    a = fi.node.args
    defaults = dict(zip([x.arg for x in a.args][-len(a.defaults):], a.defaults)) if a.defaults else {}
    alg = [p for p in fi.params if p != fi.params[0]]
    ok = bool(alg) and isinstance(defaults.get(alg[0]), ast.Constant) and defaults[alg[0]].value == "sha256"
    src = norm(fi.node)
    ok = ok and ("Encoding.DER" in src)
    g = build_cfg(chk.proj, fi)
    interp = Interp(chk.proj, fi)
    dflt = defaults.get(alg[0]) if alg else None
    init = {alg[0]: lit(dflt.value)} if alg and isinstance(dflt, ast.Constant) and isinstance(dflt.value, str) else {}
    res = interp.run_paths(g, lambda n: [c for c in calls(n.ast) if (dotted(c.func) or "").startswith("hashlib.")] if n.ast is not None and n.kind == "stmt" else [], init)
    used = set()
    for path, (st, recs) in res:
        if path[-1][0].kind != "exit":
            continue
        for node, vals, _ in recs:
            for c in calls(node.ast):
                d = dotted(c.func) or ""
                if d == "hashlib.new" and c.args:
                    # hashlib.new(<algorithm>, data): the algorithm on the default path
                    a0 = interp.eval(c.args[0], dict(init))
                    d = f"hashlib.{a0.exact}" if isinstance(a0, StrV) and isinstance(a0.exact, str) else "hashlib.new(?)"
                if d.startswith("hashlib."):
                    used.add(d)
    ok = ok and used == {"hashlib.sha256"}
    if not ok:
        chk.finding(R, fi.key, "fingerprint-definition", f"the default fingerprint is not SHA-256 over the DER certificate (default path uses {sorted(used)})", fi.loc())
    chk.ob(R, "default fingerprint = sha256(DER)", ok, evals=max(1, len(res)))
    # return format: "<algorithm>:<hexdigest>" without truncation
    # no slice is taken of the digest / of the returned string
    sliced = [x for x in walk(fi.node) if isinstance(x, ast.Subscript) and isinstance(x.slice, ast.Slice) and any(k in norm(x.value) for k in ("digest", "fingerprint"))]
    okr = not sliced
    if not okr:
        chk.finding(R, fi.key, "fingerprint-truncated", "the digest is truncated or reformatted before it is returned", fi.loc())
    chk.ob(R, "full hex digest returned", okr)
    # the other functions on the identity chain (connection -> certificate object ->
    # fingerprint) are pure too: a conversion cache keyed by attacker-chosen fields
    # (issuer, serial number) hands out another peer's certificate object
    for other in chk.proj.functions.values():
        if other is fi or other.cls is not None or other.module.name not in ("security.pyopenssl_tls", "security.certificates"):
            continue
        anns = " ".join(ast.unparse(a.annotation) for a in other.node.args.args if a.annotation is not None)
        rets = ast.unparse(other.node.returns) if other.node.returns is not None else ""
        if not (("X509" in anns or "Connection" in anns) and ("Certificate" in rets or "X509" in rets)):
            continue
        why = _impure(other)
        if why:
            chk.finding(R, other.key, f"identity-stateful:{why[:40]}", f"`{other.node.name}` turns the peer's certificate into the object that is fingerprinted and keeps state between calls (`{why}`): a certificate that copies another one's issuer and serial number is converted to that other certificate, and is admitted under its fingerprint", other.loc())
        chk.ob(R, f"{other.key}: pure conversion on the identity chain", not why)
    # no memoisation / module state: the result depends on this certificate only
    stateful = [x for x in walk(fi.node) if isinstance(x, (ast.Global, ast.Nonlocal))]
    mod_names = set(fi.module.constants) | {n for n in getattr(fi.module, "globals", [])}
    for x in walk(fi.node):
        if isinstance(x, ast.Subscript) and isinstance(x.value, ast.Name) and x.value.id not in fi.params and not any(isinstance(st, (ast.Assign, ast.AnnAssign)) and any(isinstance(t, ast.Name) and t.id == x.value.id for t in (st.targets if isinstance(st, ast.Assign) else [st.target])) for st in walk(fi.node)):
            stateful.append(x)
    decos = [d for d in fi.node.decorator_list if "cache" in norm(d)]
    okp = not stateful and not decos
    if not okp:
        what = norm(decos[0]) if decos else norm(stateful[0])[:60]
        chk.finding(R, fi.key, f"fingerprint-stateful:{what[:40]}", f"the fingerprint function keeps state between calls (`{what}`): the value returned for a certificate can be one computed for another certificate (e.g. one with the same issuer and serial number)", fi.loc())
    chk.ob(R, "fingerprint is a pure function of the certificate", okp)


def option_wiring(chk: Check, R: str, option: str, consequence: str) -> None:
    """Every GeminiClient construction passes `option` as the caller's own
    option (a parameter, unaltered), a literal, an attribute, or not at all."""
    n = 0
    for fi in chk.proj.functions.values():
        for c in [x for x in ast.walk(fi.node) if isinstance(x, ast.Call)]:
            if (dotted(c.func) or "").split(".")[-1] != "GeminiClient":
                continue
            n += 1
            v = kwarg(c, option)
            scopes = [fi]
            q = fi.qualname
            while "." in q:
                q = q.rsplit(".", 1)[0]
                outer = chk.proj.functions.get(f"{fi.module.name}:{q}")
                if outer is not None:
                    scopes.append(outer)
            params = {a.arg for sc in scopes for a in sc.node.args.args + sc.node.args.kwonlyargs}

            def explicit(e, depth=0, _scopes=scopes, _params=params):
                if e is None or isinstance(e, ast.Constant):
                    return True
                if isinstance(e, ast.Attribute):
                    return dotted(e) is not None
                if isinstance(e, ast.Name):
                    if e.id in _params:
                        return True
                    ds = [st.value for sc in _scopes for st in ast.walk(sc.node) if isinstance(st, ast.Assign) and any(isinstance(t, ast.Name) and t.id == e.id for t in st.targets)]
                    return bool(ds) and depth < 3 and all(explicit(d, depth + 1) for d in ds)
                return False

            ok = explicit(v)
            if not ok:
                chk.finding(R, fi.key, f"option-rewritten:{option}={norm(v)[:40]}", f"the client is built with {option}={norm(v)}: the caller's value is replaced under some condition, so {consequence}", fi.loc(c))
            chk.ob(R, f"{fi.key}: GeminiClient({option}={norm(v) if v is not None else 'default'}) is the caller's own value", ok)
    chk.require(R, "client.session:GeminiClient", "client construction sites", n, 1, "the package never constructs its client")


def tofu_wiring(chk: Check, R: str) -> None:
    """Pin checking is switched off only by an explicit decision: every
    construction of the client in the package passes trust_on_first_use as the
    caller's own option (a parameter, unaltered), a literal, or not at all
    (default on).  A value computed from *other* options (`... and not
    verify_ssl`) silently drops pin verification for some invocations."""
    n = 0
    for fi in chk.proj.functions.values():
        for c in [x for x in ast.walk(fi.node) if isinstance(x, ast.Call)]:
            if (dotted(c.func) or "").split(".")[-1] != "GeminiClient":
                continue
            n += 1
            v = kwarg(c, "trust_on_first_use")
            # the function and the functions it is nested in (closures read outer parameters)
            scopes = [fi]
            q = fi.qualname
            while "." in q:
                q = q.rsplit(".", 1)[0]
                outer = chk.proj.functions.get(f"{fi.module.name}:{q}")
                if outer is not None:
                    scopes.append(outer)
            params = {a.arg for sc in scopes for a in sc.node.args.args + sc.node.args.kwonlyargs}

            def explicit(e, depth=0):
                if e is None or isinstance(e, ast.Constant):
                    return True
                if isinstance(e, ast.Attribute):
                    return dotted(e) is not None
                if isinstance(e, ast.Name):
                    if e.id in params:
                        return True
                    ds = [st.value for sc in scopes for st in ast.walk(sc.node) if isinstance(st, ast.Assign) and any(isinstance(t, ast.Name) and t.id == e.id for t in st.targets)]
                    return bool(ds) and depth < 3 and all(explicit(d, depth + 1) for d in ds)
                return False

            ok = explicit(v)
            if not ok:
                chk.finding(
                    R, fi.key, f"tofu-conditional:{norm(v)[:50]}",
                    f"the client is built with trust_on_first_use={norm(v)}: pin verification is switched off as a side effect of another option, so a pinned host presenting a different certificate is accepted (and the request sent) on those invocations",
                    fi.loc(c),
                )
            chk.ob(R, f"{fi.key}: GeminiClient(trust_on_first_use={norm(v) if v is not None else 'default'}) is an explicit choice", ok)
    chk.require(R, "client.session:GeminiClient", "client construction sites", n, 1, "the package never constructs its client")


def rule_t4(chk: Check) -> None:
    chk.rule("T4", "fingerprint = sha256 over cert.public_bytes(DER) by default; no caller overrides the algorithm; verify/trust compute it from their cert and compare with ==")
    fingerprint_definition(chk, "T4")
    # callers
    n = 0
    okc = True
    for key in ("security.tofu", "client.session"):
        mi = chk.proj.module(key)
        for f2 in mi.functions.values():
            for c in calls(f2.node):
                if (dotted(c.func) or "").split(".")[-1] == "get_certificate_fingerprint":
                    n += 1
                    if len(c.args) + len(c.keywords) != 1:
                        okc = False
                        chk.finding("T4", f2.key, f"algorithm-override:{norm(c)[:40]}", "a TOFU call site overrides the fingerprint algorithm", f2.loc(c))
    chk.floor("T4", "fingerprint call sites", n, 3)
    chk.ob("T4", "no call site overrides the algorithm", okc, evals=n)
    # verify compares stored == computed-from-cert
    vf = chk.proj.func(f"{TOFU}.verify")
    from ..cfg import Builder, inline_self_methods

    gv = Builder(chk.proj, inline_self_methods, 3).build(vf)  # the lookup may live in a helper
    dv = Defs(gv)
    cmp = [n for n in gv.nodes if n.kind == "test" and isinstance(n.ast, ast.Compare) and "fingerprint" in norm(n.ast)]
    okv = False
    for t in cmp:
        if len(t.ast.ops) == 1 and isinstance(t.ast.ops[0], (ast.Eq, ast.NotEq)):
            sides = [t.ast.left, t.ast.comparators[0]]
            kinds = []
            for sd in sides:
                for _dn, le in (origins(dv, t, sd) if isinstance(sd, ast.Name) else [(t, sd)]):
                    if isinstance(le, ast.Call) and (dotted(le.func) or "").endswith("get_certificate_fingerprint") and le.args and dotted(le.args[0]) == "cert":
                        kinds.append("computed")
                    elif isinstance(le, ast.Subscript) and isinstance(le.slice, ast.Constant) and le.slice.value == "fingerprint":
                        kinds.append("stored")
                    else:
                        kinds.append("other:" + (norm(le) if not isinstance(le, _Sel) else repr(le)))
            okv = sorted(kinds) == ["computed", "stored"]
    if not okv:
        chk.finding("T4", vf.key, "comparison", "verify() does not compare the stored fingerprint with the fingerprint of the presented certificate by exact equality", vf.loc())
    chk.ob("T4", "verify: stored == fingerprint(cert)", okv)
    # the match branch is the == branch: (True, "") reachable only via equality success
    rets_true = [n for n in gv.nodes if n.kind == "stmt" and isinstance(n.ast, ast.Return) and isinstance(n.ast.value, ast.Tuple) and isinstance(n.ast.value.elts[0], ast.Constant) and n.ast.value.elts[0].value is True and isinstance(n.ast.value.elts[1], ast.Constant) and n.ast.value.elts[1].value == ""]
    okm = bool(rets_true) and bool(cmp)
    for t in cmp:
        pass_lab = "T" if isinstance(t.ast.ops[0], ast.Eq) else "F"
        blocked = {(t.id, b, lab) for b, lab in gv.succ[t.id] if lab == pass_lab}
        par = gv.reach([gv.entry.id], blocked_edges=blocked, follow=normal_only)
        if any(r.id in par for r in rets_true):
            okm = False
    # first_use only when no row exists
    rows = [n for n in gv.nodes if n.kind == "test" and isinstance(n.ast, ast.Compare) and "row" in norm(n.ast.left) and is_none(n.ast.comparators[0])]
    fu = [n for n in gv.nodes if n.kind == "stmt" and isinstance(n.ast, ast.Return) and isinstance(n.ast.value, ast.Tuple) and isinstance(n.ast.value.elts[1], ast.Constant) and n.ast.value.elts[1].value == "first_use"]
    if rows and fu:
        blocked = {(t.id, b, lab) for t in rows for b, lab in gv.succ[t.id] if lab == "T"}
        par = gv.reach([gv.entry.id], blocked_edges=blocked, follow=normal_only)
        if any(r.id in par for r in fu):
            okm = False
    else:
        okm = False
    if not okm:
        chk.finding("T4", vf.key, "verdict-structure", "verify() can report a match without fingerprint equality, or first use although a pin exists", vf.loc())
    chk.ob("T4", "verify: match only on equality, first_use only without a row", okm, evals=3)


def rule_t5(chk: Check) -> None:
    from .c12 import rule_d6

    before = len(chk.findings)
    rule_d6(chk, chk.proj.cls(TOFU))
    for f in chk.findings[before:]:
        f.rule = "T5"
    for o in chk.obligations:
        if o["rule"].endswith(".D6"):
            o["rule"] = f"{chk.prop}.T5"
    chk.rules["T5"] = chk.rules.pop("D6", "")
    # session.py must not use the port-less operations
    mi = chk.proj.module("client.session")
    for f2 in mi.functions.values():
        for c in calls(f2.node):
            mc = method_call(c)
            if mc and mc[1] in ("revoke_by_hostname", "clear", "import_toml", "revoke") and "tofu" in norm(mc[0]):
                chk.finding("T5", f2.key, f"bulk-store-op:{mc[1]}", "the fetch path calls a store operation that is not keyed by (hostname, port)", f2.loc(c))


def rule_t6(chk: Check) -> None:
    chk.rule("T6", "the redirect follower reaches the network only through _get_single(hop URL); host/port of connection and verification come from that URL")
    ci = chk.proj.cls(SESSION)
    rf = ci.methods.get("_get_with_redirects")
    gs = ci.methods.get("_get_single")
    if rf is None or gs is None:
        chk.floor("T6", "_get_with_redirects/_get_single", 0, 1)
    ok = not any(method_call(c) and method_call(c)[1] in ("create_connection", "open_connection") for c in calls(rf.node))
    fetches = [c for c in calls(rf.node) if dotted(c.func) == "self._get_single"]
    ok = ok and len(fetches) >= 1 and all(c.args and dotted(c.args[0]) == rf.params[1] for c in fetches)
    rec = [c for c in calls(rf.node) if dotted(c.func) == "self._get_with_redirects"]
    g = build_cfg(chk.proj, rf)
    d = Defs(g)
    for c in rec:
        node = next(x for x in g.nodes if x.ast is not None and any(cc is c for cc in calls(x.ast)))
        arg = c.args[0] if c.args else kwarg(c, "url")
        ls = origins(d, node, arg)
        if not all(not isinstance(le, _Sel) and "redirect_url" in norm(le) or (isinstance(le, ast.Attribute) and le.attr in ("redirect_url", "meta")) for _, le in ls):
            ok = False
    if not ok:
        chk.finding("T6", rf.key, "hop-bypasses-verification", "a redirect hop does not go through _get_single with the hop's own URL", rf.loc())
    chk.ob("T6", f"{rf.key}: hops fetched through _get_single(url)", ok, evals=len(fetches) + len(rec))
    g2 = build_cfg(chk.proj, gs)
    d2 = Defs(g2)
    ok2 = True
    for n in _conn_nodes(g2):
        call = _conn_call(n, gs)
        for kw, field in (("host", "hostname"), ("port", "port")):
            v = kwarg(call, kw)
            if v is None or not (isinstance(v, ast.Attribute) and v.attr == field):
                ok2 = False
                continue
            for _dn, le in origins(d2, n, v.value):
                if not (isinstance(le, ast.Call) and (dotted(le.func) or "").endswith("parse_url") and le.args and dotted(le.args[0]) == gs.params[1]):
                    ok2 = False
    for n in _verify_nodes(g2):
        call = next(c for c in calls(n.ast) if _store_call(c, "verify"))
        if [norm(a) for a in _unwrap(call)[1][:2]] != [norm(kwarg(_conn_call(cn, gs), k)) for cn in _conn_nodes(g2)[:1] for k in ("host", "port")]:
            ok2 = False
    if not ok2:
        chk.finding("T6", gs.key, "verified-endpoint-mismatch", "the host/port that are verified are not the host/port of the URL being connected to", gs.loc())
    chk.ob("T6", f"{gs.key}: connect and verify use the URL's own host and port", ok2)


def _shape(node: ast.AST, repl: dict[str, str]) -> str:
    s = norm(node)
    for a, b in repl.items():
        s = s.replace(a, b)
    return s


def rule_t7(chk: Check, funcs) -> None:
    chk.rule("T7", "advisory sibling comparison (never a finding: each sibling is decided on its own): get_peer_certificate x2; TOFU regions of get/upload")
    a = chk.proj.func("client.protocol:GeminiClientProtocol.get_peer_certificate")
    b = chk.proj.func("client.protocol:TitanClientProtocol.get_peer_certificate")

    def body(fi):
        return [s for s in fi.node.body if not (isinstance(s, ast.Expr) and isinstance(s.value, ast.Constant))]

    ok = [norm(s) for s in body(a)] == [norm(s) for s in body(b)]
    if not ok:
        chk.note("T7 (advisory, not a verdict): the two client protocols obtain the peer certificate differently")
    chk.ob("T7", "get_peer_certificate siblings compared (advisory)", True, "agree" if ok else "DIFFER", nontrivial=False)
    regions = {}
    for fi in funcs:
        for st in walk(fi.node):
            if isinstance(st, ast.If) and dotted(st.test) == "self.tofu_db":
                regions[fi.key] = norm(ast.Module(body=st.body, type_ignores=[]))
    ok2 = len(regions) == len(funcs) and len(set(regions.values())) == 1
    if not ok2:
        chk.note("T7 (advisory, not a verdict): the TOFU verification blocks of get and upload differ textually; each is checked on its own by T1/T2/T3/T8")
    chk.ob("T7", "TOFU regions of get/upload compared (advisory)", True, "agree" if ok2 else "DIFFER", nontrivial=False, evals=len(regions))


def run(chk: Check) -> None:
    funcs = connecting_functions(chk)
    rule_t1(chk, funcs)
    rule_t2_t3(chk, funcs)
    rule_t8(chk, funcs)
    rule_t4(chk)
    rule_t5(chk)
    rule_t6(chk)
    rule_t7(chk, funcs)
    chk.rule("T10", "pin checking is switched off only by an explicit decision: every GeminiClient construction passes trust_on_first_use as the caller's own option, a literal, or the default")
    tofu_wiring(chk, "T10")
    from .c19 import wire_fidelity

    wire_fidelity(chk, "T9", "the TOFU key is canonical: ParsedURL.hostname is the lower-cased, unbracketed host and .port the effective port for every spelling (= C19.N1-N3), so one host:port has one pin")
    from .c12 import DB as _DB, rule_d4
    from .common import reuse as _reuse11

    _reuse11(chk, rule_d4, "T11", "a refused import cannot unpin a host: store operations run in one transaction that is rolled back when the connection is closed uncommitted - sqlite3.connect is not in autocommit mode (= C12.D4); otherwise a replace-import that fails half-way has already deleted every pin and the next certificate is accepted as first use", ("D4",), chk.proj.cls(_DB))
    chk.trusted = ["CPython ast parser", "engine CFG / abstract evaluator", "hashlib, cryptography public_bytes(DER), sqlite3"]
    chk.assumptions = ["SQLite semantics over histories of store operations are trusted", "the explicit re-pin command (`nauyaca tofu trust`) runs with TOFU disabled on purpose and is outside this property"]
