"""C02 - Static serving never escapes the document root.

  P1 resolve -> contain -> use on the same value: every filesystem *content*
     use in the static handler (read_text / read_bytes / open / the directory
     handed to the listing generator) operates on a Path that was produced by
     .resolve() and passed the containment test, with no path-extending
     operation in between
  P2 the containment predicate is path-wise (relative_to / is_relative_to /
     parents) against a resolved root, and returns True only when that call
     succeeded
  P3 a non-success response carries no body and no text derived from file
     content
  P4 the request path is percent-decoded exactly once before it is joined to
     the root (zero = literal names with reserved characters unreachable,
     twice = double decoding)
  P5 the two _is_safe_path siblings (static / upload handler) agree
Not decided: resolve() on cyclic links, check/use races, what a listing shows
about links inside the root.
"""

from __future__ import annotations

import ast

from ..astutil import calls, dotted, is_none, kwarg, method_call, norm, walk
from ..cfg import Builder, Graph, Node, build_cfg, inline_self_methods
from ..flow import Defs, _Sel, origins
from ..loader import ClassInfo, FunctionInfo
from ..paths import normal_only
from ..report import Check

EXPLANATION = (
    "Static necessary conditions of C02 on StaticFileHandler: (P1) for every content use "
    "(read_text/read_bytes/open/listing generator argument) the reaching definitions of the "
    "Path are followed through aliases; each must be the result of .resolve() with no "
    "path-extending operation afterwards, and between that definition and the use no CFG "
    "path avoids the success edge of a containment test on that same value; (P2) the "
    "containment predicate returns True only after Path.relative_to / is_relative_to on the "
    "resolved root succeeded, and the root is assigned from .resolve(); (P3) non-success "
    "responses have no body and their meta has no provenance from file content; (P4) exactly "
    "one urllib.parse.unquote application lies on the def-use chain from request.path to the "
    "join with the root; (P5) the static and upload containment predicates are structurally "
    "equal modulo the root attribute. Races and resolve() on cyclic links are not decided."
    ' (P6) the directory-listing generator (helpers inlined) reads no entry content (open / read_text / read_bytes) unless a dominating resolve().is_relative_to(...) test on that entry was passed.'
)

HANDLER = "server.handler:StaticFileHandler"
CONTENT_USES = {"read_text", "read_bytes", "open"}
EXTENDERS = {"joinpath", "with_name", "with_suffix", "with_stem", "with_segments", "parent", "absolute", "expanduser"}
CONTAIN_PREDS = {"is_relative_to"}


def _is_resolve(e: ast.AST) -> bool:
    return isinstance(e, ast.Call) and method_call(e) is not None and method_call(e)[1] in ("resolve", "realpath") and not e.args


def _safe_pred_methods(ci: ClassInfo) -> set[str]:
    """Methods of the handler class that act as containment predicates."""
    out = set()
    for name, fi in ci.methods.items():
        src_calls = [method_call(c)[1] for c in calls(fi.node) if method_call(c)]
        if any(m in ("relative_to", "is_relative_to", "commonpath") for m in src_calls) or "safe" in name:
            if name not in ("handle", "handle_upload", "__init__", "_handle_delete"):
                out.add(name)
    return out


def containment_pass_edges(g: Graph, names: set[str], preds: set[str]) -> set[tuple]:
    """Edges that certify `X in names` lies inside the root: T edge of a test
    `self.<pred>(X)` / `X.is_relative_to(root)`."""
    edges = set()
    for n in g.nodes:
        if n.kind != "test" or n.ast is None:
            continue
        e = n.ast
        ok = False
        if isinstance(e, ast.Call):
            mc = method_call(e)
            if mc and dotted(mc[0]) == "self" and mc[1] in preds and e.args and dotted(e.args[0]) in names:
                ok = True
            if mc and mc[1] in CONTAIN_PREDS and dotted(mc[0]) in names:
                ok = True
        if isinstance(e, ast.Compare) and len(e.ops) == 1 and isinstance(e.ops[0], ast.In):
            # root in X.parents
            r = e.comparators[0]
            if isinstance(r, ast.Attribute) and r.attr == "parents" and dotted(r.value) in names:
                ok = True
        if ok:
            for b, lab in g.succ[n.id]:
                if lab == "T":
                    edges.add((n.id, b, lab))
    return edges


def check_value(chk: Check, g: Graph, defs: Defs, use: Node, var: str, preds: set[str], fi: FunctionInfo, what: str, rule="P1", _depth=0, _seen=None) -> bool:
    """Is the value of ``var`` at ``use`` the result of .resolve() and contained
    on every path?  Follows aliases, parameters of inlined helpers and values
    returned by inlined helpers."""
    from ..flow import call_returns

    if _seen is None:
        _seen = set()
    tag = (use.id, var)
    if tag in _seen or _depth > 8:
        return True
    _seen.add(tag)
    ds = defs.at(use, var)
    if not ds:
        chk.finding(rule, fi.key, f"undefined:{var}@{what}", f"`{var}` used for {what} has no reaching definition in the handler", use.where())
        return False
    ok = True
    all_defs_of_var = {dn.id for dn, _v, _s in ds}
    for dn, val, sel in ds:
        other = all_defs_of_var - {dn.id}
        pass_edges = containment_pass_edges(g, {var}, preds)
        par = g.reach([dn.id], blocked_nodes=other, blocked_edges=pass_edges, follow=normal_only)
        guarded = use.id not in par
        v = val
        while isinstance(v, ast.Await):
            v = v.value
        # parameter of an inlined helper: the argument must be safe at the call site
        if sel == "param":
            if v is None or not dn.stack:
                ok = False
                chk.finding(rule, fi.key, f"unresolved:{var}=<parameter>@{what}", f"`{var}` is a parameter whose value is unknown where it is used for {what}", dn.where())
                continue
            enter = g.nodes[dn.stack[-1]]
            if guarded and _resolved_origin(defs, enter, v):
                continue
            if isinstance(v, ast.Name):
                if not check_value(chk, g, defs, enter, v.id, preds, enter.func, what, rule, _depth + 1, _seen):
                    ok = False
                continue
            if isinstance(v, ast.Attribute) and v.attr == "parent" and isinstance(v.value, ast.Name):
                if not check_value(chk, g, defs, enter, v.value.id, preds, enter.func, what, rule, _depth + 1, _seen):
                    ok = False
                continue
            v = v  # fall through to the generic classification below
        if sel in (None, "param") and v is not None and _is_resolve(v):
            if not guarded:
                ok = False
                chk.finding(
                    rule, fi.key, f"unchecked:{var}@{what}",
                    f"`{var}` (resolved at {dn.where()}) reaches {what} on a path that does not pass a containment test of that value",
                    use.where(), g.fmt_path(g.path_to(par, use.id)),
                )
            continue
        if sel is None and isinstance(v, ast.Name):
            if guarded and _resolved_origin(defs, dn, v):
                continue
            if not check_value(chk, g, defs, dn, v.id, preds, fi, what, rule, _depth + 1, _seen):
                ok = False
            continue
        if sel is None and isinstance(v, ast.Call) and call_returns(g, v):
            # value returned by an inlined helper
            if guarded and _resolved_origin(defs, dn, v):
                continue
            for rn, rv in call_returns(g, v):
                if rv is None or (isinstance(rv, ast.Constant) and rv.value is None):
                    continue
                if isinstance(rv, ast.Name):
                    if not check_value(chk, g, defs, rn, rv.id, preds, rn.func, what, rule, _depth + 1, _seen):
                        ok = False
                elif _is_resolve(rv):
                    if not guarded:
                        ok = False
                        chk.finding(rule, fi.key, f"unchecked:{var}@{what}", f"`{var}` = `{norm(v)[:50]}` returns a resolved path that is not containment-checked before {what}", use.where())
                else:
                    ok = False
                    chk.finding(rule, fi.key, f"unresolved:{var}={norm(rv)[:50]}@{what}", f"`{var}` comes from `{norm(v)[:50]}`, which returns `{norm(rv)}` - not the result of .resolve() - and is used for {what}", rn.where())
            continue
        # anything else: unresolved / extended value
        ok = False
        try:
            desc = norm(v) if v is not None else str(sel)
        except Exception:  # noqa: BLE001
            desc = str(sel)
        chk.finding(
            rule, fi.key, f"unresolved:{var}={desc[:50]}@{what}",
            f"`{var}` is `{desc}` - not the result of .resolve() - when it is used for {what}: a symlink or dot segment below an already-checked directory escapes the root",
            dn.where(),
        )
    return ok


def _resolved_origin(defs: Defs, node: Node, e: ast.AST) -> bool:
    ls = origins(defs, node, e)
    ls = [(n, le) for n, le in ls if not (isinstance(le, ast.Constant) and le.value is None)]
    return bool(ls) and all(not isinstance(le, _Sel) and _is_resolve(le) for _, le in ls)


def rule_p1(chk: Check, ci: ClassInfo, preds: set[str]) -> None:
    chk.rule("P1", "every content use operates on a Path that is the result of .resolve() and has passed the containment test on every path (aliases followed)")
    fi = ci.methods.get("handle")
    if fi is None:
        chk.floor("P1", "StaticFileHandler.handle", 0, 1)
    from ..cfg import inline_local

    pol = lambda caller, call, callee, depth, _p=preds: inline_local(caller, call, callee, depth) and callee.node.name not in _p  # noqa: E731
    g = Builder(chk.proj, pol, 3).build(fi)
    defs = Defs(g)
    uses = []
    for n in g.nodes:
        if n.ast is None or n.kind not in ("stmt", "test", "with"):
            continue
        for c in calls(n.ast if not isinstance(n.ast, ast.withitem) else n.ast.context_expr):
            mc = method_call(c)
            if mc and mc[1] in CONTENT_USES and isinstance(mc[0], ast.Name):
                uses.append((n, mc[0].id, f"{mc[1]}()"))
            d = dotted(c.func) or ""
            if d.split(".")[-1] in ("generate_directory_listing", "listdir", "scandir", "open") and c.args and isinstance(c.args[0], ast.Name):
                if d != "open" or True:
                    uses.append((n, c.args[0].id, f"{d.split('.')[-1]}(...)"))
            if mc and mc[1] == "iterdir" and isinstance(mc[0], ast.Name):
                uses.append((n, mc[0].id, "iterdir()"))
    chk.require("P1", fi.key, "filesystem content uses", len(uses), 2, "the static handler has fewer content uses than confirmed; the analysis may be looking at the wrong function")
    for n, var, what in uses:
        ok = check_value(chk, g, defs, n, var, preds, fi, what)
        chk.ob("P1", f"{fi.key}: {var}.{what} at {n.text(50)}", ok, evals=3)
        chk.sample({"rule": "P1", "use": n.text(80), "var": var})
    # content uses in other methods of the class must be covered by the inlined analysis of handle
    covered = {id(c) for n in g.nodes if n.ast is not None and n.kind in ("stmt", "test", "with") for c in calls(n.ast if not isinstance(n.ast, ast.withitem) else n.ast.context_expr)}
    for name, m in ci.methods.items():
        if name == "handle":
            continue
        for c in calls(m.node):
            mc = method_call(c)
            if mc and mc[1] in CONTENT_USES and id(c) not in covered:
                chk.finding("P1", m.key, f"use-outside-handle:{norm(c)[:50]}", "file content is read in a method that is not reached from StaticFileHandler.handle through local helpers: the containment proof does not cover it", m.loc(c))


def rule_p2(chk: Check, ci: ClassInfo, preds: set[str]) -> None:
    chk.rule("P2", "the containment predicate is path-wise against a resolved root and returns True only after the containment call succeeded")
    chk.require("P2", ci.key, "containment predicate", len(preds), 1, "the handler has no containment predicate")
    for name in sorted(preds):
        fi = ci.methods[name]
        g = build_cfg(chk.proj, fi)
        param = [p for p in fi.params if p != "self"]
        cont = [n for n in g.nodes if n.ast is not None and n.kind in ("stmt", "test") and any(method_call(c) and method_call(c)[1] in ("relative_to", "is_relative_to") for c in calls(n.ast))]
        textual = [c for c in calls(fi.node) if method_call(c) and method_call(c)[1] == "startswith"]
        ok = bool(cont) and not textual
        if textual:
            chk.finding("P2", fi.key, "string-prefix-containment", "containment is decided by str.startswith on a path string: a sibling directory whose name extends the root's name passes", fi.loc(textual[0]))
        if not cont:
            chk.finding("P2", fi.key, "no-pathwise-containment", "the containment predicate does not use Path.relative_to / is_relative_to", fi.loc())
        else:
            for n in cont:
                call = next(c for c in calls(n.ast) if method_call(c) and method_call(c)[1] in ("relative_to", "is_relative_to"))
                recv = dotted(method_call(call)[0])
                arg = dotted(call.args[0]) if call.args else None
                if not (param and recv == param[0] and arg and arg.startswith("self.")):
                    ok = False
                    chk.finding("P2", fi.key, f"containment-operands:{norm(call)}", f"containment call `{norm(call)}` does not test the candidate path against the handler's root", n.where())
                else:
                    # root attribute resolved in __init__
                    init = ci.methods.get("__init__")
                    rattr = arg[5:]
                    good = False
                    if init is not None:
                        for st in walk(init.node):
                            if isinstance(st, ast.Assign) and any(dotted(t) == arg for t in st.targets):
                                good = _is_resolve(st.value)
                    if not good:
                        ok = False
                        chk.finding("P2", ci.key, f"root-unresolved:{rattr}", f"the root `{arg}` is not assigned from .resolve(): a symlinked or relative root makes every containment test meaningless", init.loc() if init else "")
            # returns True only behind the successful containment call
            true_rets = [n for n in g.nodes if n.kind == "stmt" and isinstance(n.ast, ast.Return) and isinstance(n.ast.value, ast.Constant) and n.ast.value.value is True]
            blocked = set()
            for n in cont:
                for b, lab in g.succ[n.id]:
                    if (n.kind == "stmt" and lab is None) or (n.kind == "test" and lab == "T"):
                        blocked.add((n.id, b, lab))
            par = g.reach([g.entry.id], blocked_edges=blocked)
            leak = [r for r in true_rets if r.id in par]
            other_rets = [n for n in g.nodes if n.kind == "stmt" and isinstance(n.ast, ast.Return) and not (isinstance(n.ast.value, ast.Constant) and isinstance(n.ast.value.value, bool)) and n.id in par]
            # `return x.is_relative_to(root)` is itself the containment call
            other_rets = [r for r in other_rets if r not in cont]
            if leak or other_rets:
                ok = False
                chk.finding("P2", fi.key, "true-without-containment", "the predicate can return a truthy result on a path where the containment call did not succeed", (leak + other_rets)[0].where())
        chk.ob("P2", f"{fi.key}", ok, evals=3)


def rule_p3(chk: Check, ci: ClassInfo) -> None:
    chk.rule("P3", "non-success responses built by the static handler carry no body and no text derived from file content")
    n = 0
    for fi in ci.methods.values():
        g = None
        for c in calls(fi.node):
            if (dotted(c.func) or "").split(".")[-1] != "GeminiResponse":
                continue
            n += 1
            st = kwarg(c, "status") or (c.args[0] if c.args else None)
            sname = norm(st)
            success = "SUCCESS" in sname or sname in ("20",)
            if success:
                chk.ob("P3", f"{fi.key}: {sname} (success, exempt)", True, nontrivial=False)
                continue
            body = kwarg(c, "body") or (c.args[2] if len(c.args) > 2 else None)
            ok = body is None or is_none(body)
            if not ok:
                chk.finding("P3", fi.key, f"body-on-failure:{sname}", f"a {sname} response carries a body `{norm(body)[:40]}`", fi.loc(c))
            meta = kwarg(c, "meta") or (c.args[1] if len(c.args) > 1 else None)
            if meta is not None and not isinstance(meta, ast.Constant):
                if g is None:
                    g = build_cfg(chk.proj, fi)
                    defs = Defs(g)
                node = next((x for x in g.nodes if x.ast is not None and any(cc is c for cc in calls(x.ast))), None)
                for nm in {x.id for x in walk(meta) if isinstance(x, ast.Name)}:
                    if node is None:
                        continue
                    for _dn, le in origins(defs, node, ast.Name(id=nm, ctx=ast.Load())):
                        if isinstance(le, ast.Call) and method_call(le) and method_call(le)[1] in CONTENT_USES | {"read"}:
                            ok = False
                            chk.finding("P3", fi.key, f"content-in-meta:{nm}", f"meta of a {sname} response derives from file content (`{norm(le)[:50]}`)", fi.loc(c))
            chk.ob("P3", f"{fi.key}: {sname} reveals nothing", ok)
    chk.floor("P3", "GeminiResponse construction sites", n, 5)


def rule_p4(chk: Check, ci: ClassInfo) -> None:
    chk.rule("P4", "exactly one percent-decoding (urllib.parse.unquote) on the def-use chain from request.path to the join with the root, before resolution")
    fi = ci.methods["handle"]
    _PROJ[0] = chk.proj
    g = Builder(chk.proj, inline_self_methods, 3).build(fi)  # the join may live in a helper
    defs = Defs(g)
    joins = []
    for n in g.nodes:
        if n.ast is None or n.kind != "stmt":
            continue
        for b in walk(n.ast):
            if isinstance(b, ast.BinOp) and isinstance(b.op, ast.Div) and dotted(b.left) in ("self.document_root",) and not (isinstance(b.right, ast.Constant)):
                joins.append((n, b.right))
            if isinstance(b, ast.Call) and method_call(b) and method_call(b)[1] == "joinpath" and dotted(method_call(b)[0]) == "self.document_root" and b.args:
                joins.append((n, b.args[0]))
    chk.require("P4", fi.key, "join of the request path with the document root", len(joins), 1, "no `document_root / <request path>` join found")
    for n, rhs in joins:
        count = _count_unquote(defs, n, rhs, 0)
        ok = count == 1
        if count == 0:
            chk.finding("P4", fi.key, "no-percent-decoding", "the request path is joined to the root without percent-decoding: a file whose name needs percent-encoding in a URL (space, non-ASCII, reserved characters) can never be served", n.where())
        elif count > 1:
            chk.finding("P4", fi.key, "double-percent-decoding", f"the request path is percent-decoded {count} times before the join: `%252e%252e` style double encodings are reinterpreted", n.where())
        chk.ob("P4", f"{fi.key}: unquote applications on the path = {count}", ok, evals=2)


def _count_unquote(defs: Defs, node: Node, e: ast.AST, depth: int) -> int:
    """Maximum number of unquote applications on any def-use chain feeding e."""
    if depth > 8:
        return 0
    if isinstance(e, ast.Call):
        d = (dotted(e.func) or "").split(".")[-1]
        inner = 0
        mc = method_call(e)
        subs = list(e.args) + [k.value for k in e.keywords]
        if mc is not None:
            subs = [mc[0]] + subs
        for s in subs:
            inner = max(inner, _count_unquote(defs, node, s, depth + 1))
        return inner + (1 if d in ("unquote", "unquote_plus", "unquote_to_bytes") else 0)
    if isinstance(e, ast.Name):
        best = 0
        for dn, val, sel in defs.at(node, e.id):
            if val is not None and sel is None:
                best = max(best, _count_unquote(defs, dn, val, depth + 1))
            elif val is not None and sel == "param" and dn.stack:
                best = max(best, _count_unquote(defs, defs.g.nodes[dn.stack[-1]], val, depth + 1))
        return best
    if isinstance(e, ast.Attribute) and isinstance(e.value, ast.Name):
        # `request.path`: a property of the request class may already decode
        from .common import request_accessor_decodes

        k = request_accessor_decodes(defs.g.proj if hasattr(defs.g, "proj") else _PROJ[0], node.func, e)
        if k:
            return max(k, 0) if k > 0 else 2  # disagreeing returns count as "more than once"
    best = 0
    for ch in ast.iter_child_nodes(e):
        if isinstance(ch, ast.expr):
            best = max(best, _count_unquote(defs, node, ch, depth + 1))
    return best


_PROJ: list = [None]


def _shape(fn: ast.AST, root_attr: str) -> str:
    src = norm(ast.Module(body=[s for s in fn.body if not (isinstance(s, ast.Expr) and isinstance(s.value, ast.Constant))], type_ignores=[]))
    return src.replace(f"self.{root_attr}", "self.<ROOT>")


def rule_p5(chk: Check) -> None:
    chk.rule("P5", "advisory sibling comparison of the static and upload containment predicates (never a finding)")
    a = chk.proj.func("server.handler:StaticFileHandler._is_safe_path") if chk.proj.has_func("server.handler:StaticFileHandler._is_safe_path") else None
    b = chk.proj.func("server.handler:FileUploadHandler._is_safe_path") if chk.proj.has_func("server.handler:FileUploadHandler._is_safe_path") else None
    if a is None or b is None:
        chk.note("P5: one of the sibling predicates does not exist under that name; agreement not compared")
        return
    sa, sb = _shape(a.node, "document_root"), _shape(b.node, "upload_dir")
    ok = sa == sb
    if not ok:
        chk.note("P5 (advisory, not a verdict): the static and upload containment predicates differ textually; P2 (static) and C14.U1 (upload) decide each on its own")
    chk.ob("P5", "containment predicates compared (advisory)", True, "agree" if ok else "DIFFER", nontrivial=False)


def rule_p6(chk: Check) -> None:
    """The listing generator is handed a contained directory, but its *entries*
    may be symbolic links that leave the root.  The handler refuses to serve
    such an entry; the listing must not read its content either (names and
    sizes are the directory's own data, a title line is the target's)."""
    chk.rule("P6", "the directory-listing generator never reads the content of an entry (open / read_text / read_bytes) unless that entry was resolved and tested to lie inside the listed directory")
    mi = chk.proj.module("content.gemtext")
    entry = mi.functions.get("generate_directory_listing")
    if entry is None:
        chk.ob("P6", "no listing generator", True, nontrivial=False)
        return
    from ..cfg import inline_local

    g = Builder(chk.proj, inline_local, 3).build(entry)
    n = 0
    ok = True
    for node in g.nodes:
        if node.ast is None or node.kind not in ("stmt", "test", "with"):
            continue
        for c in calls(node.ast if not isinstance(node.ast, ast.withitem) else node.ast.context_expr):
            mc = method_call(c)
            var = None
            if mc and mc[1] in CONTENT_USES:
                var = norm(mc[0])
            elif dotted(c.func) == "open" and c.args:
                var = norm(c.args[0])
            if var is None:
                continue
            n += 1
            # a dominating containment test on this value in the same activation
            blocked = set()
            for t in g.nodes:
                if t.kind == "test" and t.ast is not None and t.stack == node.stack:
                    a, flip = t.ast, False
                    while isinstance(a, ast.UnaryOp) and isinstance(a.op, ast.Not):
                        a, flip = a.operand, not flip
                    if isinstance(a, ast.Call) and method_call(a) and method_call(a)[1] == "is_relative_to" and "resolve" in norm(a) and var.split(".")[0] in norm(a):
                        lab = "F" if flip else "T"
                        blocked |= {(t.id, b, l2) for b, l2 in g.succ[t.id] if l2 == lab}
            good = bool(blocked) and node.id not in g.reach([g.entry.id], blocked_edges=blocked)
            if not good:
                ok = False
                chk.finding(
                    "P6", node.func.key, f"listing-reads-entry:{norm(c)[:50]}",
                    f"the directory listing reads the content of an entry with `{norm(c)[:70]}`; an entry may be a symbolic link to a file outside the document root (the handler answers 51 for it), so text of that file is served inside the listing",
                    node.where(),
                )
            chk.ob("P6", f"{node.func.key}: `{norm(c)[:50]}` reads a contained entry", good)
    chk.ob("P6", "content reads in the listing generator examined", ok, f"{n} reads", nontrivial=False)


def run(chk: Check) -> None:
    ci = chk.proj.cls(HANDLER)
    preds = _safe_pred_methods(ci)
    rule_p1(chk, ci, preds)
    rule_p2(chk, ci, preds)
    rule_p3(chk, ci)
    rule_p4(chk, ci)
    rule_p5(chk)
    rule_p6(chk)
    chk.trusted = ["CPython ast parser", "engine CFG / reaching definitions", "pathlib: resolve() follows every symlink; relative_to is component-wise"]
    chk.assumptions = ["no concurrent modification of the tree between check and use"]
