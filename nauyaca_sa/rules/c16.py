"""C16 - Redirect following is bounded, loop-free and stays on gemini://.

  G1 fetch-count bound: the follower is recognised in one of three idioms
     (self-recursion with a chain that grows by one per hop and a length guard
     before the fetch; `for _ in range(expr)`; `while` with a counter) and the
     maximal number of fetches, as a function of max_redirects, must equal
     max_redirects + 1
  G2 the scheme filter dominates the next hop: the URL handed to the next
     fetch passed `startswith("gemini://")` on its success edge
  G3 loops and overruns are errors: the loop test and the limit test end in
     raise, never in returning a response
  G4 every hop goes through the verifying fetch (= C03.T6); with redirect
     following disabled exactly one fetch is made and its result returned
  G5 loop detection: the URL about to be fetched is tested against the chain
     before the fetch and the fetched URL is what is appended
Not decided: termination against arbitrary server graphs beyond the bound.
"""

from __future__ import annotations

import ast

from ..astutil import calls, dotted, kwarg, method_call, norm, walk
from ..cfg import build_cfg
from ..flow import Defs, _Sel, origins
from ..paths import normal_only
from ..report import Check

EXPLANATION = (
    "Static necessary conditions of C16 on GeminiClient._get_with_redirects. (G1) the "
    "follower's idiom is recognised (recursion with a growing chain and a length guard before "
    "the fetch, for-range, or while-counter) and the number of fetches it allows is computed "
    "as a function of max_redirects from the guard's comparison operator and the per-hop "
    "increment; it must be max_redirects + 1, the guard must dominate the fetch and exactly "
    "one element is appended per hop with the same chain passed on. (G2) the recursive fetch "
    "is unreachable without the success edge of redirect_url.startswith('gemini://'). (G3) the "
    "success edges of the loop test and the limit test reach only raise. (G4) the network is "
    "reached only through _get_single; with follow_redirects false get() returns one "
    "_get_single result unchanged. (G5) the loop test is `url in chain` before the fetch and "
    "the appended element is the fetched URL. "
    "(G6) the accessor of the response the follower reads for the next hop returns self.meta unaltered. "
    "(G7) max_redirects reaches the client as the caller's own value. "
    "(G5, fresh) callers start the follower with a fresh chain. (G9) = C19.N1-N3 for the TOFU key of every hop."
    ' (G10) = C03.T2/T3 on the per-hop fetch: every literal verdict of TOFUDatabase.verify is handled, a failing one raises.'
    ' (G11) = C03.T4. (G12) stateless client: the visited-URL chain and hop counter are per fetch. (G13) = C19.N7: the redirect target is fetched as the server sent it. (G14) every store to self.max_redirects assigns the max_redirects parameter of the constructor unaltered.'
)

SESSION = "client.session:GeminiClient"


def rule_g(chk: Check) -> None:
    ci = chk.proj.cls(SESSION)
    rf = ci.methods.get("_get_with_redirects")
    if rf is None:
        chk.floor("G1", "_get_with_redirects", 0, 1)
    g = build_cfg(chk.proj, rf)
    d = Defs(g)
    url_p = rf.params[1]
    fetch = [n for n in g.nodes if n.ast is not None and n.kind == "stmt" and any(dotted(c.func) == "self._get_single" for c in calls(n.ast))]
    rec = [n for n in g.nodes if n.ast is not None and n.kind == "stmt" and any(dotted(c.func) == f"self.{rf.node.name}" for c in calls(n.ast))]
    loops = [n for n in g.nodes if n.kind == "for"] + [w for w in walk(rf.node) if isinstance(w, ast.While)]
    chk.rule("G1", "the number of fetches allowed equals max_redirects + 1 (bound extracted from the follower's idiom)")
    if not chk.require("G1", rf.key, "fetch through _get_single", len(fetch), 1, "the follower does not fetch through _get_single"):
        return
    ok = False
    bound = None
    why = ""
    if rec and not loops:
        # idiom (a): recursion with chain
        guards = []
        for n in g.nodes:
            if n.kind == "test" and isinstance(n.ast, ast.Compare) and len(n.ast.ops) == 1:
                l, r = n.ast.left, n.ast.comparators[0]
                if isinstance(l, ast.Call) and dotted(l.func) == "len" and "max_redirects" in norm(r):
                    guards.append((n, dotted(l.args[0]), n.ast.ops[0], r))
        if not guards:
            why = "no guard comparing the chain length with max_redirects"
        else:
            n, chain, op, rhs = guards[0]
            off = 0
            if isinstance(rhs, ast.BinOp) and isinstance(rhs.right, ast.Constant):
                off = rhs.right.value if isinstance(rhs.op, ast.Add) else -rhs.right.value
            # fetch happens iff not (len op max+off); len starts at 0 and grows by one per hop
            if isinstance(op, ast.Gt):
                bound = f"max_redirects + {off + 1}"
                val = off + 1
            elif isinstance(op, ast.GtE):
                bound = f"max_redirects + {off}"
                val = off
            elif isinstance(op, ast.Eq):
                bound = f"max_redirects + {off} (and unbounded if the length can skip the value)"
                val = off
            else:
                val = None
                why = f"guard operator {type(op).__name__} does not bound the chain from above"
            # guard T -> raise and dominates the fetch
            blocked = {(n.id, b, lab) for b, lab in g.succ[n.id] if lab == "F"}
            par = g.reach([g.entry.id], blocked_edges=blocked, follow=normal_only)
            dominates = all(f.id not in par for f in fetch)
            # one append per hop, on the way to the recursion, same chain and limit passed
            apps = [x for x in g.nodes if x.ast is not None and x.kind == "stmt" and any(method_call(c) and method_call(c)[1] in ("append", "add") and dotted(method_call(c)[0]) == chain for c in calls(x.ast))]
            one_append = len(apps) == 1 and all(r.id not in g.reach([fetch[0].id], blocked_nodes={apps[0].id}, follow=normal_only) for r in rec) if apps else False
            not_in_loop = True
            passes = True
            for r in rec:
                call = next(c for c in calls(r.ast) if dotted(c.func) == f"self.{rf.node.name}")
                kws = {k.arg: k.value for k in call.keywords}
                params = rf.params[1:]
                for i, a in enumerate(call.args):
                    kws[params[i]] = a
                limit = dotted(rhs) if not isinstance(rhs, ast.BinOp) else dotted(rhs.left)
                if dotted(kws.get(chain)) != chain or dotted(kws.get(limit)) != limit:
                    passes = False
            # the chain starts empty
            init_ok = any(
                isinstance(st, (ast.Assign, ast.AnnAssign)) and dotted(st.targets[0] if isinstance(st, ast.Assign) else st.target) == chain
                and ((isinstance(st.value, (ast.List, ast.Set)) and not st.value.elts) or (isinstance(st.value, ast.Call) and dotted(st.value.func) in ("set", "list") and not st.value.args))
                for st in walk(rf.node)
            )
            if val is not None:
                ok = val == 1 and dominates and one_append and passes and init_ok
                if val != 1:
                    why = f"allows {bound} fetches instead of max_redirects + 1"
                elif not dominates:
                    why = "the limit guard does not dominate the fetch"
                elif not one_append:
                    why = "the chain does not grow by exactly one element per followed redirect"
                elif not passes:
                    why = "the recursive call does not pass the same chain and limit on"
                elif not init_ok:
                    why = "the chain does not start empty"
    elif loops:
        for h in [n for n in g.nodes if n.kind == "for"]:
            it = h.ast.iter
            if isinstance(it, ast.Call) and dotted(it.func) == "range" and len(it.args) == 1:
                t = norm(it.args[0])
                bound = t
                ok = t.replace(" ", "") in ("max_redirects+1", "1+max_redirects", "self.max_redirects+1")
                if not ok:
                    why = f"the loop runs range({t}) fetches instead of max_redirects + 1"
        if bound is None:
            why = "while-loop follower: bound not extractable by this rule"
    else:
        why = "neither recursion nor a loop: redirects are not followed"
    if not ok:
        chk.finding("G1", rf.key, "fetch-bound", f"redirect follower: {why or 'bound not extractable'} (extracted bound: {bound})", rf.loc())
    chk.ob("G1", f"{rf.key}: fetch bound = {bound}", ok, evals=3)

    chk.rule("G2", "the next hop's URL passed startswith('gemini://') on the success edge")
    sch = [n for n in g.nodes if n.kind == "test" and isinstance(n.ast, ast.Call) and method_call(n.ast) and method_call(n.ast)[1] == "startswith" and n.ast.args and isinstance(n.ast.args[0], ast.Constant) and n.ast.args[0].value == "gemini://"]
    ok2 = bool(sch)
    if rec or loops:
        blocked = {(t.id, b, lab) for t in sch for b, lab in g.succ[t.id] if lab == "T"}
        starts = [b for f in fetch for b, lab in g.succ[f.id] if lab not in ("exc", "raise")]
        par = g.reach(starts, blocked_edges=blocked, follow=normal_only)
        nxt = rec if rec else fetch
        if any(r.id in par for r in nxt) and rec:
            ok2 = False
        # the tested value is the value followed
        for r in rec:
            call = next(c for c in calls(r.ast) if dotted(c.func) == f"self.{rf.node.name}")
            arg = call.args[0] if call.args else kwarg(call, url_p)
            if sch and dotted(arg) != dotted(method_call(sch[0].ast)[0]):
                ok2 = False
    if not ok2:
        chk.finding("G2", rf.key, "scheme-filter", "a redirect target can be followed without having been checked to start with gemini:// (or a different value is checked than followed)", rf.loc())
    chk.ob("G2", f"{rf.key}: scheme filter dominates the next hop", ok2, f"{len(sch)} scheme tests")

    chk.rule("G3", "the success edges of the loop test and the limit test reach only raise")
    tests = [n for n in g.nodes if n.kind == "test" and isinstance(n.ast, ast.Compare) and (
        (isinstance(n.ast.ops[0], ast.In) and dotted(n.ast.left) == url_p) or (isinstance(n.ast.left, ast.Call) and dotted(n.ast.left.func) == "len" and "max_redirects" in norm(n.ast.comparators[0]))
    )]
    ok3 = len(tests) >= 2
    for t in tests:
        ts = [b for b, lab in g.succ[t.id] if lab == "T"]
        par = g.reach(ts, follow=lambda lab: lab != "exc")
        if g.exit.id in par or any(f.id in par for f in fetch):
            ok3 = False
            chk.finding("G3", rf.key, f"not-an-error:{norm(t.ast)[:40]}", f"when `{norm(t.ast)}` holds the follower does not raise: a loop or over-long chain is returned as if it were a final response (or followed further)", t.where())
    if len(tests) < 2:
        chk.finding("G3", rf.key, "missing-guard", "the follower lacks the loop test (`url in chain`) or the limit test", rf.loc())
    chk.ob("G3", f"{rf.key}: loop/limit violations raise", ok3, f"{len(tests)} guard tests")

    chk.rule("G5", "loop detection: `url in chain` before the fetch; the fetched URL is what is appended")
    lt = [t for t in tests if isinstance(t.ast.ops[0], ast.In)]
    ok5 = bool(lt)
    if lt:
        blocked = {(lt[0].id, b, lab) for b, lab in g.succ[lt[0].id] if lab == "F"}
        par = g.reach([g.entry.id], blocked_edges=blocked, follow=normal_only)
        if any(f.id in par for f in fetch):
            ok5 = False
        chain = dotted(lt[0].ast.comparators[0])
        apps = [c for c in calls(rf.node) if method_call(c) and method_call(c)[1] in ("append", "add") and dotted(method_call(c)[0]) == chain]
        if not apps or any(dotted(a.args[0]) != url_p for a in apps):
            ok5 = False
    # the chain is per fetch: callers other than the follower itself start it empty
    if lt:
        chain_param = dotted(lt[0].ast.comparators[0])
        ci_ = rf.cls
        for m_ in (ci_.methods.values() if ci_ else []):
            if m_ is rf:
                continue
            for c in calls(m_.node):
                if dotted(c.func) != f"self.{rf.node.name}":
                    continue
                params_ = [p for p in rf.params if p != "self"]
                v = kwarg(c, chain_param)
                if v is None and chain_param in params_ and len(c.args) > params_.index(chain_param):
                    v = c.args[params_.index(chain_param)]
                fresh = v is None or (isinstance(v, ast.Constant) and v.value is None) or (isinstance(v, (ast.List, ast.Set)) and not v.elts) or (isinstance(v, ast.Call) and dotted(v.func) in ("list", "set") and not v.args)
                if not fresh:
                    ok5 = False
                    chk.finding(
                        "G5", m_.key, f"chain-shared:{norm(v)[:40]}",
                        f"the follower is started with the chain `{norm(v)}`, an object that outlives this fetch: another fetch on the same client that clears or extends it in between empties the loop detector and the hop counter of this one, so cycles and over-long chains are followed without bound",
                        m_.loc(c),
                    )
    if not ok5 and not any(f.rule == "G5" and "chain-shared" in f.key for f in chk.findings):
        chk.finding("G5", rf.key, "loop-detection", "the URL about to be fetched is not tested against the chain before the fetch, or something other than the fetched URL is recorded", rf.loc())
    chk.ob("G5", f"{rf.key}: loop detection", ok5)

    chk.rule("G4", "get(): with follow_redirects false exactly one _get_single result is returned unchanged; otherwise the follower is used with self.max_redirects")
    gt = ci.methods.get("get")
    if gt is None:
        chk.floor("G4", "get", 0, 1)
    g2 = build_cfg(chk.proj, gt)
    def _flag(n):
        a, neg = n.ast, False
        while isinstance(a, ast.UnaryOp) and isinstance(a.op, ast.Not):
            a, neg = a.operand, not neg
        return (dotted(a) == "follow_redirects", neg)

    ft = [n for n in g2.nodes if n.kind == "test" and n.ast is not None and _flag(n)[0]]
    ok4 = bool(ft)
    if ft:
        neg = _flag(ft[0])[1]
        off_lab, on_lab = ("T", "F") if neg else ("F", "T")
        fs = [b for b, lab in g2.succ[ft[0].id] if lab == off_lab]
        par = g2.reach(fs, follow=normal_only)
        rets = [g2.nodes[i] for i in par if g2.nodes[i].kind == "stmt" and isinstance(g2.nodes[i].ast, ast.Return)]
        ok4 = len(rets) == 1 and isinstance(rets[0].ast.value, ast.Await) and isinstance(rets[0].ast.value.value, ast.Call) and dotted(rets[0].ast.value.value.func) == "self._get_single" and dotted(rets[0].ast.value.value.args[0]) == gt.params[1]
        ts = [b for b, lab in g2.succ[ft[0].id] if lab == on_lab]
        par = g2.reach(ts, follow=normal_only)
        rets = [g2.nodes[i] for i in par if g2.nodes[i].kind == "stmt" and isinstance(g2.nodes[i].ast, ast.Return)]
        okf = False
        if len(rets) == 1:
            fc = next((c for c in calls(rets[0].ast) if dotted(c.func) == f"self.{rf.node.name}"), None)
            if fc is not None:
                params_ = [p for p in rf.params if p != "self"]
                mr = kwarg(fc, "max_redirects")
                if mr is None and "max_redirects" in params_ and len(fc.args) > params_.index("max_redirects"):
                    mr = fc.args[params_.index("max_redirects")]
                if isinstance(mr, ast.Name):
                    # through a local (`limit = self.max_redirects`)
                    from ..flow import Defs as _Defs, origins as _origins

                    lv = _origins(_Defs(g2), rets[0], mr)
                    okf = bool(lv) and all(dotted(le) == "self.max_redirects" for _n, le in lv)
                else:
                    okf = mr is not None and dotted(mr) == "self.max_redirects"
        ok4 = ok4 and okf
    if not ok4:
        chk.finding("G4", gt.key, "get-dispatch", "get() does not return exactly one unmodified _get_single result when redirects are disabled, or does not hand self.max_redirects to the follower", gt.loc())
    chk.ob("G4", f"{gt.key}: dispatch on follow_redirects", ok4)
    # the validation of the initial URL
    okv = any((dotted(c.func) or "").split(".")[-1] == "validate_url" for c in calls(gt.node))
    chk.ob("G4", f"{gt.key}: validates the URL first", okv, nontrivial=False)
    if not okv:
        chk.finding("G4", gt.key, "unvalidated-url", "get() no longer validates the URL (scheme gemini, length) before connecting", gt.loc())


def rule_g6(chk: Check) -> None:
    """The next hop is the target the server named: whichever accessor of the
    response the follower reads (redirect_url / meta) hands out the whole meta
    of a 3x response (surrounding white space may be stripped)."""
    chk.rule("G6", "the redirect target followed is the server's meta as sent: the accessor the follower reads returns self.meta unaltered for 3x responses")
    ci = chk.proj.cls("protocol.response:GeminiResponse")
    follower = next((m for m in chk.proj.cls(SESSION).methods.values() if any(isinstance(x, ast.Attribute) and x.attr in ("redirect_url",) for x in walk(m.node))), None)
    used = sorted({x.attr for x in walk(follower.node) if isinstance(x, ast.Attribute) and x.attr in ("redirect_url", "meta") and isinstance(x.value, ast.Name)}) if follower else []
    chk.require("G6", SESSION, "redirect target accessor read by the follower", len(used), 1, "the follower no longer reads the redirect target from the response")
    for acc in used:
        m = ci.methods.get(acc)
        if m is None:
            chk.ob("G6", f"response.{acc} is a plain field", True, nontrivial=False)
            continue

        def plain(e, fi, depth=0):
            if depth > 3:
                return False
            if dotted(e) == "self.meta":
                return True
            if isinstance(e, ast.Call) and method_call(e) and method_call(e)[1] == "strip" and not e.args:
                return plain(method_call(e)[0], fi, depth + 1)
            if isinstance(e, ast.IfExp):
                # `self.meta if self.is_redirect() else None`
                arms = [a for a in (e.body, e.orelse) if not (isinstance(a, ast.Constant) and a.value is None)]
                return bool(arms) and all(plain(a, fi, depth + 1) for a in arms)
            if isinstance(e, ast.Call) and (dotted(e.func) or "").startswith("self.") and not e.args:
                h = ci.methods.get((dotted(e.func) or "")[5:])
                return h is not None and all(r.value is not None and plain(r.value, h, depth + 1) for r in walk(h.node) if isinstance(r, ast.Return))
            if isinstance(e, ast.Name):
                ds = [st.value for st in walk(fi.node) if isinstance(st, ast.Assign) and any(isinstance(t, ast.Name) and t.id == e.id for t in st.targets)]
                return bool(ds) and all(plain(v, fi, depth + 1) for v in ds)
            return False

        rets = [r for r in walk(m.node) if isinstance(r, ast.Return) and r.value is not None and not (isinstance(r.value, ast.Constant) and r.value.value is None)]
        bad = [r for r in rets if not plain(r.value, m)]
        ok = bool(rets) and not bad
        if not ok:
            chk.finding(
                "G6", m.key, f"target-altered:{norm(bad[0].value)[:50] if bad else 'none'}",
                f"GeminiResponse.{acc} returns `{norm(bad[0].value) if bad else 'nothing'}` instead of the meta as sent: a redirect target containing the altered characters (e.g. `;`) is followed to a different URL, so a loop-free chain does not reach its final response (or a false loop is reported)",
                m.loc(),
            )
        chk.ob("G6", f"GeminiResponse.{acc} returns the meta unaltered", ok, evals=len(rets))


def rule_g14(chk: Check) -> None:
    """The budget the follower is bounded by is the one the caller gave: every
    store to ``self.max_redirects`` in the client assigns the like-named
    parameter itself.  A truthiness idiom (``x or DEFAULT``, ``x if x else
    DEFAULT``) turns the valid budget 0 into the default; arithmetic shifts
    the bound."""
    chk.rule("G14", "the budget is stored as given: every store to self.max_redirects assigns the max_redirects parameter unaltered (an `is None` default is the only accepted rewriting; 0 is a valid budget)")
    ci = chk.proj.cls(SESSION)
    stores = 0
    for mname, fi in ci.methods.items():
        sts = [st for st in walk(fi.node) if isinstance(st, (ast.Assign, ast.AnnAssign, ast.AugAssign)) and any(dotted(t) == "self.max_redirects" for t in (st.targets if isinstance(st, ast.Assign) else [st.target]))]
        if not sts:
            continue
        g = build_cfg(chk.proj, fi)
        d = Defs(g)
        params = {a.arg for a in fi.node.args.args + fi.node.args.kwonlyargs}
        for st in sts:
            stores += 1
            n = next((x for x in g.nodes if x.ast is st), None)
            val = None if isinstance(st, ast.AugAssign) else st.value

            def given(e, _n=n, depth=0) -> bool:
                if e is None:
                    return False
                if isinstance(e, ast.IfExp):
                    # `DEFAULT if p is None else p` / `p if p is not None else DEFAULT`
                    t = e.test
                    if isinstance(t, ast.Compare) and len(t.ops) == 1 and isinstance(t.comparators[0], ast.Constant) and t.comparators[0].value is None and isinstance(t.left, ast.Name) and t.left.id == "max_redirects":
                        keep = e.orelse if isinstance(t.ops[0], ast.Is) else e.body if isinstance(t.ops[0], ast.IsNot) else None
                        other = e.body if keep is e.orelse else e.orelse
                        return keep is not None and given(keep, _n, depth + 1) and isinstance(other, (ast.Constant, ast.Name, ast.Attribute))
                    return False
                if isinstance(e, ast.Name):
                    if _n is None or depth > 4:
                        return e.id == "max_redirects" and e.id in params
                    leaves = origins(d, _n, e)
                    return bool(leaves) and all(
                        (isinstance(le, ast.Name) and le.id == "max_redirects" and le.id in params)
                        or (isinstance(le, _Sel) and le.name == "max_redirects" and le.selector == "param" and le.name in params)
                        or (not isinstance(le, (ast.Name, _Sel)) and given(le, dn, depth + 1))
                        for dn, le in leaves
                    )
                if isinstance(e, ast.Call) and dotted(e.func) == "int" and len(e.args) == 1 and not e.keywords:
                    return given(e.args[0], _n, depth + 1)
                return False

            ok = given(val)
            if not ok:
                chk.finding(
                    "G14", fi.key, f"budget-rewritten:{norm(val)[:50] if val is not None else 'augmented'}",
                    f"self.max_redirects is stored as `{norm(val) if val is not None else norm(st)}` and not as the caller's max_redirects: a budget of 0 (or another value the expression rewrites) is replaced, so the fetch opens more connections than max_redirects + 1 or refuses chains it must follow",
                    fi.loc(st),
                )
            chk.ob("G14", f"{fi.key}: self.max_redirects <- {norm(val)[:40] if val is not None else 'aug'}", ok)
    chk.require("G14", f"{SESSION}", "stores to self.max_redirects", stores, 1, "the client never records the redirect budget it is given")


def run(chk: Check) -> None:
    rule_g(chk)
    rule_g6(chk)
    rule_g14(chk)
    from .c19 import wire_fidelity

    wire_fidelity(chk, "G9", "every hop is keyed for the pin check by the canonical host and port: ParsedURL.hostname is the lower-cased, unbracketed host for every spelling a redirect target may use (= C19.N1-N3)")
    from .c03 import option_wiring

    chk.rule("G7", "the redirect budget reaches the client as given: every GeminiClient construction passes max_redirects as the caller's own option, a literal or the default (0 is a valid budget)")
    option_wiring(chk, "G7", "max_redirects", "a budget of 0 (falsy) becomes the default and the fetch opens more connections than the caller allowed")

    from .c03 import rule_t6

    before = len(chk.findings)
    rule_t6(chk)
    for f in chk.findings[before:]:
        f.rule = "G4"
    for o in chk.obligations:
        if o["rule"].endswith(".T6"):
            o["rule"] = f"{chk.prop}.G4"
    chk.rules.pop("T6", None)
    from .c03 import connecting_functions, rule_t2_t3
    from .common import reuse

    reuse(chk, rule_t2_t3, "G10", "the pin check of a hop has an effect: every verdict TOFUDatabase.verify can return is handled by the per-hop fetch - a failing one raises before anything is requested from the redirect target (= C03.T2/T3)", ("T2", "T3"), connecting_functions(chk))
    from .common import client_stateless
    from .c03 import rule_t4

    client_stateless(chk, "G12", "the visited-URL chain / hop counter of one fetch is shared with every other fetch in flight on the client: loop-free chains are refused and cycles outlive the connection bound")
    reuse(chk, rule_t4, "G11", "the pin check of a hop compares with the pin stored now (= C03.T4): a verdict cached in memory accepts a redirect hop whose pin was replaced since", ("T4",))
    from .common import redirect_target_fidelity

    redirect_target_fidelity(chk, "G13")
    chk.trusted = ["CPython ast parser", "engine CFG"]
    chk.assumptions = ["a follower written in an idiom other than recursion-with-chain / for-range is reported as 'bound not extractable' (stated residual risk)"]
