"""C04 - No handler runs for a request the middleware chain refuses.

  M1  gate dominance over all activation sequences (abstract machine): a
      handler / upload-handler dispatch happens only with the chain's verdict
      known truthy in the chain's own done-callback, or with no chain
  M1b no exception handler around the consultation can reach a dispatch
      (a failing consultation refuses, never admits)
  M2  chain semantics: first falsy verdict returns (False, that response); no
      try inside the loop that could skip a component; (True, ...) only after
      loop exhaustion
  M3  the chain is consulted with the real peer address, the parsed request's
      URL and the fingerprint of the certificate actually presented (both
      backends)
  M4  both listeners construct the protocol with the same handler and chain
  M5  the client receives the rejecting component's response
Not decided: handler side effects before its first await; run-time ordering.
"""

from __future__ import annotations

import ast

from ..astutil import calls, dotted, is_none, is_self_attr, kwarg, method_call, norm, walk
from ..cfg import Builder, build_cfg, inline_self_methods
from ..flow import Defs, _Sel, origins
from ..paths import normal_only
from ..report import Check
from .common import SERVER_PROTO, TLS_PROTO, TLS_WRAPPER, machine_findings, machine_floor, nodes_calling

EXPLANATION = (
    "Static necessary conditions of C04. (M1) The abstract machine over the protocol class's "
    "inlined CFG explores every activation sequence and reports any handler or upload-handler "
    "dispatch that is reachable while a middleware chain may be configured and its verdict has "
    "not been observed truthy in the chain's own done-callback. (M1b) From no exception "
    "handler of the try block around the consultation is a dispatch reachable. (M2) The "
    "chain's loop returns (False, response) at the first falsy verdict, contains no handler "
    "that could continue past a raising component, and returns (True, ...) only after the loop "
    "is exhausted. (M3) Provenance of the three consultation arguments: peername from the "
    "transport, URL from the parsed request, fingerprint from the peer certificate; on the "
    "PyOpenSSL path the wrapper delegates peername and carries the certificate set before the "
    "inner connection_made. (M4) Both create_server factories build the protocol with "
    "identical arguments. (M5) The rejection written is the component's text. Handler side "
    "effects before a first await and task scheduling order are not decided. "
    "(M3, cut) Where a request class assembles its ParsedURL by hand, the URL the chain is consulted with and the path the handler acts on are the same canonical cut of the request line. "
    "(M3f) The fingerprint function is sha256 over DER, untruncated and pure (no module state or cache). "
    "(M3p) The peer's identity comes from get_peer_certificate() only, never from the chain APIs."
)


def rule_m1(chk: Check):
    chk.rule("M1", "dispatch only after the chain's truthy verdict in its own callback, or with no chain configured (machine)")
    mach = machine_findings(chk, "M1", {"ungated-dispatch"}, "dispatch is gated by the middleware verdict")
    machine_floor(chk, "M1", mach, dispatch=2, consult=1)
    return mach


def rule_m1b(chk: Check, mach) -> None:
    chk.rule("M1b", "no exception handler of the try around a middleware consultation reaches a handler dispatch")
    ci = chk.proj.cls(SERVER_PROTO)
    m = mach.m
    n = 0
    for fi in ci.methods.values():
        if not any(method_call(c) and dotted(method_call(c)[0]) == m.middleware for c in calls(fi.node)):
            continue
        g = Builder(chk.proj, inline_self_methods, 6).build(fi)
        consult = [x for x in g.nodes if not x.stack and x.ast is not None and x.kind == "stmt" and any(method_call(c) and dotted(method_call(c)[0]) == m.middleware for c in calls(x.ast))]
        disp = {
            x.id for x in g.nodes if x.ast is not None and x.kind in ("stmt", "test")
            and any((dotted(c.func) or "") == m.handler or (method_call(c) and dotted(method_call(c)[0]) == m.upload) for c in calls(x.ast))
        }
        for cn in consult:
            n += 1
            handlers = [b for b, lab in g.succ[cn.id] if lab == "exc" and g.nodes[b].kind == "handler"]
            ok = True
            for h in handlers:
                par = g.reach([h])
                hit = [d for d in disp if d in par]
                if hit:
                    ok = False
                    chk.finding(
                        "M1b", fi.key, f"fail-open:{norm(g.nodes[h].ast.type) if g.nodes[h].ast.type else 'bare'}",
                        "when consulting the middleware chain raises, the exception handler goes on to dispatch the request handler: a failing consultation admits the request",
                        g.nodes[h].where(), g.fmt_path(g.path_to(par, hit[0])),
                    )
            chk.ob("M1b", f"{fi.key}: handlers around the consultation refuse", ok, f"{len(handlers)} handlers", evals=max(1, len(handlers)))
    chk.floor("M1b", "consultation sites", n, 1)


def rule_m2(chk: Check) -> None:
    chk.rule("M2", "MiddlewareChain: first falsy verdict returns (False, response); nothing inside the loop swallows a raising component; (True, ...) only after exhaustion")
    fi = chk.proj.func("server.middleware:MiddlewareChain.process_request")
    g = build_cfg(chk.proj, fi)
    heads = [x for x in g.nodes if x.kind == "for"]
    chk.floor("M2", "chain loop", len(heads), 1)
    head = heads[0]
    ok_iter = dotted(head.ast.iter) == "self.middlewares"
    if not ok_iter:
        chk.finding("M2", fi.key, f"iter:{norm(head.ast.iter)}", f"the chain iterates `{norm(head.ast.iter)}`, not every configured middleware in order", head.where())
    chk.ob("M2", "loop iterates self.middlewares in order", ok_iter)
    consult = [x for x in g.nodes if x.kind == "stmt" and x.ast is not None and any(method_call(c) and method_call(c)[1] == "process_request" for c in calls(x.ast))]
    chk.floor("M2", "component consultation", len(consult), 1)
    cn = consult[0]
    # verdict variable
    verdict = resp = None
    if isinstance(cn.ast, ast.Assign) and isinstance(cn.ast.targets[0], ast.Tuple) and len(cn.ast.targets[0].elts) == 2:
        verdict, resp = (dotted(e) for e in cn.ast.targets[0].elts)
    ok = verdict is not None
    if not ok:
        chk.finding("M2", fi.key, "verdict-unbound", "the component's (allow, response) result is not unpacked: its verdict cannot stop the chain", cn.where())
    else:
        # every path from the consultation on which `verdict` is falsy returns (False, resp) before the next iteration
        from ..paths import BoolFacts, boolfacts_step, walk_paths

        init = BoolFacts({verdict: False}, {})
        starts = [b for b, lab in g.succ[cn.id] if lab not in ("exc", "raise")]
        for s0 in starts:
            for path, _st in walk_paths(g, s0, init, boolfacts_step, stop=lambda x: x.id == head.id or x.kind == "exit", follow=normal_only):
                last_ret = [x for x, _ in path if x.kind == "stmt" and isinstance(x.ast, ast.Return)]
                good = False
                if last_ret:
                    rv = last_ret[-1].ast.value
                    if isinstance(rv, ast.Tuple) and len(rv.elts) == 2:
                        f0 = rv.elts[0]
                        if (isinstance(f0, ast.Constant) and f0.value is False) or dotted(f0) == verdict:
                            good = dotted(rv.elts[1]) == resp
                            if not good:
                                chk.finding("M2", fi.key, f"reject-response:{norm(rv)}", f"on rejection the chain returns `{norm(rv)}` instead of the rejecting component's own response", last_ret[-1].where())
                                ok = False
                                continue
                if not good:
                    ok = False
                    chk.finding("M2", fi.key, "falsy-verdict-continues", "with a falsy verdict from a component the chain goes on instead of returning (False, response)", cn.where(), g.fmt_path(path))
                    break
    chk.ob("M2", "first falsy verdict returns (False, that response)", ok, evals=3)
    # no handler in this function lets the loop continue / return admission
    hs = [x for x in g.nodes if x.kind == "handler"]
    ok2 = True
    for h in hs:
        par = g.reach([h.id])
        reaches_admit = any(
            x.kind == "stmt" and isinstance(x.ast, ast.Return) and isinstance(x.ast.value, ast.Tuple) and x.ast.value.elts
            and not (isinstance(x.ast.value.elts[0], ast.Constant) and x.ast.value.elts[0].value is False)
            for x in (g.nodes[i] for i in par)
        )
        if head.id in par or reaches_admit:
            ok2 = False
            chk.finding("M2", fi.key, f"swallow:{norm(h.ast.type) if h.ast.type else 'bare'}", "an exception handler inside the chain lets processing continue (or admit) after a component raised: a raising component must refuse", h.where())
    chk.ob("M2", "a raising component propagates (no swallowing handler)", ok2, f"{len(hs)} handlers", evals=max(1, len(hs)))
    # (True, ...) only after exhaustion
    admits = [
        x for x in g.nodes
        if x.kind == "stmt" and isinstance(x.ast, ast.Return) and isinstance(x.ast.value, ast.Tuple) and x.ast.value.elts
        and isinstance(x.ast.value.elts[0], ast.Constant) and x.ast.value.elts[0].value is True
    ]
    chk.floor("M2", "admission return", len(admits), 1)
    blocked = {(head.id, b, lab) for b, lab in g.succ[head.id] if lab == "F"}
    par = g.reach([g.entry.id], blocked_edges=blocked, follow=normal_only)
    ok3 = all(a.id not in par for a in admits)
    if not ok3:
        chk.finding("M2", fi.key, "admit-before-exhaustion", "the chain can return (True, ...) without having consulted every component", admits[0].where())
    chk.ob("M2", "(True, None) only after loop exhaustion", ok3, evals=2)


def rule_m3(chk: Check, mach) -> None:
    chk.rule("M3", "consultation arguments: URL from the parsed request, address from transport peername, fingerprint from the presented certificate; PyOpenSSL wrapper delegates both")
    ci = chk.proj.cls(SERVER_PROTO)
    m = mach.m
    n = 0
    for fi in ci.methods.values():
        consults = [c for c in calls(fi.node) if method_call(c) and dotted(method_call(c)[0]) == m.middleware]
        if not consults:
            continue
        g = build_cfg(chk.proj, fi)
        defs = Defs(g)
        for c in consults:
            n += 1
            node = next(x for x in g.nodes if x.ast is not None and x.kind == "stmt" and any(cc is c for cc in calls(x.ast)))
            args = list(c.args)
            ok = len(args) >= 3
            if not ok:
                chk.finding("M3", fi.key, "consult-arity", "the chain is consulted with fewer than (url, address, fingerprint)", fi.loc(c))
                chk.ob("M3", f"{fi.key}: consultation arguments", False)
                continue
            # arg0: the URL of the parsed request, denoting the same path the handler
            # acts on: <req>.parsed_url.normalized, or <req>.normalized_url where that
            # property of the request's class returns exactly parsed_url.normalized
            a0 = args[0]
            ok0 = False
            why0 = f"the chain is consulted with `{norm(a0)}`, not the URL of the parsed request"
            d0 = dotted(a0) or ""
            base_expr = None
            if d0.endswith(".parsed_url.normalized"):
                base_expr = a0.value.value  # type: ignore[attr-defined]
                prop_ok = True
            elif isinstance(a0, ast.Attribute) and a0.attr == "normalized_url":
                base_expr = a0.value
                prop_ok = None
            else:
                prop_ok = False
            if base_expr is not None:
                leaves = origins(defs, node, base_expr) if isinstance(base_expr, ast.Name) else [(node, base_expr)]
                classes = set()
                src_ok = bool(leaves)
                for _, le in leaves:
                    if isinstance(le, ast.Call) and method_call(le) and method_call(le)[1] == "from_line":
                        classes.add(dotted(method_call(le)[0]))
                    elif dotted(le) and (dotted(le) or "").startswith("self."):
                        from ..cfg import Resolver

                        for t in Resolver(chk.proj).receiver_types(fi, le):
                            classes.add(t.split(".")[-1])
                    else:
                        src_ok = False
                if prop_ok is None:
                    prop_ok = bool(classes)
                    for cname in classes:
                        rc = chk.proj.class_of_type(fi.module, cname) or next((c for c in chk.proj.classes.values() if c.name == cname), None)
                        pm = chk.proj.find_method(rc, "normalized_url") if rc is not None else None
                        rets = [r for r in walk(pm.node) if isinstance(r, ast.Return)] if pm is not None else []
                        if not (rets and all(dotted(r.value) == "self.parsed_url.normalized" for r in rets)):
                            prop_ok = False
                            why0 = f"the chain is consulted with `{norm(a0)}`: {cname}.normalized_url is not the plain normalised URL (it carries request parameters), so path rules are matched against something other than the location the handler acts on"
                ok0 = src_ok and bool(prop_ok)
            if not ok0:
                chk.finding("M3", fi.key, f"consult-url:{norm(a0)}", why0, fi.loc(c))
            # arg1: peer address
            ok1 = True

            def _ip_leaves(leaves, depth=0):
                # an argument-free helper method of the class stands for the values it returns
                out = []
                for _n, le in leaves:
                    callee = None
                    if isinstance(le, ast.Call) and not le.args and not le.keywords and (dotted(le.func) or "").startswith("self.") and depth < 2:
                        callee = chk.proj.find_method(ci, (dotted(le.func) or "").split(".")[-1])
                    if callee is None:
                        out.append((_n, le))
                        continue
                    g2 = build_cfg(chk.proj, callee)
                    d2 = Defs(g2)
                    rets = [x for x in g2.nodes if x.kind == "stmt" and isinstance(x.ast, ast.Return) and x.ast.value is not None]
                    if not rets:
                        out.append((_n, le))
                    for r in rets:
                        out += _ip_leaves(origins(d2, r, r.ast.value), depth + 1)
                return out

            for _, le in _ip_leaves(origins(defs, node, args[1])):
                txt = norm(le)
                if isinstance(le, ast.Constant):
                    continue
                def _plain_addr(e):
                    # the address itself, possibly `str(...)` of it, possibly defaulted when there is no peer name
                    if isinstance(e, ast.IfExp):
                        return _plain_addr(e.body) and _plain_addr(e.orelse)
                    if isinstance(e, ast.Constant):
                        return True
                    if isinstance(e, ast.Call) and dotted(e.func) == "str" and len(e.args) == 1:
                        return _plain_addr(e.args[0])
                    return norm(e) == "self.peer_name[0]"

                if "self.peer_name[0]" not in txt or any(ch not in ("self.peer_name", "self.peer_name[0]", "self") for ch in _chains(le)) or not _plain_addr(le):
                    ok1 = False
                    chk.finding("M3", fi.key, f"consult-ip:{txt[:50]}", f"the client address given to the chain is `{txt}`, not the transport's peer address", fi.loc(c))
            # arg2: fingerprint of the presented certificate
            ok2 = True
            for _, le in origins(defs, node, args[2]):
                if isinstance(le, ast.Constant) and le.value is None:
                    continue
                if isinstance(le, ast.Attribute) and le.attr == "client_cert_fingerprint":
                    continue  # set from the same computation on the request object (checked below)
                good = isinstance(le, ast.Call) and (dotted(le.func) or "").endswith("get_certificate_fingerprint") and len(le.args) == 1
                if good:
                    certs = origins(defs, node, le.args[0])
                    good = all(isinstance(cl, ast.Call) and dotted(cl.func) == "self.get_peer_certificate" for _, cl in certs)
                if not good:
                    ok2 = False
                    chk.finding("M3", fi.key, f"consult-fp:{norm(le)[:50]}", f"the fingerprint given to the chain is `{norm(le)}`, not the SHA-256 of the certificate the peer presented", fi.loc(c))
            chk.ob("M3", f"{fi.key}: consultation arguments", ok0 and ok1 and ok2, norm(c)[:100], evals=3)
    chk.floor("M3", "consultation call sites", n, 1)

    # peer_name assignments
    okp = True
    np = 0
    for fi in ci.methods.values():
        for st in walk(fi.node):
            tg = st.targets if isinstance(st, ast.Assign) else ([st.target] if isinstance(st, ast.AnnAssign) and st.value is not None else [])
            if any(is_self_attr(t, "peer_name") for t in tg):
                np += 1
                v = st.value
                good = is_none(v) or (
                    isinstance(v, ast.Call) and method_call(v) and method_call(v)[1] == "get_extra_info"
                    and dotted(method_call(v)[0]) in ("self.transport", "transport")
                    and v.args and isinstance(v.args[0], ast.Constant) and v.args[0].value == "peername"
                )
                if not good:
                    okp = False
                    chk.finding("M3", fi.key, f"peer-name:{norm(v)[:50]}", f"peer_name is assigned `{norm(v)}`, not the transport's peername", fi.loc(st))
    chk.floor("M3", "peer_name assignments", np, 2)
    chk.ob("M3", "peer_name comes from transport.get_extra_info('peername')", okp, evals=np)

    # get_peer_certificate: ssl_object.getpeercert(binary_form=True) -> load_der
    gp = ci.methods.get("get_peer_certificate")
    if gp is None:
        chk.floor("M3", "get_peer_certificate", 0, 1)
    src = norm(gp.node)
    okc = "get_extra_info('ssl_object')" in src and "getpeercert(binary_form=True)" in src and "load_der_x509_certificate" in src
    rets = [r for r in walk(gp.node) if isinstance(r, ast.Return) and r.value is not None and not is_none(r.value)]
    okc = okc and all(isinstance(r.value, ast.Call) and (dotted(r.value.func) or "").endswith("load_der_x509_certificate") for r in rets) and bool(rets)
    if not okc:
        chk.finding("M3", gp.key, "peer-cert-source", "get_peer_certificate does not return the DER certificate of the TLS peer (ssl_object.getpeercert(binary_form=True))", gp.loc())
    chk.ob("M3", f"{gp.key}: certificate is the TLS peer's", okc)

    # PyOpenSSL wrapper delegation
    wrap = chk.proj.cls(TLS_WRAPPER)
    gei = wrap.methods.get("get_extra_info")
    if gei is None:
        chk.floor("M3", "wrapper get_extra_info", 0, 1)
    okw = True
    g = build_cfg(chk.proj, gei)
    # under name == "peername": returns <tcp transport>.get_extra_info("peername") (or None)
    from ..paths import BoolFacts, walk_paths

    def step(state, node, label):
        if node.kind == "test" and isinstance(node.ast, ast.Compare) and len(node.ast.ops) == 1 and isinstance(node.ast.ops[0], ast.Eq):
            rhs = node.ast.comparators[0]
            if dotted(node.ast.left) == "name" and isinstance(rhs, ast.Constant):
                want = state == rhs.value
                if (label == "T") != want:
                    return None
        return state

    from .common import alias_map, canon_dotted

    am_ = alias_map(gei.node)
    for key, check in (("peername", "peer"), ("ssl_object", "cert")):
        rets = []
        for path, _s in walk_paths(g, g.entry.id, key, step, follow=normal_only):
            r = [x for x, _ in path if x.kind == "stmt" and isinstance(x.ast, ast.Return)]
            if r:
                rets.append(r[-1].ast.value)
        good = bool(rets)
        for rv in rets:
            if check == "peer":
                if is_none(rv):
                    continue
                if not (isinstance(rv, ast.Call) and method_call(rv) and method_call(rv)[1] == "get_extra_info" and canon_dotted(method_call(rv)[0], am_).endswith(".transport") and rv.args and isinstance(rv.args[0], ast.Constant) and rv.args[0].value == "peername"):
                    good = False
            else:
                if not (isinstance(rv, ast.Call) and rv.args and dotted(rv.args[0]) == "self.peer_certificate"):
                    good = False
        if not good:
            okw = False
            chk.finding("M3", gei.key, f"wrapper-{key}", f"TLSTransportWrapper.get_extra_info('{key}') does not hand the inner protocol the real {'peer address' if check == 'peer' else 'client certificate'}", gei.loc())
        chk.ob("M3", f"{gei.key}('{key}') delegates", good, evals=max(1, len(rets)))

    # certificate attached before inner connection_made
    tls = chk.proj.cls(TLS_PROTO)
    init = next((f for f in tls.methods.values() if any(method_call(c) and method_call(c)[1] == "connection_made" for c in calls(f.node))), None)
    if init is None:
        chk.floor("M3", "inner connection_made site", 0, 1)
    g2 = build_cfg(chk.proj, init)
    cm = nodes_calling(g2, lambda c: method_call(c) is not None and method_call(c)[1] == "connection_made")[0]
    assigns = [x for x in g2.nodes if x.kind == "stmt" and isinstance(x.ast, ast.Assign) and any((dotted(t) or "").endswith(".peer_certificate") for t in x.ast.targets)]
    oka = bool(assigns)
    if oka:
        a = assigns[0]
        # value: x509_to_cryptography(peer_cert) with peer_cert from get_peer_certificate_from_connection(self.tls_conn)
        d2 = Defs(g2)
        v = a.ast.value
        srcs = origins(d2, a, v.args[0]) if isinstance(v, ast.Call) and v.args else []
        oka = isinstance(v, ast.Call) and bool(srcs) and all(
            isinstance(le, ast.Call) and "peer_certificate" in (dotted(le.func) or "") and le.args and dotted(le.args[0]) == "self.tls_conn"
            for _, le in srcs
        )
        # reaching connection_made without the assignment only through the "no certificate" edge
        tests = [x for x in g2.nodes if x.kind == "test" and x.ast is not None and srcs and any(dotted(x.ast) == nm for nm in _names_of(v))]
        blocked_edges = {(t.id, b, lab) for t in tests for b, lab in g2.succ[t.id] if lab == "F"}
        par = g2.reach([g2.entry.id], blocked_nodes={a.id}, blocked_edges=blocked_edges, follow=normal_only)
        if cm.id in par:
            oka = False
    if not oka:
        chk.finding("M3", init.key, "cert-after-connection-made", "the client certificate is not attached to the wrapper transport before the inner protocol's connection_made on every path with a certificate", init.loc())
    chk.ob("M3", f"{init.key}: certificate attached before inner connection_made", oka, evals=2)


def _names_of(call: ast.AST) -> list[str]:
    return [n.id for n in walk(call) if isinstance(n, ast.Name)]


def _chains(e: ast.AST) -> set[str]:
    out = set()
    for n in walk(e):
        if isinstance(n, (ast.Name, ast.Attribute, ast.Subscript)):
            d = dotted(n) if not isinstance(n, ast.Subscript) else norm(n)
            if d:
                out.add(d)
    return {c for c in out if c.startswith("self")}


def rule_m4(chk: Check) -> None:
    chk.rule("M4", "every construction of the server protocol in the package passes the same handler, chain and upload handler")
    sites = []
    for fi in chk.proj.functions.values():
        for n in ast.walk(fi.node):
            if isinstance(n, ast.Call) and (dotted(n.func) or "").split(".")[-1] == "GeminiServerProtocol":
                sites.append((fi, n))
    # nested lambdas are seen through ast.walk of the enclosing function; dedupe
    uniq = {}
    for fi, n in sites:
        uniq[(n.lineno, n.col_offset, fi.module.name)] = (fi, n)
    sites = list(uniq.values())
    chk.require("M4", "server.server", "protocol construction sites", len(sites), 1, "the server protocol is never constructed")
    sigs = {(tuple(norm(a) for a in n.args), tuple(sorted((k.arg or "", norm(k.value)) for k in n.keywords))) for _, n in sites}
    ok = len(sigs) == 1
    if not ok:
        fi, n = sites[0]
        chk.finding("M4", fi.key, "backend-divergence", f"the TLS backends construct the protocol differently: {sorted(sigs)}", fi.loc(n))
    chk.ob("M4", f"{len(sites)} construction sites agree", ok, evals=len(sites))
    chk.sample({"rule": "M4", "constructions": [norm(n) for _, n in sites]})


def _sel_of(defs, node, expr):
    """Unpack selectors (index of ``<task>.result()``) an expression derives from."""
    out = set()
    while isinstance(expr, ast.Call) and method_call(expr) and method_call(expr)[1] == "encode":
        expr = method_call(expr)[0]
    if isinstance(expr, ast.UnaryOp) and isinstance(expr.op, ast.Not):
        expr = expr.operand
    for dn, le in origins(defs, node, expr):
        if isinstance(le, ast.Call) and method_call(le) and method_call(le)[1] == "encode":
            out |= _sel_of(defs, dn, le)
            continue
        if isinstance(le, _Sel) and isinstance(le.selector, tuple) and le.selector[0] == "unpack" and isinstance(le.value, ast.Call) and method_call(le.value) and method_call(le.value)[1] == "result":
            out.add(le.selector[1])
        else:
            out.add(("other", norm(le) if not isinstance(le, _Sel) else repr(le)))
    return out


def rule_m5(chk: Check, mach) -> None:
    chk.rule("M5", "on the reject branch of the chain's callback, when the component supplied a response text the first bytes written are that text")
    from ..paths import walk_paths

    ci = chk.proj.cls(SERVER_PROTO)
    n = 0
    for cb in sorted(mach.mw_callbacks):
        fi = ci.methods.get(cb)
        if fi is None:
            continue
        g = Builder(chk.proj, inline_self_methods, 5).build(fi)
        defs = Defs(g)
        is_write = lambda x: x.ast is not None and x.kind == "stmt" and any(  # noqa: E731
            method_call(c) is not None and dotted(method_call(c)[0]) == "self.transport" and method_call(c)[1] == "write" for c in calls(x.ast)
        )
        sel_cache: dict[int, set] = {}

        def sel(node, expr):
            k = (node.id, id(expr))
            if k not in sel_cache:
                sel_cache[k] = _sel_of(defs, node, expr)
            return sel_cache[k]

        from ..paths import BoolFacts, boolfacts_step

        paths = walk_paths(g, g.entry.id, BoolFacts(), boolfacts_step, follow=normal_only, max_paths=100000)
        ok = True
        n_rej = 0
        for path, _ in paths:
            verdict = None
            text = None
            for node, lab in path:
                if node.kind == "test" and lab in ("T", "F") and node.ast is not None:
                    neg = isinstance(node.ast, ast.UnaryOp) and isinstance(node.ast.op, ast.Not)
                    ss = sel(node, node.ast)
                    val = (lab == "T") != neg
                    if ss == {0} and verdict is None:
                        verdict = val
                    elif ss == {1}:
                        text = val if text is None else text
            if verdict is not False:
                continue
            n_rej += 1
            writes = [node for node, _ in path if is_write(node)]
            if text is False:
                continue  # no text supplied: the protocol's own 40 (C01.W5 guarantees an answer)
            # transport gone / already answered: nothing to write
            if not writes:
                continue
            w = writes[0]
            call = next(c for c in calls(w.ast) if method_call(c) and method_call(c)[1] == "write")
            ss = sel(w, call.args[0])
            if ss != {1}:
                ok = False
                chk.finding("M5", fi.key, f"reject-text:{w.text(50)}", f"on rejection the first bytes written come from {sorted(map(str, ss))}, not from the rejecting component's response", w.where(), g.fmt_path(path))
                break
        n += n_rej
        chk.ob("M5", f"{fi.key}: rejection relays the component's text", ok, f"{n_rej} reject paths", evals=max(1, n_rej))
    chk.floor("M5", "reject paths in chain callbacks", n, 1)


def _cut(expr: ast.AST, fn: ast.AST, depth: int = 0):
    """Canonical description of how a string is cut out of another one.
    `X.split(S, 1)[0]`, `X.split(S)[0]`, `X.partition(S)[0]` and the first
    target of `a, b = X.split(S, 1)` are all ("before-first", X, S); a constant
    prefix glued onto a tail slice (scheme swap) is transparent."""
    if depth > 6:
        return ("opaque", norm(expr))
    if isinstance(expr, ast.Name):
        defs_ = []
        for st in walk(fn):
            if isinstance(st, ast.Assign):
                for t in st.targets:
                    if isinstance(t, ast.Name) and t.id == expr.id:
                        defs_.append(("plain", st.value))
                    elif isinstance(t, (ast.Tuple, ast.List)):
                        for i, e in enumerate(t.elts):
                            if isinstance(e, ast.Name) and e.id == expr.id:
                                defs_.append((i, st.value))
        if len(defs_) != 1:
            return ("name", expr.id)
        sel, val = defs_[0]
        if sel == "plain":
            return _cut(val, fn, depth + 1)
        mc = method_call(val) if isinstance(val, ast.Call) else None
        if sel == 0 and mc and mc[1] in ("split", "partition") and val.args and isinstance(val.args[0], ast.Constant):
            if mc[1] == "partition" or (len(val.args) == 2 and isinstance(val.args[1], ast.Constant) and val.args[1].value == 1):
                return ("before-first", _cut(mc[0], fn, depth + 1), val.args[0].value)
        return ("opaque", f"{norm(val)}[{sel}]")
    if isinstance(expr, ast.Subscript) and isinstance(expr.slice, ast.Constant) and expr.slice.value == 0 and isinstance(expr.value, ast.Call):
        mc = method_call(expr.value)
        if mc and mc[1] in ("split", "partition") and expr.value.args and isinstance(expr.value.args[0], ast.Constant):
            return ("before-first", _cut(mc[0], fn, depth + 1), expr.value.args[0].value)
    if isinstance(expr, ast.BinOp) and isinstance(expr.op, ast.Add) and isinstance(expr.left, ast.Constant) and isinstance(expr.right, ast.Subscript) and isinstance(expr.right.slice, ast.Slice) and expr.right.slice.upper is None:
        return _cut(expr.right.value, fn, depth + 1)  # "gemini://" + url_part[8:]
    return ("opaque", norm(expr))


def rule_m3_cut(chk: Check) -> None:
    """The URL the chain is consulted with (parsed_url.normalized) and the
    components the handler acts on (parsed_url.path, from parse_url(...)) must be
    cut out of the request line the same way, wherever a request class assembles
    its ParsedURL by hand."""
    n = 0
    for ci in chk.proj.module("protocol.request").classes.values():
        fi = ci.methods.get("from_line")
        if fi is None:
            continue
        for c in calls(fi.node):
            if (dotted(c.func) or "").split(".")[-1] != "ParsedURL":
                continue
            nv, pv = kwarg(c, "normalized"), kwarg(c, "path")
            if nv is None or pv is None:
                continue
            n += 1
            # path=<parsed>.path  with  <parsed> = parse_url(G)
            src = None
            if isinstance(pv, ast.Attribute) and isinstance(pv.value, ast.Name):
                for st in walk(fi.node):
                    if isinstance(st, ast.Assign) and any(isinstance(t, ast.Name) and t.id == pv.value.id for t in st.targets) and isinstance(st.value, ast.Call) and (dotted(st.value.func) or "").split(".")[-1] == "parse_url" and st.value.args:
                        src = st.value.args[0]
            a = _cut(nv, fi.node)
            b = _cut(src, fi.node) if src is not None else ("opaque", norm(pv))
            ok = a == b and a[0] != "opaque"
            if not ok:
                chk.finding(
                    "M3", fi.key, "consult-url-cut",
                    f"the URL the middleware chain is consulted with is cut from the request line as {a}, the path the handler acts on as {b}: for a line on which the two cuts differ (e.g. a `;` inside the path) the chain decides about one location and the handler acts on another",
                    fi.loc(c),
                )
            chk.ob("M3", f"{fi.key}: consulted URL and handler path are the same cut of the request line", ok, f"{a}")
    chk.ob("M3", "hand-assembled ParsedURL sites examined", True, f"{n} sites", nontrivial=False)


def rule_m3p(chk: Check, R: str = "M3p") -> None:
    # the client's identity is the certificate whose key was proven in the handshake:
    # OpenSSL hands that out through get_peer_certificate() only; the chain APIs list what
    # the peer *sent along* (on a server the chain excludes the peer's own certificate)
    chk.rule(R, "the presented certificate is taken from get_peer_certificate() only: no value of get_peer_cert_chain() / get_verified_chain() is returned or indexed as the peer's certificate")
    n_api = 0
    okp = True
    for fi in chk.proj.functions.values():
        if not fi.module.name.startswith(("security", "server")):
            continue
        for c in [x for x in ast.walk(fi.node) if isinstance(x, ast.Call)]:
            mc = method_call(c)
            if not mc:
                continue
            if mc[1] == "get_peer_certificate":
                n_api += 1
            if mc[1] in ("get_peer_cert_chain", "get_verified_chain"):
                # used as a certificate: indexed, or flows into a return
                used = False
                for x in ast.walk(fi.node):
                    if isinstance(x, ast.Subscript) and (x.value is c or (isinstance(x.value, ast.Name) and any(isinstance(st, ast.Assign) and st.value is c and any(isinstance(t, ast.Name) and t.id == x.value.id for t in st.targets) for st in ast.walk(fi.node)))):
                        used = True
                    if isinstance(x, ast.Return) and x.value is not None and any(y is c for y in ast.walk(x.value)):
                        used = True
                if used:
                    okp = False
                    chk.finding(
                        R, fi.key, f"identity-from-chain:{norm(c)[:40]}",
                        f"`{norm(c)}` is used as the peer's certificate: the chain holds what the client sent along, not the certificate whose private key the handshake proved - a client can append an authorised user's public certificate and be admitted under that fingerprint",
                        fi.loc(c),
                    )
    chk.require(R, "security.pyopenssl_tls", "get_peer_certificate() call sites", n_api, 1, "the PyOpenSSL backend no longer reads the peer certificate with get_peer_certificate()")
    chk.ob(R, "peer identity comes from get_peer_certificate() only", okp, evals=n_api)


def rule_m1c(chk: Check) -> None:
    """`if self.middleware:` means "a chain is configured" only while middleware
    objects are always truthy.  A component that defines __len__ / __bool__ (e.g.
    a limiter that reports its number of tracked addresses) is falsy while empty,
    and the protocol then serves without consulting it."""
    chk.rule("M1c", "presence tests of the configured chain mean presence: the protocol tests `is not None`, or no class with a process_request method defines __len__ / __bool__")
    ci = chk.proj.cls(SERVER_PROTO)
    truthy_tests = 0
    for m in ci.methods.values():
        g = build_cfg(chk.proj, m)
        for t in g.nodes:
            if t.kind == "test" and t.ast is not None:
                a = t.ast
                while isinstance(a, ast.UnaryOp) and isinstance(a.op, ast.Not):
                    a = a.operand
                if dotted(a) == "self.middleware":
                    truthy_tests += 1
    special = []
    for c2 in chk.proj.classes.values():
        if "process_request" in c2.methods:
            special += [(c2, mn) for mn in ("__len__", "__bool__") if mn in c2.methods]
    ok = not (truthy_tests and special)
    for c2, mn in special if truthy_tests else []:
        chk.finding(
            "M1c", c2.key, f"falsy-middleware:{mn}",
            f"{c2.name} defines {mn}, so an instance can be falsy (e.g. while it tracks nothing); the protocol decides 'no chain configured' with {truthy_tests} truthiness test(s) of self.middleware and then dispatches without consulting it: every request is served unchecked",
            c2.methods[mn].loc(),
        )
    chk.ob("M1c", "a configured chain is never falsy", ok, f"{truthy_tests} truthiness tests, {len(special)} special methods", evals=truthy_tests + len(special))


def run(chk: Check) -> None:
    mach = rule_m1(chk)
    rule_m1b(chk, mach)
    rule_m1c(chk)
    rule_m2(chk)
    rule_m3(chk, mach)
    rule_m3_cut(chk)
    rule_m4(chk)
    rule_m5(chk, mach)
    rule_m3p(chk)
    from .c19 import wire_fidelity

    wire_fidelity(chk, "M3w", "the URL the chain is consulted with carries exactly the path the handler acts on: normalised string and ParsedURL fields are built from the same components (= C19.N1-N3)")
    from .c03 import fingerprint_definition

    chk.rule("M3f", "the fingerprint the chain is consulted with is a pure function of the presented certificate: sha256 over its DER encoding, no state between calls (= C03.T4)")
    fingerprint_definition(chk, "M3f")
    chk.trusted = ["CPython ast parser", "engine CFG / inliner / path pruning", "asyncio runs done-callbacks after the task finished"]
    chk.assumptions = [
        "an event loop is running whenever a protocol callback runs (M1b separately proves the no-loop fallbacks cannot admit)",
        "a handler has no side effect before it is called",
    ]
