"""C15 - Silent peers are always disconnected within the timeout.

  X1 every accepting protocol arms a deadline in connection_made: the Gemini
     protocol its request timer; the manual-TLS (PyOpenSSL) wrapper, whose
     handshake asyncio does not supervise, a handshake deadline whose callback
     closes the connection while the handshake is incomplete
  X2 (machine) the request timer is disarmed whenever a handler, upload handler
     or the middleware chain is started for a complete request, and it is
     never disarmed while the request is still incomplete: no reachable state
     is open, unanswered, without pending callback and without armed timer
  X3 the timer callback answers `40 ...` and closes
  X4 every call_later delay in the server package is a positive finite constant
Not decided: that the event loop fires timers on time.
"""

from __future__ import annotations

import ast

from ..astutil import calls, dotted, kwarg, method_call, norm, walk
from ..cfg import Builder, build_cfg, inline_self_methods
from ..flow import Defs, origins
from ..paths import BoolFacts, boolfacts_step, normal_only, walk_paths
from ..report import Check
from ..strdom import Interp, StrV
from .c20 import _manual_tls_classes
from .common import SERVER_PROTO, machine_findings, machine_floor, nodes_calling

EXPLANATION = (
    "Static necessary conditions of C15. (X1) connection_made of every protocol class that "
    "accepts connections reaches loop.call_later(...) on every normal path; for the manual "
    "PyOpenSSL wrapper (listener created without ssl=, so asyncio supervises no handshake) the "
    "deadline callback closes the transport on every path on which the handshake is still "
    "incomplete. (X2) The abstract machine over the protocol's inlined CFG reports any dispatch "
    "or middleware consultation with the request timer still armed, and any reachable state in "
    "which the connection is open, unanswered, has no pending callback and no armed timer (a "
    "peer held for ever), over all activation sequences. (X3) The timer callback's header is "
    "the literal 40 line and is followed by close. (X4) All call_later delays resolve to "
    "positive numeric constants. Timer accuracy of the event loop is trusted. "
    "(X3b) No strict decode / int() on peer bytes is reachable in the timer callback before the close unless covered by a handler that still closes. (X5) close() of the transport facade reaches the TCP close on every normal path. "
    "(X6) The package's own structlog processors cannot raise on a lookup."
    ' (X6, extended) augmented assignment to a mapping element loads it; tuple-unpacking a split() result and int()/float() of event content outside a try can raise.'
    ' (X7) every call_later / call_at in the server protocols is invoked on asyncio.get_running_loop() obtained in the same function, not on a cached loop. X3 finds the timer registration also in helpers of connection_made.'
)


def _arm_nodes(g):
    return nodes_calling(g, lambda c: method_call(c) is not None and method_call(c)[1] in ("call_later", "call_at"))


def rule_x1(chk: Check) -> None:
    chk.rule("X1", "every accepting protocol arms a deadline in connection_made; the manual-TLS wrapper's deadline callback closes while the handshake is incomplete")
    classes = [chk.proj.cls(SERVER_PROTO)] + _manual_tls_classes(chk)
    chk.floor("X1", "accepting protocol classes", len(classes), 2)
    manual = {c.key for c in _manual_tls_classes(chk)}
    for ci in classes:
        cm = ci.methods.get("connection_made")
        if cm is None:
            chk.finding("X1", ci.key, "no-connection_made", "accepting protocol without connection_made")
            chk.ob("X1", f"{ci.key}: deadline armed", False)
            continue
        g = Builder(chk.proj, inline_self_methods, 3).build(cm)
        arms = _arm_nodes(g)
        blocked = {a.id for a in arms}
        par = g.reach([g.entry.id], blocked_nodes=blocked, follow=normal_only)
        ok = bool(arms) and g.exit.id not in par
        if not ok:
            what = (
                "the PyOpenSSL wrapper performs the TLS handshake itself (its listener has no ssl=, so asyncio's handshake timeout does not apply) "
                "but arms no deadline: a peer that connects and stays silent before or during the handshake is held open for ever"
                if ci.key in manual else
                "a path through connection_made arms no request deadline: a silent peer is never disconnected"
            )
            chk.finding("X1", cm.key, "no-deadline", what, cm.loc(), g.fmt_path(g.path_to(par, g.exit.id)) if g.exit.id in par else [])
        chk.ob("X1", f"{cm.key}: deadline armed on every path", ok, f"{len(arms)} call_later sites", evals=2)
        if ci.key in manual and arms:
            # the callback must close while the handshake is incomplete
            okcb = True
            for a in arms:
                call = next(c for c in calls(a.ast) if method_call(c) and method_call(c)[1] in ("call_later", "call_at"))
                cbs = [dotted(x) for x in call.args[1:2]]
                cb = cbs[0][5:] if cbs and cbs[0] and cbs[0].startswith("self.") else None
                fi = ci.methods.get(cb) if cb else None
                if fi is None:
                    okcb = False
                    chk.finding("X1", cm.key, f"deadline-callback:{norm(call)[:50]}", "the handshake deadline's callback is not a method of the wrapper", a.where())
                    continue
                g2 = Builder(chk.proj, inline_self_methods, 3).build(fi)
                closes = {n.id for n in nodes_calling(g2, lambda c: method_call(c) is not None and (dotted(method_call(c)[0]) or "").endswith("transport") and method_call(c)[1] in ("close", "abort"))}
                init = BoolFacts({"self.handshake_complete": False, "self.transport": True}, {"self.transport": False})
                bad = None
                n_paths = 0
                for path, _st in walk_paths(g2, g2.entry.id, init, boolfacts_step, follow=normal_only):
                    if path[-1][0].kind != "exit":
                        continue
                    n_paths += 1
                    if not any(n.id in closes for n, _ in path):
                        bad = path
                if bad is not None or not closes or n_paths == 0:
                    okcb = False
                    chk.finding("X1", fi.key, "deadline-does-not-close", "the handshake deadline callback can return without closing the transport although the handshake is incomplete", fi.loc(), g2.fmt_path(bad) if bad else [])
            chk.ob("X1", f"{ci.key}: handshake deadline closes an unfinished handshake", okcb, evals=3)


def rule_x2(chk: Check) -> None:
    chk.rule("X2", "timer disarmed at every dispatch/consultation; never an open, unanswered connection with no pending callback and no armed timer (machine)")
    mach = machine_findings(chk, "X2", {"timer-at-dispatch", "orphan"}, "deadline discipline over all activation sequences")
    machine_floor(chk, "X2", mach, cancel=1)


def rule_x3(chk: Check) -> None:
    chk.rule("X3", "the request-timer callback writes a literal `40 ...` header and closes")
    ci = chk.proj.cls(SERVER_PROTO)
    cm = ci.methods["connection_made"] if "connection_made" in ci.methods else None
    cb = None
    if cm is not None:
        # connection_made and the helper methods it calls (the arming may be extracted)
        scope, todo = [], [cm]
        while todo:
            f = todo.pop()
            if f in scope or len(scope) > 12:
                continue
            scope.append(f)
            for c in calls(f.node):
                d0 = dotted(c.func) or ""
                if d0.startswith("self.") and d0.count(".") == 1 and d0[5:] in ci.methods:
                    todo.append(ci.methods[d0[5:]])
        for c in [c_ for f in scope for c_ in calls(f.node)]:
            mc = method_call(c)
            if mc and mc[1] in ("call_later", "call_at") and len(c.args) >= 2:
                d = dotted(c.args[1]) or ""
                if d.startswith("self."):
                    cb = ci.methods.get(d[5:])
    if cb is None:
        chk.require("X3", ci.key, "request-timer callback registered with call_later", 0, 1, "no timer callback is registered in connection_made, so no 40 reply can ever be sent to a stalled peer")
        return
    g = build_cfg(chk.proj, cb)
    defs = Defs(g)
    interp = Interp(chk.proj, cb)
    ws = nodes_calling(g, lambda c: method_call(c) is not None and dotted(method_call(c)[0]) == "self.transport" and method_call(c)[1] == "write")
    ok = chk.require("X3", cb.key, "timeout reply write", len(ws), 1, "the request-timer callback writes no reply: a stalled peer gets no 40 response")
    for w in ws:
        call = next(c for c in calls(w.ast) if method_call(c) and method_call(c)[1] == "write")
        arg = call.args[0]
        vals = []
        for dn, le in origins(defs, w, arg if not (isinstance(arg, ast.Call) and method_call(arg) and method_call(arg)[1] == "encode") else method_call(arg)[0]):
            vals.append(interp.eval(le, {}))
        good = bool(vals) and all(isinstance(v, StrV) and isinstance(v.exact, str) and v.exact.startswith("40 ") for v in vals)
        if not good:
            ok = False
            chk.finding("X3", cb.key, f"timeout-status:{norm(arg)[:40]}", "the timeout reply is not a literal status-40 header", w.where())
    chk.ob("X3", f"{cb.key}: replies 40", ok, evals=len(ws))
    # X3b: nothing that can raise on peer-controlled bytes runs before the close
    from ..cfg import ExcLattice, handler_types
    from .c13 import _raise_set

    gi = Builder(chk.proj, inline_self_methods, 3).build(cb)
    lat = ExcLattice(chk.proj)
    closes = {n.id for n in nodes_calling(gi, lambda c: method_call(c) is not None and method_call(c)[1] in ("close", "abort") and "transport" in (dotted(method_call(c)[0]) or ""))}
    before = gi.reach([gi.entry.id], blocked_nodes=closes)
    n_cat = 0
    for n in gi.nodes:
        if n.ast is None or n.kind not in ("stmt", "test") or n.id not in before or n.id in closes:
            continue
        for c in calls(n.ast):
            rs = _raise_set(c)
            if not rs:
                continue
            n_cat += 1
            hs = [gi.nodes[b] for b, lab in gi.succ[n.id] if lab == "exc" and gi.nodes[b].kind == "handler"]
            missing = {r for r in rs if not any(lat.is_sub(r, t, n.func.module) is True for h in hs for t in handler_types(h.ast))}
            unclosed = [h for h in hs if gi.exit.id in gi.reach([h.id], blocked_nodes=closes)]
            good = not missing and not unclosed
            if not good:
                chk.finding(
                    "X3", cb.key, f"raise-before-close:{norm(c)[:40]}",
                    f"`{norm(c)}` runs in the timer callback before the connection is closed and can raise {sorted(missing) or sorted(rs)} on bytes the silent peer chose (e.g. a partial request that is not valid UTF-8): the exception leaves the callback, nothing is written or closed, and no timer remains armed",
                    n.where(),
                )
            chk.ob("X3", f"{cb.key}: `{norm(c)[:40]}` before close cannot escape", good)
    chk.ob("X3", f"{cb.key}: value-dependent raising calls before the close are contained", True, f"{n_cat} catalogue calls (strict decode / int) before close", evals=len(before))


def rule_x4(chk: Check) -> None:
    chk.rule("X4", "every call_later delay in the server package resolves to a positive finite numeric constant")
    n = 0
    for fi in chk.proj.functions.values():
        if not fi.module.name.startswith("server"):
            continue
        for c in calls(fi.node):
            mc = method_call(c)
            if mc and mc[1] == "call_later" and c.args:
                n += 1
                v = chk.proj.eval_const(fi.module, c.args[0])
                ok = isinstance(v, (int, float)) and not isinstance(v, bool) and 0 < v < 86400
                if not ok:
                    chk.finding("X4", fi.key, f"delay:{norm(c.args[0])}", f"timer delay `{norm(c.args[0])}` does not resolve to a positive finite constant (got {v!r})", fi.loc(c))
                chk.ob("X4", f"{fi.key}: call_later({norm(c.args[0])}) = {v!r}", ok)
    chk.floor("X4", "call_later sites", n, 1)


def rule_x5(chk: Check) -> None:
    chk.rule("X5", "close() of every transport facade the protocol is given reaches the close of the TCP transport on every normal path (disconnecting must not depend on the peer's cooperation)")
    from .common import TLS_WRAPPER

    n = 0
    for ci in [chk.proj.cls(TLS_WRAPPER)]:
        cl = ci.methods.get("close")
        if cl is None:
            chk.require("X5", ci.key, "close()", 0, 1, "the transport wrapper has no close(): the inner protocol cannot disconnect a peer")
            continue
        g = Builder(chk.proj, inline_self_methods, 2).build(cl)
        from .common import absent_edges, alias_map, canon_dotted

        am = alias_map(cl.node)
        tcp = nodes_calling(g, lambda c: method_call(c) is not None and method_call(c)[1] in ("close", "abort") and canon_dotted(method_call(c)[0], am).endswith(".transport"))
        n += len(tcp)
        if not chk.require("X5", cl.key, "TCP close site", len(tcp), 1, "close() never closes the TCP transport: a silent peer stays connected after the timeout reply"):
            continue
        # leaving without the TCP close is acceptable only when there is no transport any more
        blocked_e = absent_edges(g, lambda d: d.endswith(".transport"), am)
        par = g.reach([g.entry.id], blocked_nodes={x.id for x in tcp}, blocked_edges=blocked_e, follow=normal_only)
        ok = g.exit.id not in par
        if not ok:
            chk.finding(
                "X5", cl.key, "close-may-not-close",
                "close() can return without closing the TCP transport although it exists: after the timeout reply (or any response) the connection stays open until the peer chooses to close it, so a silent peer holds its slot for ever",
                cl.loc(), g.fmt_path(g.path_to(par, g.exit.id)),
            )
        chk.ob("X5", f"{cl.key}: every normal path closes the TCP transport", ok, evals=len(par))


def rule_x6(chk: Check) -> None:
    """The timeout paths log before they write and close; an exception from the
    logging pipeline would end the one-shot timer callback with nothing sent and
    nothing closed.  structlog itself is trusted; the package's own processors
    must be total: no mapping lookup that can raise KeyError."""
    chk.rule("X6", "the package's own structlog processors cannot raise on a lookup: every subscript load in them has a constant key guarded by an `in` test, or is replaced by .get()")
    mi = chk.proj.module("utils.logging")
    # functions referenced by name inside configure_logging's processor lists
    procs = set()
    for fi in mi.functions.values():
        if not any((dotted(c.func) or "").endswith("structlog.configure") or (dotted(c.func) or "") == "structlog.configure" for c in calls(fi.node)):
            continue
        for x in ast.walk(fi.node):
            if isinstance(x, ast.List):
                procs |= {e.id for e in x.elts if isinstance(e, ast.Name) and e.id in mi.functions}
            if isinstance(x, ast.Call) and method_call(x) and method_call(x)[1] in ("append", "insert", "extend"):
                procs |= {a.id for a in x.args if isinstance(a, ast.Name) and a.id in mi.functions}
    n = 0
    for name in sorted(procs):
        fi = mi.functions[name]
        g = build_cfg(chk.proj, fi)
        for node in g.nodes:
            if node.ast is None or node.kind not in ("stmt", "test"):
                continue
            # tuple-unpacking the result of split(): ValueError unless the number of parts is fixed
            if isinstance(node.ast, ast.Assign) and isinstance(node.ast.targets[0], (ast.Tuple, ast.List)) and isinstance(node.ast.value, ast.Call) and method_call(node.ast.value) and method_call(node.ast.value)[1] in ("split", "rsplit"):
                n += 1
                chk.finding(
                    "X6", fi.key, f"processor-may-raise:{norm(node.ast)[:50]}",
                    f"the log processor unpacks `{norm(node.ast.value)}` into {len(node.ast.targets[0].elts)} names: ValueError when the text splits into another number of parts (use partition). Log calls sit before the response is written and before the connection is closed, so the exception ends those callbacks with nothing sent / a completed operation reported as failed",
                    node.where(),
                )
                chk.ob("X6", f"{fi.key}: `{norm(node.ast)[:50]}` cannot raise", False)
            # int() / float() of event content
            for c in calls(node.ast):
                if dotted(c.func) in ("int", "float") and c.args and not isinstance(c.args[0], ast.Constant):
                    inside_try = any(isinstance(t, ast.Try) and any(c is y for b in t.body for y in ast.walk(b)) and any(h.type is None or (dotted(h.type) or "") in ("Exception", "ValueError", "BaseException") or (isinstance(h.type, ast.Tuple) and any((dotted(e) or "") in ("Exception", "ValueError") for e in h.type.elts)) for h in t.handlers) for t in ast.walk(fi.node))
                    n += 1
                    if not inside_try:
                        chk.finding("X6", fi.key, f"processor-may-raise:{norm(c)[:50]}", f"the log processor evaluates `{norm(c)}` on event content outside a try: ValueError for text that is not a number", node.where())
                    chk.ob("X6", f"{fi.key}: `{norm(c)[:50]}` cannot raise", inside_try)
            subs = [sub for sub in walk(node.ast) if isinstance(sub, ast.Subscript) and isinstance(sub.ctx, ast.Load)]
            # `d[k] += 1` loads d[k] although its context is Store
            if isinstance(node.ast, ast.AugAssign) and isinstance(node.ast.target, ast.Subscript):
                subs.append(node.ast.target)
            for sub in subs:
                if isinstance(sub.slice, ast.Slice):
                    continue
                if isinstance(sub.value, ast.Name) and sub.value.id in ("dict", "list", "tuple", "set"):
                    continue
                n += 1
                ok = False
                if isinstance(sub.slice, ast.Constant) and isinstance(sub.slice.value, str) and dotted(sub.value):
                    blocked = set()
                    for t in g.nodes:
                        if t.kind == "test" and isinstance(t.ast, ast.Compare) and len(t.ast.ops) == 1 and isinstance(t.ast.ops[0], (ast.In, ast.NotIn)) and isinstance(t.ast.left, ast.Constant) and t.ast.left.value == sub.slice.value and dotted(t.ast.comparators[0]) == dotted(sub.value):
                            sat = "T" if isinstance(t.ast.ops[0], ast.In) else "F"
                            blocked |= {(t.id, b, lab) for b, lab in g.succ[t.id] if lab == sat}
                    ok = node.id not in g.reach([g.entry.id], blocked_edges=blocked)
                if not ok:
                    chk.finding(
                        "X6", fi.key, f"processor-may-raise:{norm(sub)[:50]}",
                        f"the log processor evaluates `{norm(sub)}`, a lookup that raises KeyError for a key it does not hold (e.g. a level name missing from a table): the request-timeout and handshake-timeout callbacks log before they answer and close, so the exception ends them with the connection still open and nothing sent",
                        node.where(),
                    )
                chk.ob("X6", f"{fi.key}: `{norm(sub)[:50]}` cannot raise", ok)
    chk.ob("X6", "own log processors examined", True, f"{len(procs)} processors, {n} lookups", nontrivial=False)


def run(chk: Check) -> None:
    rule_x1(chk)
    rule_x2(chk)
    rule_x3(chk)
    rule_x4(chk)
    rule_x5(chk)
    rule_x6(chk)
    from .common import timers_on_running_loop

    timers_on_running_loop(chk, "X7")
    chk.trusted = ["CPython ast parser", "engine CFG / machine", "asyncio fires call_later callbacks on time and supervises the handshake of ssl= listeners (ssl_handshake_timeout default)"]
    chk.assumptions = ["an event loop is running whenever a protocol callback runs"]
