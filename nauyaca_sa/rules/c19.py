"""C19 - URL normalisation preserves meaning and is idempotent.

Idempotence and meaning preservation as functions over all URLs are
urllib.parse semantics on an infinite domain and are not decided.  Structural
necessary conditions:
  N1 IPv6 brackets survive: urlparse().hostname drops the brackets of an IP
     literal (library fact), so a netloc built from .hostname must re-bracket
     hosts that contain a colon (abstract evaluation with an IPv6 and a
     registered-name sample)
  N2 the normalised string and the ParsedURL fields are built from the same
     components: path / query / port / hostname in the urlunparse tuple are the
     values that populate the fields; the scheme is the literal gemini; the
     default port is elided exactly under `port != DEFAULT_PORT`; an empty path
     becomes "/"
  N3 the wire carries the normalised form: the client sends parsed.normalized;
     the server hands middleware request.normalized_url
Abstract evaluation checks idempotence on a small set of exact samples of the
urlparse result (the samples are inputs to the *abstract* evaluator; no
repository code runs).
"""

from __future__ import annotations

import ast

from ..astutil import calls, dotted, kwarg, method_call, norm, walk
from ..cfg import build_cfg
from ..flow import Defs, _Sel, origins
from ..paths import normal_only
from ..report import Check
from ..strdom import TOP, BoolV, Interp, IntV, NoneV, ObjV, StrV, TupleV, lit

EXPLANATION = (
    "Static necessary conditions of C19 on utils.url.parse_url (idempotence and meaning "
    "preservation over all URLs are urllib.parse semantics on an infinite domain and are not "
    "decided). (N1/N2) parse_url is interpreted abstractly with exact samples of the urlparse "
    "result - registered name, IPv4, IPv6 literal, with default / other / no port, empty path, "
    "query - and the tuple handed to urlunparse must be (gemini, authority, path, params, query, "
    "fragment) with the authority re-bracketed for hosts containing ':', the port elided "
    "exactly when it is the default, '/' substituted for an empty path; the ParsedURL fields "
    "must equal the same components. (N3) GeminiClient._get_single constructs the protocol with "
    "parsed.normalized and the server consults middleware with request.normalized_url, which "
    "returns parsed_url.normalized. "
    "(N4) upload() exchanges only the scheme prefix of the caller's URL (no unbounded str.replace on the wire URL). "
    "(N5) the request line sent (parsed.normalized) has itself passed validate_url. "
    "(N6) on the server the text given to <Request>.from_line derives from the read buffer only by cutting at the terminator and decoding: no trimming / case-folding / replacing call lies on its definition chain (helpers inlined)."
    ' (N7) on the definition chain from response.redirect_url to the URL handed to the next fetch there is no quoting / unquoting / replacing / case-folding call.'
)


def rule_n1_n2(chk: Check) -> None:
    chk.rule("N1", "the authority of the normalised URL re-brackets IPv6 literals")
    chk.rule("N2", "urlunparse tuple and ParsedURL fields are built from the same components; default port elided; empty path -> '/'")
    fi = chk.proj.func("utils.url:parse_url")
    g = build_cfg(chk.proj, fi)
    res_name = None
    for st in walk(fi.node):
        if isinstance(st, ast.Assign) and isinstance(st.value, ast.Call) and (dotted(st.value.func) or "").split(".")[-1] in ("urlparse", "urlsplit"):
            res_name = dotted(st.targets[0])
    if res_name is None:
        chk.floor("N1", "urlparse result binding", 0, 1)
    P = res_name
    un = [n for n in g.nodes if n.ast is not None and n.kind == "stmt" and any((dotted(c.func) or "").split(".")[-1] == "urlunparse" for c in calls(n.ast))]
    ctor = [n for n in g.nodes if n.ast is not None and n.kind == "stmt" and any((dotted(c.func) or "").split(".")[-1] == "ParsedURL" for c in calls(n.ast))]
    if not chk.require("N2", fi.key, "urlunparse call", len(un), 1, "the normalised form is no longer assembled with urlunparse"):
        return
    ucall = next(c for c in calls(un[0].ast) if (dotted(c.func) or "").split(".")[-1] == "urlunparse")
    tup = ucall.args[0] if ucall.args and isinstance(ucall.args[0], ast.Tuple) else None
    if tup is None or len(tup.elts) != 6:
        chk.finding("N2", fi.key, "urlunparse-shape", "urlunparse is not given a literal 6-tuple", un[0].where())
        return
    pcall = next((c for n in ctor for c in calls(n.ast) if (dotted(c.func) or "").split(".")[-1] == "ParsedURL"), None)
    samples = [
        # name, hostname, port (None = absent), path, query -> expected authority, path
        ("registered name, no port", "example.org", None, "/a", "", "example.org", "/a"),
        ("registered name, default port", "example.org", 1965, "", "", "example.org", "/"),
        ("registered name, other port", "example.org", 1966, "/a/b", "q=1", "example.org:1966", "/a/b"),
        ("IPv4", "192.0.2.7", None, "/", "", "192.0.2.7", "/"),
        ("IPv6 literal, no port", "::1", None, "/x", "", "[::1]", "/x"),
        ("IPv6 literal, other port", "2001:db8::1", 1966, "/a", "b", "[2001:db8::1]:1966", "/a"),
        ("IPv6 literal, default port", "::1", 1965, "", "", "[::1]", "/"),
        # escaped reserved characters are data, not delimiters: they stay escaped
        ("escaped slash in path, escaped ampersand in query", "example.org", None, "/files/a%2Fb", "q=salt%26pepper&x=1", "example.org", "/files/a%2Fb"),
        ("escaped percent and equals", "example.org", None, "/100%25/x%3Dy", "k=%3D%2B", "example.org", "/100%25/x%3Dy"),
        # the path is relayed as sent: dot segments, doubled slashes and a trailing slash are
        # part of what the caller asked for (handlers and access rules resolve them themselves)
        ("dot segments and doubled slashes", "example.org", None, "/a/../b//c/./d/", "x=1", "example.org", "/a/../b//c/./d/"),
        ("sub-delimiters and gen-delims in the path", "example.org", None, "/report;v=2/a:b@c,d+e/index.gmi", "k=v;w&z=1+1", "example.org", "/report;v=2/a:b@c,d+e/index.gmi"),
        ("dot segments behind an escaped slash", "example.org", 1966, "/pub%2Fx/../secret.gmi", "", "example.org:1966", "/pub%2Fx/../secret.gmi"),
    ]
    # urlparse().hostname is lower-cased and unbracketed, .netloc is as written
    netloc_as_written = {"mixed-case host (lower-cased by urlparse().hostname)": "ExAmple.ORG:1966"}
    samples.append(("mixed-case host (lower-cased by urlparse().hostname)", "example.org", 1966, "/Docs/A", "", "example.org:1966", "/Docs/A"))
    for name, host, port, path, query, want_auth, want_path in samples:
        interp = Interp(chk.proj, fi)
        interp.oracle = {
            f"{P}.scheme": lit("gemini"), f"{P}.hostname": lit(host), f"{P}.username": NoneV(), f"{P}.password": NoneV(),
            f"{P}.fragment": lit(""), f"{P}.port": IntV(port, port) if port is not None else NoneV(),
            f"{P}.path": lit(path), f"{P}.query": lit(query), f"{P}.params": lit(""),
            f"{P}.netloc": lit(netloc_as_written.get(name) or ((f"[{host}]" if ":" in host else host) + (f":{port}" if port is not None else ""))),
        }
        watch_exprs = list(tup.elts)
        fields = {}
        if pcall is not None:
            for k in pcall.keywords:
                if k.arg in ("hostname", "port", "path", "query"):
                    fields[k.arg] = k.value
        res = interp.run_paths(
            g,
            lambda n, _u=un[0], _c=ctor: (watch_exprs if n.id == _u.id else ([fields[k] for k in sorted(fields)] if _c and n.id == _c[0].id else [])),
            {fi.params[0]: lit("gemini://x/")},
        )
        got_auth, got_path, got_q, got_scheme = set(), set(), set(), set()
        fvals = set()
        for p, (st, recs) in res:
            if p[-1][0].kind != "exit":
                continue
            for node, vals, _ in recs:
                if node.id == un[0].id:
                    def ex(v):
                        if isinstance(v, StrV) and v.exact is not None:
                            return v.exact
                        return repr(v)
                    got_scheme.add(ex(vals[0])); got_auth.add(ex(vals[1])); got_path.add(ex(vals[2])); got_q.add(ex(vals[4]))
                elif ctor and node.id == ctor[0].id:
                    d = dict(zip(sorted(fields), vals))
                    fvals.add(tuple((k, (v.exact if isinstance(v, StrV) else (v.lo if isinstance(v, IntV) else repr(v)))) for k, v in d.items()))
        rule = "N1" if ":" in host else "N2"
        ok = got_auth == {want_auth} and got_path == {want_path} and got_q == {query} and got_scheme == {"gemini"}
        if not ok:
            if got_auth != {want_auth}:
                why = f"the authority of the normalised URL is {sorted(got_auth)} instead of {want_auth!r}"
                if ":" in host:
                    why += ": without brackets the colons of the address are read as a port separator and the normalised URL (the request line the client sends) is rejected by the parser itself"
            else:
                why = f"normalised components scheme={sorted(got_scheme)} path={sorted(got_path)} query={sorted(got_q)}; expected gemini, {want_path!r}, {query!r}"
            chk.finding(rule, fi.key, f"normalised:{name}", f"for a URL with {name}: {why}", un[0].where())
        chk.ob(rule, f"{name} -> authority {want_auth!r}, path {want_path!r}", ok, f"got authority {sorted(got_auth)}", evals=max(1, len(res)))
        # fields agree with the same components
        exp_fields = (("hostname", host), ("path", want_path), ("port", port if port is not None else 1965), ("query", query))
        okf = fvals == {exp_fields}
        if not okf:
            chk.finding("N2", fi.key, f"fields:{name}", f"ParsedURL fields for {name} are {sorted(map(str, fvals))}, expected {exp_fields}: the normalised string and the fields no longer denote the same URL", ctor[0].where() if ctor else fi.loc())
        chk.ob("N2", f"{name}: fields = components", okf)
    # normalized field is the urlunparse result
    okn = False
    if pcall is not None:
        v = kwarg(pcall, "normalized")
        d = Defs(g)
        if v is not None and ctor:
            ls = origins(d, ctor[0], v) if isinstance(v, ast.Name) else [(ctor[0], v)]
            okn = all(isinstance(le, ast.Call) and (dotted(le.func) or "").split(".")[-1] == "urlunparse" for _, le in ls)
    if not okn:
        chk.finding("N2", fi.key, "normalized-field", "ParsedURL.normalized is not the urlunparse result", fi.loc())
    chk.ob("N2", "ParsedURL.normalized = urlunparse(...)", okn)


def rule_n3(chk: Check) -> None:
    chk.rule("N3", "the client puts parsed.normalized on the wire; the server hands middleware request.normalized_url (= parsed_url.normalized)")
    gs = chk.proj.func("client.session:GeminiClient._get_single")
    ok = False
    for c in calls(gs.node):
        if (dotted(c.func) or "").split(".")[-1] == "GeminiClientProtocol" and c.args:
            a = c.args[0]
            ok = isinstance(a, ast.Attribute) and a.attr == "normalized"
            if ok:
                g = build_cfg(chk.proj, gs)
                d = Defs(g)
                node = next(x for x in g.nodes if x.ast is not None and any(cc is c for cc in calls(x.ast)))
                ok = all(isinstance(le, ast.Call) and (dotted(le.func) or "").endswith("parse_url") and le.args and dotted(le.args[0]) == gs.params[1] for _, le in origins(d, node, a.value))
    if not ok:
        chk.finding("N3", gs.key, "wire-form", "the request line sent is not the normalised form of the URL the caller asked for", gs.loc())
    chk.ob("N3", f"{gs.key}: request line = parse_url(url).normalized", ok)
    nu = chk.proj.cls("protocol.request:GeminiRequest").methods.get("normalized_url")
    ok2 = nu is not None and any(isinstance(r, ast.Return) and dotted(r.value) == "self.parsed_url.normalized" for r in walk(nu.node))
    if not ok2:
        chk.finding("N3", "protocol.request:GeminiRequest.normalized_url", "normalized-url-property", "GeminiRequest.normalized_url is not parsed_url.normalized", nu.loc() if nu else "")
    chk.ob("N3", "GeminiRequest.normalized_url = parsed_url.normalized", ok2)
    fl = chk.proj.func("protocol.request:GeminiRequest.from_line")
    ok3 = any(isinstance(st, ast.Assign) and isinstance(st.value, ast.Call) and (dotted(st.value.func) or "").endswith("parse_url") and st.value.args and dotted(st.value.args[0]) == fl.params[1] for st in walk(fl.node))
    ok3 = ok3 and any((dotted(c.func) or "") == "cls" and dotted(kwarg(c, "raw_url")) == fl.params[1] for c in calls(fl.node))
    if not ok3:
        chk.finding("N3", fl.key, "request-components", "the server-side request is not built from parse_url(line) with the raw line kept", fl.loc())
    chk.ob("N3", "server request = parse_url(line)", ok3)
    nm = chk.proj.func("utils.url:normalize_url")
    ok4 = any(isinstance(r, ast.Return) and isinstance(r.value, ast.Attribute) and r.value.attr == "normalized" for r in walk(nm.node))
    chk.ob("N3", "normalize_url returns parse_url(url).normalized", ok4, nontrivial=False)
    if not ok4:
        chk.finding("N3", nm.key, "normalize-url", "normalize_url does not return parse_url(url).normalized", nm.loc())


def rule_n4(chk: Check) -> None:
    """Uploads: the Titan request line is the caller's URL with only the scheme
    prefix exchanged.  `str.replace("gemini://", "titan://")` rewrites every
    occurrence, also one inside the path or query."""
    chk.rule("N4", "upload(): the URL put on the wire derives from the caller's URL by exchanging the scheme prefix only (slice / concatenation), never by an unbounded str.replace")
    up = chk.proj.func("client.session:GeminiClient.upload")
    g = build_cfg(chk.proj, up)
    d = Defs(g)
    ctor = None
    for n in g.nodes:
        if n.ast is None or n.kind != "stmt":
            continue
        for c in calls(n.ast):
            if (dotted(c.func) or "").split(".")[-1] == "TitanClientProtocol" and c.args:
                ctor = (n, c)
    if not chk.require("N4", up.key, "Titan protocol construction", 1 if ctor else 0, 1, "upload() no longer builds the Titan client protocol with the request URL"):
        return
    node, call = ctor
    seen, todo, bad = set(), [(node, call.args[0])], []
    while todo:
        at, e = todo.pop()
        for x in walk(e):
            if isinstance(x, ast.Call) and method_call(x) and method_call(x)[1] == "replace" and len(x.args) == 2 and isinstance(x.args[0], ast.Constant) and "://" in str(x.args[0].value):
                bad.append((at, x))
            if isinstance(x, ast.Name) and (at.id, x.id) not in seen:
                seen.add((at.id, x.id))
                for dn, val, sel in d.at(at, x.id):
                    if val is not None:
                        todo.append((dn, val.value if isinstance(val, ast.AugAssign) else val))
    ok = not bad
    for at, x in bad:
        chk.finding("N4", up.key, f"scheme-replace:{norm(x)[:50]}", f"the upload request line is built with `{norm(x)}`, which rewrites every occurrence of the scheme text: a URL whose path or query embeds another gemini:// URL is sent with that text altered, so the server parses a different path / query than the caller asked for", at.where())
    chk.ob("N4", f"{up.key}: scheme exchanged by prefix only", ok, evals=len(seen) + 1)


def rule_n5(chk: Check) -> None:
    """The size limit is applied to what goes on the wire.  Normalisation can
    lengthen a URL (an empty path becomes "/"), so checking only the caller's
    spelling lets the client send a request line the server must refuse."""
    chk.rule("N5", "the string the client sends as the request line (parsed.normalized) has itself passed the size check: validate_url(<that string>) dominates the protocol construction")
    gs = chk.proj.func("client.session:GeminiClient._get_single")
    g = build_cfg(chk.proj, gs)
    ctor = None
    for n in g.nodes:
        if n.ast is None or n.kind not in ("stmt", "with"):
            continue
        for c in calls(n.ast if not isinstance(n.ast, ast.withitem) else n.ast.context_expr):
            if (dotted(c.func) or "").split(".")[-1] == "GeminiClientProtocol" and c.args:
                ctor = (n, c)
    if not chk.require("N5", gs.key, "client protocol construction", 1 if ctor else 0, 1, "the fetch no longer builds the client protocol with the request line"):
        return
    node, call = ctor
    wire = norm(call.args[0])
    checks = {x.id for x in g.nodes if x.ast is not None and x.kind == "stmt" and any((dotted(c.func) or "").split(".")[-1] == "validate_url" and c.args and norm(c.args[0]) == wire for c in calls(x.ast))}
    par = g.reach([g.entry.id], blocked_nodes=checks, follow=normal_only)
    ok = bool(checks) and node.id not in par
    if not ok:
        chk.finding(
            "N5", gs.key, f"wire-not-size-checked:{wire}",
            f"the request line sent is `{wire}`, but only the caller's spelling of the URL is size-checked: normalisation can add a byte (an empty path becomes '/'), so a URL of exactly the maximum length that the library accepts is sent as a request line one byte too long and the server answers 59",
            node.where(),
        )
    chk.ob("N5", f"{gs.key}: `{wire}` is size-checked before it is sent", ok)


ALTERING = {
    "strip", "rstrip", "lstrip", "lower", "upper", "casefold", "replace", "translate", "removeprefix", "removesuffix",
    "expandtabs", "title", "capitalize", "swapcase", "normalize", "unquote", "quote", "unquote_plus", "quote_plus", "sub",
}


def received_line_fidelity(chk: Check, R: str, consequence: str) -> None:
    """Server side of the wire: the text handed to the request parser is the
    received line - the bytes before the terminator, decoded - and nothing else.
    Trimming or case-folding it between the split and the parser changes the
    path / query the client asked for (a query may end in a blank)."""
    from ..cfg import Builder, inline_self_methods

    chk.rule(R, "the server parses the received request line itself: between the read buffer and <Request>.from_line the line is only cut at the terminator and decoded, never trimmed, case-folded or otherwise rewritten")
    ci = chk.proj.cls("server.protocol:GeminiServerProtocol")
    dr = ci.methods.get("data_received")
    if dr is None:
        chk.floor(R, "data_received", 0, 1)
    g = Builder(chk.proj, inline_self_methods, 4).build(dr)
    d = Defs(g)
    sites = []
    for n in g.nodes:
        if n.ast is None or n.kind not in ("stmt", "test"):
            continue
        for c in calls(n.ast):
            if method_call(c) and method_call(c)[1] == "from_line" and (dotted(method_call(c)[0]) or "").endswith("Request") and c.args:
                sites.append((n, c))
    chk.require(R, dr.key, "request parser calls reached from data_received", len(sites), 1, "the received line is never parsed")
    for node, call in sites:
        seen, todo, bad = set(), [(node, call.args[0])], []
        while todo:
            at, e = todo.pop()
            for x in walk(e):
                if isinstance(x, ast.Call):
                    nm = method_call(x)[1] if method_call(x) else (dotted(x.func) or "").split(".")[-1]
                    if nm in ALTERING:
                        bad.append((at, x))
                if isinstance(x, ast.Name) and (at.id, x.id) not in seen:
                    seen.add((at.id, x.id))
                    for dn, val, _sel in d.at(at, x.id):
                        if val is not None:
                            if _sel == "param" and dn.stack:
                                dn = g.nodes[dn.stack[-1]]
                            todo.append((dn, val.value if isinstance(val, ast.AugAssign) else val))
        ok = not bad
        for at, x in bad[:1]:
            chk.finding(
                R, (node.func or dr).key, f"line-rewritten:{norm(x)[:50]}",
                f"the line parsed by `{norm(call.func)}` passes through `{norm(x)[:70]}` after it was cut from the read buffer: the parser no longer sees the bytes the client sent (e.g. a query that ends in a blank loses it), so {consequence}",
                at.where(),
            )
        chk.ob(R, f"{(node.func or dr).key}: `{norm(call)[:50]}` receives the received line unaltered", ok, evals=len(seen) + 1)


def wire_fidelity(chk: Check, rule: str, what: str) -> None:
    """N1-N3 reported under another property's rule id: the URL a component is
    handed (middleware, upstream, TOFU key) has the components the caller asked
    for."""
    before, nob = len(chk.findings), len(chk.obligations)
    rule_n1_n2(chk)
    rule_n3(chk)
    for f in chk.findings[before:]:
        f.rule = rule
    for o in chk.obligations[nob:]:
        o["rule"] = f"{chk.prop}.{rule}"
    for r in ("N1", "N2", "N3"):
        chk.rules.pop(r, None)
    chk.rules[rule] = what


def run(chk: Check) -> None:
    rule_n1_n2(chk)
    rule_n3(chk)
    rule_n4(chk)
    rule_n5(chk)
    received_line_fidelity(chk, "N6", "the server parses other components than the client put on the wire")
    from .common import redirect_target_fidelity

    redirect_target_fidelity(chk, "N7")
    chk.trusted = ["CPython ast parser", "engine abstract evaluator", "urllib.parse: .hostname is lower-cased and unbracketed, urlunparse joins the six components"]
    chk.assumptions = ["idempotence / meaning preservation over all URLs is not decided; only the listed component samples are evaluated abstractly"]
