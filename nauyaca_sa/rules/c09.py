"""C09 - IP access control decides exactly as configured.

  I1 decision structure of AccessControl._is_allowed: unparsable -> deny;
     deny list consulted completely before anything can admit; with an allow
     list admission only through a member hit, exhaustion denies; without one
     the default policy decides
  I2 configuration never drops a restrictive policy: get_access_control_config
     may return None (= no middleware, everybody admitted) only when access
     control is disabled or no entry is configured and the default is allow
  I3 a list entry that cannot be parsed leaves the constructor as an exception
     and the constructor runs before the listener is created
  I4 wiring: serve() -> start_server -> AccessControl; refusal is status 53 and
     is returned exactly when _is_allowed is false
  I5 key fidelity: TOML keys -> ServerConfig fields -> AccessControlConfig
Not decided: ipaddress containment arithmetic, IPv4-mapped / scoped addresses.
"""

from __future__ import annotations

import ast
import itertools

from ..astutil import calls, dotted, is_none, kwarg, method_call, norm, walk
from ..cfg import build_cfg
from ..flow import Defs, _Sel, origins
from ..paths import normal_only
from ..report import Check
from ..strdom import TOP, BoolV, Interp, NoneV, ObjV, SetV, StrV, TupleV, lit

EXPLANATION = (
    "Static necessary conditions of C09. (I1) On the CFG of AccessControl._is_allowed: the "
    "failure edge of ip_address() reaches only `return False`; no admitting return is "
    "reachable without exhausting the loop over the deny networks, whose member hit returns "
    "False; `return True` is reachable only through a member hit in the loop over the allow "
    "networks under a truthy allow list, whose exhaustion returns False; the default policy is "
    "returned only when there is no allow list. (I2) get_access_control_config is interpreted "
    "abstractly over enabled x allow-list x deny-list x default_allow (36 combinations): None "
    "is permitted only for disabled, or no entries and default allow. (I3) in the constructor "
    "no exception handler leads to the next entry without an append, and start_server builds "
    "AccessControl before create_server outside any try. (I4/I5) wiring and key fidelity by "
    "def-use. ipaddress arithmetic is trusted. "
    "(I6) = C04.M3: the chain sees the transport's own peer address, unaltered."
    ' (I7) carrier rule: no method of ServerConfig stores into access_control_* anything but the field itself or a type conversion of it (in-place mutators count). (I8) AccessControlConfig defines no __len__/__bool__ while start_server tests it for truthiness; I3 knows the `is None` / `is not None` forms.'
)

MW = "server.middleware"


def _ret_const(n) -> object:
    v = n.ast.value
    if isinstance(v, ast.Constant):
        return v.value
    return ("expr", norm(v))


def _inside(node: ast.AST, container: ast.AST) -> bool:
    return any(sub is node for sub in ast.walk(container))


def _bool_returns_as_branches(fi):
    """`return <boolean expression>` -> `if <expr>: return True` / `return False`
    (same truthiness), so that `return any(ip in n for n in nets)` exposes its
    hit / miss outcomes as CFG edges.  Plain names, attribute chains and
    constants are left alone."""
    import copy
    from ..loader import FunctionInfo

    node = copy.deepcopy(fi.node)

    class T(ast.NodeTransformer):
        def visit_FunctionDef(self, n):  # noqa: N802
            if n is not node:
                return n
            self.generic_visit(n)
            return n

        def visit_Return(self, r):  # noqa: N802
            v = r.value
            if v is None or isinstance(v, ast.Constant) or dotted(v) is not None:
                return r
            if isinstance(v, (ast.BoolOp, ast.Compare, ast.Call)) or (isinstance(v, ast.UnaryOp) and isinstance(v.op, ast.Not)):
                t = ast.If(test=v, body=[ast.Return(value=ast.Constant(value=True))], orelse=[])
                f = ast.Return(value=ast.Constant(value=False))
                for x in (t, f):
                    ast.copy_location(x, r)
                    ast.fix_missing_locations(x)
                return [t, f]
            return r

    node = T().visit(node)
    ast.fix_missing_locations(node)
    return FunctionInfo(fi.module, fi.qualname, node, fi.cls)


def _member_sites(g, word: str):
    """Hit and miss edges of "is the address in some network of the <word>
    collection": for-loops over it with an inner `x in <loopvar>` test, and
    `any(x in n for n in <collection>)` tests."""
    hit, miss, sites = set(), set(), []
    defs = Defs(g)

    def about(node, expr) -> bool:
        if word in norm(expr):
            return True
        if isinstance(expr, ast.Name):
            return any(not isinstance(le, _Sel) and word in norm(le) for _, le in origins(defs, node, expr))
        return False

    for n in g.nodes:
        if n.kind == "for" and about(n, n.ast.iter):
            var = dotted(n.ast.target)
            sites.append(n)
            for b, lab in g.succ[n.id]:
                if lab == "F":
                    miss.add((n.id, b, lab))
            for t in g.nodes:
                if t.kind == "test" and isinstance(t.ast, ast.Compare) and isinstance(t.ast.ops[0], ast.In) and dotted(t.ast.comparators[0]) == var and _inside(t.ast, n.ast):
                    for b, lab in g.succ[t.id]:
                        if lab == "T":
                            hit.add((t.id, b, lab))
        if n.kind == "test" and isinstance(n.ast, ast.Call) and dotted(n.ast.func) == "any" and n.ast.args and isinstance(n.ast.args[0], ast.GeneratorExp):
            ge = n.ast.args[0]
            gen = ge.generators[0]
            if about(n, gen.iter) and isinstance(ge.elt, ast.Compare) and isinstance(ge.elt.ops[0], ast.In) and dotted(ge.elt.comparators[0]) == dotted(gen.target) and not gen.ifs:
                sites.append(n)
                for b, lab in g.succ[n.id]:
                    (hit if lab == "T" else miss).add((n.id, b, lab))
    return hit, miss, sites


def rule_i1(chk: Check) -> None:
    chk.rule("I1", "_is_allowed: unparsable -> False; deny membership decided (and negative) before any admission; True only via allow-member hit; allow miss denies; default only without allow list, asked of the whole configured list")
    fi0 = chk.proj.func(f"{MW}:AccessControl._is_allowed")
    fi = _bool_returns_as_branches(fi0)
    g = build_cfg(chk.proj, fi)
    rets = [n for n in g.nodes if n.kind == "stmt" and isinstance(n.ast, ast.Return)]
    parse = [n for n in g.nodes if n.ast is not None and n.kind == "stmt" and any((dotted(c.func) or "").split(".")[-1] == "ip_address" for c in calls(n.ast))]
    dhit, dmiss, dsites = _member_sites(g, "deny")
    ahit, amiss, asites = _member_sites(g, "allow")
    okp = chk.require("I1", fi.key, "ip_address parse", len(parse), 1, "the peer address is not parsed with ipaddress.ip_address: textual comparison cannot decide CIDR membership")
    okd = chk.require("I1", fi.key, "membership test over the deny networks", len(dsites), 1, "the deny list is not consulted")
    oka = chk.require("I1", fi.key, "membership test over the allow networks", len(asites), 1, "the allow list is not consulted")
    if not (okp and okd and oka):
        return
    admitting = [r for r in rets if _ret_const(r) is not False]
    # R1 unparsable -> deny
    hs = [b for b, lab in g.succ[parse[0].id] if lab == "exc" and g.nodes[b].kind == "handler"]
    ok = bool(hs)
    if hs:
        par = g.reach(hs)
        bad = [r for r in admitting if r.id in par]
        ok = not bad and g.exit.id in par
        if bad:
            chk.finding("I1", fi.key, "unparsable-admitted", "an address that cannot be parsed can be admitted", bad[0].where())
    else:
        chk.finding("I1", fi.key, "unparsable-unhandled", "a parse failure of the peer address is not turned into a refusal", parse[0].where())
    chk.ob("I1", "unparsable address -> deny", ok)
    # R2 deny first and complete
    par = g.reach([g.entry.id], blocked_edges=dmiss, follow=normal_only)
    bad = [r for r in admitting if r.id in par]
    ok2 = not bad
    if bad:
        chk.finding("I1", fi.key, "admit-before-deny-list", f"`{norm(bad[0].ast)}` is reachable without the address having been found outside every deny entry: deny does not take precedence", bad[0].where(), g.fmt_path(g.path_to(par, bad[0].id)))
    ok2b = bool(dhit)
    for (a, b, lab) in dhit:
        p2 = g.reach([b], follow=normal_only)
        if any(r.id in p2 for r in admitting) or any(s_.id in p2 for s_ in dsites if s_.kind == "for"):
            ok2b = False
            chk.finding("I1", fi.key, "deny-hit-not-refused", "an address inside a deny entry is not refused immediately", g.nodes[a].where())
    chk.ob("I1", "deny membership negative before any admission", ok2)
    chk.ob("I1", "deny member hit -> False", ok2b)
    # R3 allow list
    true_rets = [r for r in rets if _ret_const(r) is True]
    par = g.reach([g.entry.id], blocked_edges=ahit, follow=normal_only)
    bad = [r for r in true_rets if r.id in par]
    ok3 = bool(ahit) and bool(true_rets) and not bad
    if not ok3:
        chk.finding("I1", fi.key, "admit-without-allow-hit", "`return True` is reachable without a member hit in the allow list (or no such hit admits)", (bad or rets)[0].where())
    ok3b = True
    for (a, b, lab) in amiss:
        p3 = g.reach([b], follow=normal_only)
        bad = [r for r in admitting if r.id in p3]
        if bad:
            ok3b = False
            chk.finding("I1", fi.key, "allow-miss-admitted", "with an allow list configured, an address in none of its entries can still be admitted", bad[0].where())
    chk.ob("I1", "True only via allow-member hit", ok3)
    chk.ob("I1", "allow miss -> False", ok3b)
    # R4 default only without allow list
    dflt = [r for r in rets if isinstance(_ret_const(r), tuple)]
    okdf = bool(dflt) and all("default_allow" in norm(r.ast.value) and not isinstance(r.ast.value, ast.UnaryOp) for r in dflt)
    d = Defs(g)
    tests = []
    for n in g.nodes:
        if n.kind == "test" and dotted(n.ast):
            ls = origins(d, n, n.ast)
            if dotted(n.ast).endswith("allow_networks") or any(not isinstance(le, _Sel) and "allow" in norm(le) and "default" not in norm(le) for _, le in ls):
                tests.append(n)
    if tests and dflt:
        blocked = {(t.id, b, lab) for t in tests for b, lab in g.succ[t.id] if lab == "F"}
        par = g.reach([g.entry.id], blocked_edges=blocked, follow=normal_only)
        if any(r.id in par for r in dflt):
            okdf = False
    else:
        okdf = False
    if not okdf:
        chk.finding("I1", fi.key, "default-policy", "the default policy is not returned exactly when no allow list is configured (or is negated)", fi.loc())
    chk.ob("I1", "default policy decides only without an allow list", okdf)
    # "is an allow list configured" must be asked of the WHOLE configured list:
    # the attribute the constructor fills from config.allow_list (or the
    # configured list itself) - not a subset derived per request
    ci = fi.cls
    full = set()
    init = ci.methods.get("__init__") if ci is not None else None
    if init is not None:
        for l in [x for x in walk(init.node) if isinstance(x, ast.For) and "allow_list" in norm(x.iter)]:
            for c in calls(ast.Module(body=l.body, type_ignores=[])):
                mc = method_call(c)
                if mc and mc[1] in ("append", "add") and (dotted(mc[0]) or "").startswith("self."):
                    full.add(dotted(mc[0]))
        for st in walk(init.node):
            if isinstance(st, (ast.Assign, ast.AnnAssign)) and st.value is not None and "allow_list" in norm(st.value):
                tg = st.targets if isinstance(st, ast.Assign) else [st.target]
                for t in tg:
                    if (dotted(t) or "").startswith("self."):
                        full.add(dotted(t))
        # filled by a helper: self._add(self.allow_networks, self.config.allow_list)
        for c in calls(init.node):
            argv = list(c.args) + [k.value for k in c.keywords]
            if any("allow_list" in norm(a) for a in argv):
                for a in argv:
                    if (dotted(a) or "").startswith("self.") and "allow_list" not in norm(a):
                        full.add(dotted(a))
    full |= {"self.config.allow_list"}
    okw = bool(tests)
    for t in tests:
        for _dn, le in origins(d, t, t.ast):
            src = dotted(le) if not isinstance(le, _Sel) else None
            if src not in full:
                okw = False
                chk.finding(
                    "I1", fi.key, f"allow-list-presence:{norm(le)[:50] if not isinstance(le, _Sel) else repr(le)}",
                    f"whether an allow list is configured is decided on `{norm(le) if not isinstance(le, _Sel) else repr(le)}`, a value derived per request, not on the whole configured allow list ({sorted(full)}): when the derived subset is empty (e.g. no entry of the peer's address family) the request falls through to the default policy although an allow list exists and does not contain the address",
                    t.where(),
                )
    chk.ob("I1", "allow-list presence is tested on the whole configured list", okw)


def rule_i2(chk: Check) -> None:
    chk.rule("I2", "get_access_control_config returns None only if disabled, or no entries and default_allow")
    fi = chk.proj.func("server.config:ServerConfig.get_access_control_config")
    g = build_cfg(chk.proj, fi)
    lists = {"none": NoneV(), "empty": SetV(frozenset()), "one": SetV(frozenset({"10.0.0.0/8"}))}
    rows = 0
    for enabled, (an, av), (dn, dv), default in itertools.product((True, False), lists.items(), lists.items(), (True, False)):
        rows += 1
        interp = Interp(chk.proj, fi)
        interp.oracle = {
            "self.enable_access_control": BoolV(enabled), "self.access_control_allow_list": av,
            "self.access_control_deny_list": dv, "self.access_control_default_allow": BoolV(default),
        }
        interp.call_oracle = lambda c: ObjV("config") if (dotted(c.func) or "").split(".")[-1] == "AccessControlConfig" else None
        res = interp.run_paths(g, lambda n: [n.ast.value] if n.kind == "stmt" and isinstance(n.ast, ast.Return) and n.ast.value is not None else [], {})
        got = set()
        for path, (st, recs) in res:
            if path[-1][0].kind != "exit":
                continue
            rv = [vals[0] for node, vals, _ in recs if isinstance(node.ast, ast.Return)]
            got.add("none" if (rv and isinstance(rv[-1], NoneV)) or not rv else "config")
        entries = an == "one" or dn == "one"
        none_ok = (not enabled) or (not entries and default)
        ok = got == {"config"} or (got == {"none"} and none_ok)
        inst = f"enabled={enabled}, allow_list={an}, deny_list={dn}, default_allow={default}"
        if not ok:
            chk.finding(
                "I2", fi.key, f"policy-dropped:{inst}",
                f"with {inst} the configuration yields {sorted(got)}: no access-control middleware is installed and every address is admitted although the written policy does not admit everybody",
                fi.loc(),
            )
        chk.ob("I2", inst, ok, f"returns {sorted(got)}", evals=max(1, len(res)))
    chk.sample({"rule": "I2", "rows": rows})


def rule_i3(chk: Check) -> None:
    chk.rule("I3", "an unparsable list entry propagates out of AccessControl.__init__ (no handler skips an entry); the constructor runs before create_server, outside any try")
    from ..cfg import Builder, inline_local

    fi = chk.proj.func(f"{MW}:AccessControl.__init__")
    g = Builder(chk.proj, inline_local, 3).build(fi)
    heads = [n for n in g.nodes if n.kind == "for"]
    chk.require("I3", fi.key, "loops over the configured lists", len(heads), 2, "the allow/deny lists are not both parsed in the constructor")
    appends = {n.id for n in g.nodes if n.ast is not None and n.kind == "stmt" and any(method_call(c) and method_call(c)[1] in ("append", "add", "extend") for c in calls(n.ast))}
    ok = True
    for h in [n for n in g.nodes if n.kind == "handler"]:
        par = g.reach([h.id], blocked_nodes=appends, follow=normal_only)
        if any(hd.id in par for hd in heads) or g.exit.id in par:
            ok = False
            chk.finding("I3", fi.key, f"entry-skipped:{norm(h.ast.type) if h.ast.type else 'bare'}", "an exception handler lets the constructor go on to the next entry (or finish) without having stored the failing entry: an unparsable entry silently weakens the policy instead of stopping start-up", h.where())
    # every parse call chain ends with an attempt that is not inside a handler-protected region
    parse = [n for n in g.nodes if n.ast is not None and n.kind == "stmt" and any((dotted(c.func) or "").split(".")[-1] in ("ip_network", "ip_address", "ip_interface") for c in calls(n.ast))]
    escaping = [n for n in parse if any(lab == "exc" and g.nodes[b].kind == "raise_exit" for b, lab in g.succ[n.id])]
    if len(escaping) < len(heads):
        ok = False
        chk.finding("I3", fi.key, "parse-failure-contained", "for at least one list no parse attempt lets its ValueError leave the constructor", fi.loc())
    chk.ob("I3", f"{fi.key}: bad entry propagates", ok, f"{len(parse)} parse sites, {len(escaping)} escaping", evals=len(parse) + 1)
    ss = chk.proj.func("server.server:start_server")
    g2 = build_cfg(chk.proj, ss)
    ctor = [n for n in g2.nodes if n.ast is not None and n.kind == "stmt" and any((dotted(c.func) or "").split(".")[-1] == "AccessControl" for c in calls(n.ast))]
    srv = [n for n in g2.nodes if n.ast is not None and any(method_call(c) and method_call(c)[1] == "create_server" for c in calls(n.ast))]
    ok2 = chk.require("I3", ss.key, "AccessControl construction", len(ctor), 1, "start_server never constructs the AccessControl middleware")
    if ok2:
        c = ctor[0]
        in_try = any(lab == "exc" and g2.nodes[b].kind == "handler" for b, lab in g2.succ[c.id])
        # `if cfg:` / `if cfg is not None:` / `if cfg is None:` - the edge that means "no configuration given"
        tests, blocked = [], set()
        for n in g2.nodes:
            if n.kind != "test" or n.ast is None:
                continue
            a, absent = n.ast, "F"
            while isinstance(a, ast.UnaryOp) and isinstance(a.op, ast.Not):
                a, absent = a.operand, ("T" if absent == "F" else "F")
            if isinstance(a, ast.Compare) and len(a.ops) == 1 and isinstance(a.comparators[0], ast.Constant) and a.comparators[0].value is None and dotted(a.left) == "access_control_config":
                if isinstance(a.ops[0], ast.Is):
                    absent = "T" if absent == "F" else "F"
                elif not isinstance(a.ops[0], ast.IsNot):
                    continue
            elif dotted(a) != "access_control_config":
                continue
            tests.append(n)
            blocked |= {(n.id, b, lab) for b, lab in g2.succ[n.id] if lab == absent}
        par = g2.reach([g2.entry.id], blocked_nodes={c.id}, blocked_edges=blocked, follow=normal_only)
        late = any(s.id in par for s in srv)
        ok2 = not in_try and not late and bool(tests)
        if in_try:
            chk.finding("I3", ss.key, "ctor-in-try", "AccessControl is constructed inside a try block: a configuration error can be swallowed and the server starts without the policy", c.where())
        if late or not tests:
            chk.finding("I3", ss.key, "listener-before-policy", "with an access-control configuration given, create_server is reachable without AccessControl having been constructed", c.where())
    chk.ob("I3", "start_server: AccessControl built before the listener, not in a try", ok2)


def rule_i4_i5(chk: Check) -> None:
    chk.rule("I4", "serve() passes config.get_access_control_config(); the middleware refuses with 53 exactly when _is_allowed is false")
    chk.rule("I5", "TOML keys enabled/allow_list/deny_list/default_allow -> like-named ServerConfig fields -> like-named AccessControlConfig keywords")
    main = chk.proj.module("__main__")
    okw = False
    for fi2 in main.functions.values():
        for c in calls(fi2.node):
            if (dotted(c.func) or "").split(".")[-1] == "start_server":
                v = kwarg(c, "access_control_config")
                if v is not None:
                    g3 = build_cfg(chk.proj, fi2)
                    d3 = Defs(g3)
                    node = next(x for x in g3.nodes if x.ast is not None and any(cc is c for cc in calls(x.ast)))
                    ls = origins(d3, node, v) if isinstance(v, ast.Name) else [(node, v)]
                    okw = all(isinstance(le, ast.Call) and (dotted(le.func) or "").endswith("get_access_control_config") for _, le in ls)
    if not okw:
        chk.finding("I4", "__main__:serve", "cli-wiring", "serve() does not pass config.get_access_control_config() to start_server", main.relpath)
    chk.ob("I4", "serve(): get_access_control_config() -> start_server", okw)
    pr = chk.proj.func(f"{MW}:AccessControl.process_request")
    g = build_cfg(chk.proj, pr)
    ipp = [p for p in pr.params if "ip" in p]
    for allowed in (True, False):
        interp = Interp(chk.proj, pr)
        interp.call_oracle = lambda c, _a=allowed: BoolV(_a) if (dotted(c.func) or "") == "self._is_allowed" and c.args and ipp and dotted(c.args[0]) == ipp[0] else None
        res = interp.run_paths(g, lambda n: list(n.ast.value.elts) if n.kind == "stmt" and isinstance(n.ast, ast.Return) and isinstance(n.ast.value, ast.Tuple) else [], {})
        got = set()
        for path, (st, recs) in res:
            if path[-1][0].kind != "exit":
                continue
            r = [vals for node, vals, _ in recs if isinstance(node.ast, ast.Return)]
            if not r:
                got.add(("?", None))
                continue
            v = r[-1]
            status = int(v[1].exact[:2]) if isinstance(v[1], StrV) and isinstance(v[1].exact, str) and v[1].exact[:2].isdigit() else None
            got.add((v[0].value if isinstance(v[0], BoolV) else "?", status))
        want = {(True, None)} if allowed else {(False, 53)}
        ok = got == want
        if not ok:
            chk.finding("I4", pr.key, f"verdict:{'allowed' if allowed else 'denied'}", f"when _is_allowed(client_ip) is {allowed} the middleware returns {sorted(map(str, got))} instead of {sorted(map(str, want))}", pr.loc())
        chk.ob("I4", f"_is_allowed={allowed} -> {sorted(map(str, want))}", ok, evals=max(1, len(res)))
    # I5
    gc = chk.proj.func("server.config:ServerConfig.get_access_control_config")
    pairs = {"allow_list": "self.access_control_allow_list", "deny_list": "self.access_control_deny_list", "default_allow": "self.access_control_default_allow"}
    found = 0
    for c in calls(gc.node):
        if (dotted(c.func) or "").split(".")[-1] == "AccessControlConfig":
            found += 1
            for kw, attr in pairs.items():
                v = kwarg(c, kw)
                ok = v is not None and dotted(v) == attr
                if not ok:
                    chk.finding("I5", gc.key, f"field-crossed:{kw}", f"AccessControlConfig.{kw} is fed from `{norm(v) if v is not None else 'nothing'}` instead of {attr}", gc.loc(c))
                chk.ob("I5", f"AccessControlConfig.{kw} <- {attr}", ok)
    chk.require("I5", gc.key, "AccessControlConfig construction", found, 1, "the access-control settings are never turned into an AccessControlConfig")
    ft = chk.proj.func("server.config:ServerConfig.from_toml")
    want = {"enable_access_control": "enabled", "access_control_allow_list": "allow_list", "access_control_deny_list": "deny_list", "access_control_default_allow": "default_allow"}
    g2 = build_cfg(chk.proj, ft)
    d2 = Defs(g2)
    for c in calls(ft.node):
        if dotted(c.func) != "cls":
            continue
        node = next(x for x in g2.nodes if x.ast is not None and any(cc is c for cc in calls(x.ast)))
        for field, key in want.items():
            v = kwarg(c, field)
            ok = isinstance(v, ast.Call) and method_call(v) and method_call(v)[1] == "get" and v.args and isinstance(v.args[0], ast.Constant) and v.args[0].value == key
            if ok:
                sect = origins(d2, node, method_call(v)[0])
                ok = all(isinstance(le, ast.Call) and le.args and isinstance(le.args[0], ast.Constant) and le.args[0].value == "access_control" for _, le in sect)
            if ok and len(v.args) > 1 and key in ("allow_list", "deny_list"):
                ok = False
            if not ok:
                chk.finding("I5", ft.key, f"toml-key:{field}", f"ServerConfig.{field} is not read from [access_control].{key}", ft.loc(c))
            chk.ob("I5", f"[access_control].{key} -> {field}", ok)


def run(chk: Check) -> None:
    rule_i1(chk)
    rule_i2(chk)
    rule_i3(chk)
    rule_i4_i5(chk)
    # I6: the address the policy judges is the transport's peer address, unaltered (= C04.M3)
    from ..machine import server_machine
    from .c04 import rule_m3
    from .common import reuse

    reuse(chk, rule_m3, "I6", "the chain is consulted with the transport's own peer address (peer_name <- transport.get_extra_info('peername'), passed on unaltered, also through the PyOpenSSL wrapper) (= C04.M3)", ("M3",), server_machine(chk.proj))
    from .common import config_fields_carrier, config_presence_tests

    config_fields_carrier(chk, "I7", ("access_control_",), "allow / deny lists and default policy", "an entry that cannot be interpreted no longer prevents start-up, and a list emptied by dropping such entries means 'no allow list': the default policy admits every address")
    config_presence_tests(chk, "I8", ("AccessControlConfig",))
    chk.trusted = ["CPython ast parser", "engine CFG / abstract evaluator", "ipaddress: ip_address/ip_network parsing and `in` containment"]
    chk.assumptions = ["an empty list and an absent list both mean 'no entries' (AccessControl treats them alike)"]
