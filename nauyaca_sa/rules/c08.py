"""C08 - Only protocol-valid requests reach handlers; valid ones are not refused.

  V1 validation dominates dispatch: every path from data_received to a handler,
     upload handler or middleware consultation passes the line-length test, the
     UTF-8 decode and the request parser on their success edges; their failure
     edges cannot reach a dispatch
  V2 the validators contain their obligations: parse_url rejects empty input,
     missing/other scheme, missing host, user-info and fragments (abstract
     evaluation with violating / conforming samples) and reads the port; the
     Titan parser rejects a missing prefix, missing parameters, missing,
     non-integer or negative size
  V3 reject exits use status 59; any titan:// line gets 50 when uploads are not
     enabled, decided before parsing
  V4 one limit: all length comparisons use the single constant 1024 and reject
     exactly lines longer than 1022 bytes + CRLF (never a line that fits)
Not decided: that every grammatical request is accepted intact (urllib.parse
semantics over an infinite input set), except what C19 covers.
"""

from __future__ import annotations

import ast

from ..astutil import calls, dotted, method_call, norm, walk
from ..cfg import Builder, build_cfg, inline_self_methods
from ..paths import normal_only
from ..report import Check
from ..strdom import Interp, IntV, NoneV, StrV, lit
from .common import SERVER_PROTO, nodes_calling

EXPLANATION = (
    "Static necessary conditions of C08. (V1) On the inlined CFG of the server's "
    "data_received, every dispatch / consultation node is unreachable once the success "
    "edges of the length test, the UTF-8 decode and the request parser are removed, and is "
    "unreachable from their failure edges. (V2) parse_url is interpreted abstractly with "
    "violating samples (empty URL, no scheme, other scheme, no host, user name, password, "
    "fragment): every feasible path must end in raise ValueError, and with a conforming "
    "sample a path returns; the port property is read before the return; the Titan parser's "
    "five guards exist with the rejecting polarity and dominate its return. (V3) Reject exits "
    "carry StatusCode.BAD_REQUEST = 59; the uploads-disabled exit carries 50 and precedes "
    "parsing. (V4) The three length comparisons resolve to the single literal 1024 and to "
    "the threshold `line > 1022 bytes`. Acceptance of every grammatical URL is not decided. "
    "(V5) The request line is located independently of read boundaries (the C07.S3 rule set on the server's data_received). "
    "(V6) the PyOpenSSL pump hands every decrypted record to the protocol and keeps reading until the engine is empty (C07.S4)."
    " (V4, measured value) each length comparison measures the function's own input (parameter / read buffer), not a form derived from it. (V7) = C01.W10. (V8) = C19.N6: the text given to from_line is the received line, only cut and decoded. (V1) also understands a decode helper that signals failure by returning None. (V2) samples include TAB/CR/LF, leading blanks / control characters, empty user-info and empty fragment; the Titan size must pass an ASCII-digit test before int()."
)


def _dispatch_nodes(g) -> set[int]:
    out = set()
    for n in g.nodes:
        if n.ast is None or n.kind not in ("stmt", "test"):
            continue
        for c in calls(n.ast):
            d = dotted(c.func) or ""
            mc = method_call(c)
            if d == "self.request_handler" or (mc and dotted(mc[0]) in ("self.upload_handler", "self.middleware")):
                out.add(n.id)
    return out


def _strict_utf8_decode(c: ast.Call) -> bool:
    mc = method_call(c)
    if not mc or mc[1] != "decode":
        return False
    errs = None
    for k in c.keywords:
        if k.arg == "errors":
            errs = k.value
    if len(c.args) > 1:
        errs = c.args[1]
    if errs is not None and not (isinstance(errs, ast.Constant) and errs.value == "strict"):
        return False
    enc = c.args[0] if c.args else next((k.value for k in c.keywords if k.arg == "encoding"), None)
    return enc is None or (isinstance(enc, ast.Constant) and str(enc.value).lower().replace("_", "-") in ("utf-8", "utf8"))


def rule_v1(chk: Check) -> None:
    chk.rule("V1", "length test, UTF-8 decode and request parser dominate every dispatch/consultation; their failure edges cannot reach one")
    ci = chk.proj.cls(SERVER_PROTO)
    dr = ci.methods["data_received"] if "data_received" in ci.methods else chk.proj.func(SERVER_PROTO + ".data_received")
    g = Builder(chk.proj, inline_self_methods, 6).build(dr)
    disp = _dispatch_nodes(g)
    chk.floor("V1", "dispatch/consultation nodes", len(disp), 3)

    parsers = [n for n in g.nodes if n.ast is not None and n.kind == "stmt" and any(method_call(c) and method_call(c)[1] == "from_line" for c in calls(n.ast))]
    from .c07 import _is_buffer_line

    def _line_decode(n):
        # a strict UTF-8 decode of the buffered request line, in data_received itself or in a
        # helper it was extracted to
        for c in calls(n.ast):
            if _strict_utf8_decode(c):
                recv = method_call(c)[0]
                if not n.stack or (isinstance(recv, ast.Name) and _is_buffer_line(recv.id, n.func.node)):
                    return True
                if n.stack and isinstance(recv, ast.Name) and recv.id in n.func.params:
                    # helper parameter bound to (a copy of) the buffered line at the call site
                    from ..flow import _bindings

                    enter = g.nodes[n.stack[-1]]
                    arg = _bindings(enter).get(recv.id)
                    if arg is not None and any(isinstance(x, ast.Name) and _is_buffer_line(x.id, enter.func.node) for x in walk(arg)):
                        return True
        return False

    def _none_on_failure(n):
        """For a decode inside an inlined helper whose failure path returns None
        (instead of raising): the edges of the caller's tests on the helper's
        result that mean 'a value was returned'.  They cannot be taken after
        the failure edge of the decode."""
        if not n.stack:
            return set()
        exc_starts = [b for b, lab in g.succ[n.id] if lab in ("exc", "raise")]
        if not exc_starts:
            return set()
        seen_, todo_ = set(exc_starts), list(exc_starts)
        rets = []
        while todo_:
            a = todo_.pop()
            an = g.nodes[a]
            if an.stack[: len(n.stack)] != n.stack:
                continue  # left the helper's activation
            if an.kind == "stmt" and isinstance(an.ast, ast.Return) and an.stack == n.stack:
                rets.append(an)
                continue
            if an.kind in ("exit", "raise_exit", "call_return") and an.stack == n.stack[:-1]:
                continue
            for b, lab in g.succ[a]:
                if b not in seen_:
                    seen_.add(b)
                    todo_.append(b)
        if not rets or not all(r.ast.value is None or (isinstance(r.ast.value, ast.Constant) and r.ast.value.value is None) for r in rets):
            return set()
        enter = g.nodes[n.stack[-1]]
        call = enter.ast
        var = None
        for st in walk(enter.func.node):
            if isinstance(st, ast.Assign) and len(st.targets) == 1 and isinstance(st.targets[0], ast.Name):
                v = st.value
                while isinstance(v, ast.Await):
                    v = v.value
                if v is call:
                    var = st.targets[0].id
        if var is None:
            return set()
        out = set()
        for t in g.nodes:
            if t.kind != "test" or t.stack != enter.stack or t.ast is None:
                continue
            e, value_label = t.ast, None
            if isinstance(e, ast.Compare) and len(e.ops) == 1 and dotted(e.left) == var and isinstance(e.comparators[0], ast.Constant) and e.comparators[0].value is None:
                value_label = "F" if isinstance(e.ops[0], ast.Is) else ("T" if isinstance(e.ops[0], ast.IsNot) else None)
            elif isinstance(e, ast.UnaryOp) and isinstance(e.op, ast.Not) and dotted(e.operand) == var:
                value_label = "F"
            elif dotted(e) == var:
                value_label = "T"
            if value_label:
                out |= {(t.id, b, lab) for b, lab in g.succ[t.id] if lab == value_label}
        return out

    decodes = [n for n in g.nodes if n.ast is not None and n.kind == "stmt" and _line_decode(n)]
    lentests = [n for n in g.nodes if n.kind == "test" and n.ast is not None and any(isinstance(x, ast.Name) and x.id == "MAX_REQUEST_SIZE" for x in walk(n.ast)) and "url_line" in norm(n.ast)]
    chk.require("V1", dr.key, "request parser call sites", len(parsers), 2, "a request line reaches dispatch without going through GeminiRequest/TitanRequest.from_line")
    chk.require("V1", dr.key, "strict UTF-8 decode of the request line", len(decodes), 1, "the request line is not decoded strictly as UTF-8 before use")
    chk.require("V1", dr.key, "line-length test against MAX_REQUEST_SIZE", len(lentests), 1, "the complete request line is not compared with the 1024-byte limit before use")

    def must_pass(name, nodes, pass_labels):
        # removing the success edges of these nodes must cut every path to a dispatch
        blocked_edges = set()
        for n in nodes:
            for b, lab in g.succ[n.id]:
                if lab in pass_labels:
                    blocked_edges.add((n.id, b, lab))
        # latches that are only ever set behind this validation carry it into
        # later activations (Titan content arrives in further reads): a truthy
        # test of such a latch counts as having passed the validation
        # failure signalled by a None result: after the failure edge of such a validator
        # the caller's "a value was returned" edges are infeasible (two-state reachability)
        after_fail = set()
        for n in nodes:
            after_fail |= _none_on_failure(n)
        fail_nodes = {n.id for n in nodes}

        def reach2(blocked):
            if not after_fail:
                return g.reach([g.entry.id], blocked_edges=blocked)
            par_, dq = {g.entry.id: None}, [(g.entry.id, False)]
            seen2 = {(g.entry.id, False)}
            while dq:
                a, failed = dq.pop()
                for b, lab in g.succ[a]:
                    if (a, b, lab) in blocked or (failed and (a, b, lab) in after_fail):
                        continue
                    f2 = failed or (a in fail_nodes and lab in ("exc", "raise"))
                    if (b, f2) not in seen2:
                        seen2.add((b, f2))
                        par_.setdefault(b, (a, lab))
                        dq.append((b, f2))
            return par_

        par0 = reach2(blocked_edges)
        set_sites: dict[str, list] = {}
        for n in g.nodes:
            if n.kind == "stmt" and isinstance(n.ast, (ast.Assign, ast.AnnAssign)):
                tg = n.ast.targets if isinstance(n.ast, ast.Assign) else [n.ast.target]
                val = n.ast.value
                for t in tg:
                    d = dotted(t) or ""
                    if d.startswith("self.") and d.count(".") == 1 and val is not None:
                        falsy = isinstance(val, ast.Constant) and not val.value
                        if not falsy:
                            set_sites.setdefault(d, []).append(n)
        validated = set()
        for d, sites in set_sites.items():
            # set only where the validation has been passed (the site itself may be the validator)
            if all((s.id not in par0) or (s in nodes) for s in sites):
                # and nowhere else in the class outside this graph
                others = [
                    st for m in ci.methods.values() if m.node.name not in ("__init__",)
                    for st in walk(m.node)
                    if isinstance(st, (ast.Assign, ast.AnnAssign)) and any(dotted(t) == d for t in (st.targets if isinstance(st, ast.Assign) else [st.target]))
                    and not (isinstance(st.value, ast.Constant) and not st.value.value)
                ]
                in_graph = {id(s.ast) for s in sites}
                if all(id(o) in in_graph for o in others):
                    validated.add(d)
        for n in g.nodes:
            if n.kind == "test" and dotted(n.ast) in validated:
                for b, lab in g.succ[n.id]:
                    if lab == "T":
                        blocked_edges.add((n.id, b, lab))
        par = reach2(blocked_edges)
        hit = [d for d in disp if d in par]
        ok = not hit
        if not ok:
            tgt = g.nodes[hit[0]]
            chk.finding(
                "V1", dr.key, f"bypass-{name}@{tgt.func.node.name}:{tgt.text(40)}",
                f"`{tgt.text(70)}` is reachable without passing the {name} on its success edge: an unvalidated request line reaches a handler or the middleware",
                tgt.where(), g.fmt_path(g.path_to(par, hit[0])),
            )
        chk.ob("V1", f"{name} dominates dispatch", ok, f"{len(nodes)} sites; latches carrying it: {sorted(validated)}", evals=len(disp))

    must_pass("request parser", parsers, (None, "ret"))
    must_pass("UTF-8 decode", decodes, (None, "ret"))
    must_pass("line-length test", lentests, ("F",))


def rule_v2(chk: Check) -> None:
    chk.rule("V2", "parse_url raises ValueError for each violating sample on every feasible path and returns for a conforming one; reads the port; Titan parser guards present with rejecting polarity")
    fi = chk.proj.func("utils.url:parse_url")
    # guards extracted into helpers of the same module are part of the parser
    g = Builder(chk.proj, lambda caller, call, callee, depth: callee.module is fi.module and callee is not fi, 3).build(fi)
    param = fi.params[0]
    # name bound to the urlparse result
    res_name = None
    for st in walk(fi.node):
        if isinstance(st, ast.Assign) and isinstance(st.value, ast.Call) and (dotted(st.value.func) or "").split(".")[-1] in ("urlparse", "urlsplit"):
            res_name = dotted(st.targets[0])
    if res_name is None:
        chk.floor("V2", "urlparse result binding", 0, 1)
    P = res_name
    conform = {
        f"{P}.scheme": lit("gemini"), f"{P}.hostname": lit("example.org"), f"{P}.username": NoneV(), f"{P}.password": NoneV(),
        f"{P}.fragment": lit(""), f"{P}.netloc": lit("example.org"), f"{P}.port": NoneV(), f"{P}.path": lit("/"), f"{P}.query": lit(""), f"{P}.params": lit(""),
    }
    samples = {
        "empty URL": ({param: lit("")}, {}),
        "missing scheme": ({}, {f"{P}.scheme": lit("")}),
        "scheme http": ({}, {f"{P}.scheme": lit("http")}),
        "scheme titan": ({}, {f"{P}.scheme": lit("titan")}),
        "missing host": ({}, {f"{P}.hostname": NoneV(), f"{P}.netloc": lit("")}),
        "empty host": ({}, {f"{P}.hostname": lit(""), f"{P}.netloc": lit("")}),
        "user name": ({}, {f"{P}.username": lit("user"), f"{P}.netloc": lit("user@example.org")}),
        "password": ({}, {f"{P}.password": lit("secret"), f"{P}.netloc": lit(":secret@example.org")}),
        "fragment": ({}, {f"{P}.fragment": lit("frag")}),
        # urlsplit/urlparse delete TAB, CR and LF anywhere in the string (library fact): a line
        # with such a character is not a URL, and what would be parsed is not what was sent
        "a TAB inside the path (urlparse deletes it)": ({param: lit("gemini://example.org/a\tb")}, {f"{P}.path": lit("/ab")}),
        "a LF inside the query (urlparse deletes it)": ({param: lit("gemini://example.org/?x\ny")}, {f"{P}.query": lit("xy")}),
        "a lone CR inside the path (urlparse deletes it)": ({param: lit("gemini://example.org/a\rb")}, {f"{P}.path": lit("/ab")}),
        # urlsplit also strips leading C0 control characters and blanks (library fact)
        "a leading blank (urlparse strips it)": ({param: lit(" gemini://example.org/")}, {}),
        "a leading control character (urlparse strips it)": ({param: lit("\x01gemini://example.org/")}, {}),
        # an empty component is still that component: `@` delimits a user-info, `#` a fragment
        "an empty user-info (`gemini://@host/`)": ({param: lit("gemini://@example.org/")}, {f"{P}.username": lit(""), f"{P}.netloc": lit("@example.org")}),
        "an empty user-info with an empty password (`gemini://:@host/`)": ({param: lit("gemini://:@example.org/")}, {f"{P}.username": lit(""), f"{P}.password": lit(""), f"{P}.netloc": lit(":@example.org")}),
        "an empty fragment (trailing `#`)": ({param: lit("gemini://example.org/#")}, {f"{P}.fragment": lit("")}),
    }

    def outcomes(init, oracle):
        interp = Interp(chk.proj, fi)
        interp.oracle = dict(conform)
        interp.oracle.update(oracle)
        st0 = {param: lit("gemini://example.org/")}
        st0.update(init)
        res = interp.run_paths(g, lambda n: [], st0, follow=lambda lab: lab != "exc")
        ends = []
        for path, _ in res:
            last = path[-1][0]
            if last.kind == "exit":
                ends.append(("return", path))
            elif last.kind == "raise_exit":
                rn = next((x for x, _l in reversed(path[:-1]) if isinstance(x.ast, ast.Raise)), path[-2][0] if len(path) > 1 else last)
                ends.append(("raise:" + (norm(rn.ast.exc.func) if isinstance(rn.ast, ast.Raise) and isinstance(rn.ast.exc, ast.Call) else "?"), path))
        return ends

    for name, (init, oracle) in samples.items():
        ends = outcomes(init, oracle)
        bad = [p for k, p in ends if k != "raise:ValueError"]
        ok = bool(ends) and not bad
        if not ok:
            chk.finding("V2", fi.key, f"accepts:{name}", f"parse_url does not raise ValueError for a URL with {name}: such a request line would be accepted", fi.loc(), g.fmt_path(bad[0]) if bad else [])
        chk.ob("V2", f"parse_url rejects {name}", ok, f"{len(ends)} feasible paths", evals=max(1, len(ends)))
    ends = outcomes({}, {})
    okc = any(k == "return" for k, _ in ends)
    if not okc:
        chk.finding("V2", fi.key, "rejects-conforming", "parse_url cannot return for a plain conforming gemini URL (abstract sample)", fi.loc())
    chk.ob("V2", "parse_url returns for a conforming sample", okc, evals=max(1, len(ends)))
    # the port property (raises ValueError itself when out of range) is read before returning
    port_nodes = {n.id for n in g.nodes if n.ast is not None and any(isinstance(x, ast.Attribute) and x.attr == "port" and dotted(x.value) == P for x in walk(n.ast))}
    par = g.reach([g.entry.id], blocked_nodes=port_nodes, follow=normal_only)
    okp = bool(port_nodes) and g.exit.id not in par
    if not okp:
        chk.finding("V2", fi.key, "port-unread", "parse_url can return without reading the parsed port (an out-of-range or non-numeric port is not rejected)", fi.loc())
    chk.ob("V2", "parse_url reads the port on every returning path", okp)

    # Titan parser guards
    tf = chk.proj.func("protocol.request:TitanRequest.from_line")
    # helpers of the same module (e.g. an extracted size parser) are part of the parser
    g2 = Builder(chk.proj, lambda caller, call, callee, depth: callee.module is tf.module and callee.node.name != "from_line", 3).build(tf)
    line = [p for p in tf.params if p != "cls"][0]

    def guard(name, match, reject_label):
        tests = [n for n in g2.nodes if n.kind == "test" and n.ast is not None and match(n.ast)]
        ok = False
        for t in tests:
            succ = [b for b, lab in g2.succ[t.id] if lab == reject_label]
            if not succ:
                continue
            par = g2.reach(succ, follow=lambda lab: lab != "exc")
            rejects = g2.exit.id not in par and g2.raise_exit.id in par
            par2 = g2.reach([g2.entry.id], blocked_nodes={t.id}, follow=normal_only)
            dominates = g2.exit.id not in par2
            if rejects and dominates:
                ok = True
        if not ok:
            chk.finding("V2", tf.key, f"titan-guard:{name}", f"the Titan request parser has no dominating guard that rejects a line with {name}", tf.loc())
        chk.ob("V2", f"Titan parser rejects {name}", ok, f"{len(tests)} candidate tests", evals=max(1, len(tests)))

    guard("no titan:// prefix", lambda e: isinstance(e, ast.Call) and method_call(e) and method_call(e)[1] == "startswith" and dotted(method_call(e)[0]) == line and e.args and chk.proj.eval_const(tf.module, e.args[0]) == "titan://", "F")
    guard("no parameters", lambda e: isinstance(e, ast.Compare) and isinstance(e.ops[0], ast.NotIn) and isinstance(e.left, ast.Constant) and e.left.value == ";" and dotted(e.comparators[0]) == line, "T")
    guard("no size parameter", lambda e: isinstance(e, ast.Compare) and isinstance(e.ops[0], ast.NotIn) and isinstance(e.left, ast.Constant) and e.left.value == "size", "T")
    guard("negative size", lambda e: isinstance(e, ast.Compare) and isinstance(e.ops[0], ast.Lt) and isinstance(e.comparators[0], ast.Constant) and e.comparators[0].value == 0, "T")
    # integer size: int(...) whose ValueError edge leads to raise ValueError only
    ints = [n for n in g2.nodes if n.kind == "stmt" and n.ast is not None and any(dotted(c.func) == "int" for c in calls(n.ast))]
    oki = False
    for n in ints:
        hs = [b for b, lab in g2.succ[n.id] if lab == "exc"]
        if hs:
            par = g2.reach(hs, follow=lambda lab: lab != "exc")
            if g2.exit.id not in par:
                par2 = g2.reach([g2.entry.id], blocked_nodes={n.id}, follow=normal_only)
                if g2.exit.id not in par2:
                    oki = True
    if not oki:
        chk.finding("V2", tf.key, "titan-guard:integer-size", "the Titan request parser does not reject a non-integer size (int() failure must end in ValueError)", tf.loc())
    chk.ob("V2", "Titan parser rejects a non-integer size", oki)
    # int() alone is too lenient for "a well-formed size": it accepts '1_0', ' +5 ', '٥' ...
    # the text must first be tested to be ASCII digits (optionally signed: negatives are
    # refused with their own message)
    oks = False
    for n in ints:
        ic = next(c for c in calls(n.ast) if dotted(c.func) == "int")
        var = dotted(ic.args[0]) if ic.args else None
        if var is None:
            continue
        blocked = set()
        for t in g2.nodes:
            if t.kind != "test" or t.ast is None or t.stack != n.stack:
                continue
            a, flip = t.ast, False
            while isinstance(a, ast.UnaryOp) and isinstance(a.op, ast.Not):
                a, flip = a.operand, not flip
            txt = norm(a)
            strict = False
            if isinstance(a, ast.Call) and (dotted(a.func) or "").split(".")[-1] in ("fullmatch", "match") and var in txt and any(isinstance(x, ast.Constant) and isinstance(x.value, str) and "[0-9]" in x.value for x in walk(a)):
                strict = True
            if isinstance(a, ast.BoolOp) and isinstance(a.op, ast.And) and var in txt and ".isascii()" in txt and (".isdigit()" in txt or ".isdecimal()" in txt):
                strict = True
            if strict:
                lab = "F" if flip else "T"
                blocked |= {(t.id, b, l2) for b, l2 in g2.succ[t.id] if l2 == lab}
        if blocked and n.id not in g2.reach([g2.entry.id], blocked_edges=blocked):
            oks = True
    if not oks:
        chk.finding("V2", tf.key, "titan-guard:integer-size-strict", "the Titan size is handed to int() without first being tested to consist of ASCII digits: int() also accepts '1_0', ' +5 ', '+5' and non-ASCII digits such as '٥', so request lines whose size is not well-formed reach the upload handler", tf.loc())
    chk.ob("V2", "Titan size text is ASCII digits before int()", oks)
    # exact request-line samples through the whole parser (helpers inlined, parse_url's own
    # verdict left open): a fragment after the parameters, or a user-info in an authority the
    # first ';' cuts through, is never seen by the URL checks - the parser itself must refuse
    titan_samples = {
        "a fragment after the parameters (`...;size=5;mime=text/plain#frag`)": "titan://example.org/f;size=5;mime=text/plain#frag",
        "a user-info hidden by a `;` inside the authority (`titan://u;x@host/f;size=5`)": "titan://u;x@example.org/f;size=5",
        # only the part before the first ';' reaches parse_url's TAB/CR/LF guard
        "a bare LF inside a parameter (`...;size=5;mime=a<LF>b`)": "titan://example.org/f;size=5;mime=a\nb",
        "a TAB after the parameters (`...;size=5;mime=text/plain<TAB>`)": "titan://example.org/f;size=5;mime=text/plain\t",
        "a bare CR inside a parameter (`...;size=5;token=x<CR>y`)": "titan://example.org/f;size=5;token=x\ry",
    }
    for name, sample in titan_samples.items():
        interp = Interp(chk.proj, tf)
        res = interp.run_paths(g2, lambda n: [], {line: lit(sample)}, follow=lambda lab: lab != "exc")
        ends = []
        for path, _ in res:
            last = path[-1][0]
            if last.kind == "exit":
                ends.append(("return", path))
            elif last.kind == "raise_exit":
                rn = next((x for x, _l in reversed(path[:-1]) if isinstance(x.ast, ast.Raise)), None)
                ends.append(("raise:" + (norm(rn.ast.exc.func) if rn is not None and isinstance(rn.ast.exc, ast.Call) else "?"), path))
        bad = [p_ for k, p_ in ends if k != "raise:ValueError"]
        oks = bool(ends) and not bad
        if not oks:
            chk.finding("V2", tf.key, f"titan-accepts:{name[:40]}", f"the Titan request parser does not raise ValueError on every path for a line with {name}: the line is cut at the first `;` and only the part before it goes through the URL checks (user-info, fragment, TAB/CR/LF), so it is dispatched to the upload handler", tf.loc(), g2.fmt_path(bad[0]) if bad else [])
        chk.ob("V2", f"Titan parser rejects {name}", oks, f"{len(ends)} feasible paths", evals=max(1, len(ends)))
    res = Interp(chk.proj, tf).run_paths(g2, lambda n: [], {line: lit("titan://example.org/f;size=5;mime=text/plain")}, follow=lambda lab: lab != "exc")
    okc = any(path[-1][0].kind == "exit" for path, _ in res)
    if not okc:
        chk.finding("V2", tf.key, "titan-rejects-conforming", "the Titan request parser cannot return for a plain conforming line (abstract sample)", tf.loc())
    chk.ob("V2", "Titan parser returns for a conforming sample", okc)
    # the base URL goes through parse_url
    okb = any((dotted(c.func) or "").split(".")[-1] == "parse_url" for c in calls(tf.node))
    if okb:
        pn = {n.id for n in nodes_calling(g2, lambda c: (dotted(c.func) or "").split(".")[-1] == "parse_url")}
        par = g2.reach([g2.entry.id], blocked_nodes=pn, follow=normal_only)
        okb = g2.exit.id not in par
    if not okb:
        chk.finding("V2", tf.key, "titan-guard:base-url", "the Titan request parser can return without validating the base URL through parse_url", tf.loc())
    chk.ob("V2", "Titan parser validates the base URL with parse_url", okb)
    # GeminiRequest.from_line goes through validate_url (length + structure)
    gf = chk.proj.func("protocol.request:GeminiRequest.from_line")
    g3 = build_cfg(chk.proj, gf)
    vn = {n.id for n in nodes_calling(g3, lambda c: (dotted(c.func) or "").split(".")[-1] in ("validate_url", "parse_url"))}
    par = g3.reach([g3.entry.id], blocked_nodes=vn, follow=normal_only)
    okg = bool(vn) and g3.exit.id not in par
    if not okg:
        chk.finding("V2", gf.key, "gemini-unvalidated", "GeminiRequest.from_line can return without validating the URL", gf.loc())
    chk.ob("V2", "Gemini parser validates through validate_url/parse_url", okg)


def rule_v3(chk: Check) -> None:
    chk.rule("V3", "reject exits for malformed request lines answer 59; uploads-disabled answers 50 before parsing")
    ci = chk.proj.cls(SERVER_PROTO)
    mi = ci.module
    interp_cache = {}
    n59 = 0
    for name in ("data_received", "_handle_gemini_request", "_handle_titan_url"):
        fi = ci.methods.get(name)
        if fi is None:
            continue
        g = build_cfg(chk.proj, fi)
        interp = Interp(chk.proj, fi)
        for n in g.nodes:
            if n.ast is None or n.kind != "stmt":
                continue
            for c in calls(n.ast):
                if dotted(c.func) != "self._send_error_response" or not c.args:
                    continue
                # classify the branch this exit sits in
                kind = _reject_kind(g, n)
                if kind is None:
                    continue
                v = interp.eval(ast.Attribute(value=c.args[0], attr="value", ctx=ast.Load()), {})
                want = 50 if kind == "uploads-disabled" else 59
                ok = isinstance(v, IntV) and v.lo == v.hi == want
                if kind != "uploads-disabled":
                    n59 += 1
                if not ok:
                    chk.finding("V3", fi.key, f"reject-status:{kind}", f"the {kind} exit answers {norm(c.args[0])} = {v} instead of {want}", n.where())
                chk.ob("V3", f"{fi.key}: {kind} -> {want}", ok, norm(c.args[0]))
    chk.floor("V3", "59 reject exits", n59, 1)
    # uploads-disabled test precedes the Titan parser
    ht = ci.methods.get("_handle_titan_url")
    if ht is not None:
        g = build_cfg(chk.proj, ht)
        parsers = {n.id for n in nodes_calling(g, lambda c: method_call(c) is not None and method_call(c)[1] == "from_line")}
        tests = [n for n in g.nodes if n.kind == "test" and dotted(n.ast) == "self.upload_handler"]
        ok = bool(tests) and bool(parsers)
        if ok:
            par = g.reach([g.entry.id], blocked_nodes={t.id for t in tests}, follow=normal_only)
            ok = not any(p in par for p in parsers)
        if not ok:
            chk.finding("V3", ht.key, "uploads-disabled-order", "the uploads-enabled test does not precede Titan parsing: with uploads disabled a malformed titan:// line would get 59 instead of 50", ht.loc())
        chk.ob("V3", "uploads-disabled is decided before parsing", ok)


def _reject_kind(g, n) -> str | None:
    """Which validation failure leads to this error exit (by the dominating
    handler / test)."""
    # walk predecessors up to the nearest handler or test
    seen = set()
    todo = [n.id]
    while todo:
        cur = todo.pop()
        if cur in seen:
            continue
        seen.add(cur)
        for a, lab in g.pred[cur]:
            an = g.nodes[a]
            if an.kind == "handler":
                t = norm(an.ast.type) if an.ast.type is not None else ""
                if "UnicodeDecodeError" in t:
                    return "invalid UTF-8"
                if "ValueError" in t:
                    return "malformed URL"
                return None
            if an.kind == "test":
                txt = norm(an.ast)
                if "MAX_REQUEST_SIZE" in txt:
                    return "over-long line" if lab == "T" else None
                if txt == "self.upload_handler":
                    return "uploads-disabled" if lab == "F" else None
                if "CRLF" in txt:
                    todo.append(a)
                    continue
                return None
            todo.append(a)
    return None


def _threshold(proj, mi, cmp: ast.Compare, fn: ast.AST | None = None):
    """Smallest ``len`` rejected by ``len(...) [+ k] > LIMIT [- c]`` (or >=);
    a local that was assigned ``len(...)`` counts as that call."""
    if len(cmp.ops) != 1:
        return None
    left, op, right = cmp.left, cmp.ops[0], cmp.comparators[0]
    k = 0
    if isinstance(left, ast.BinOp) and isinstance(left.op, (ast.Add, ast.Sub)) and isinstance(left.right, ast.Constant):
        k = left.right.value if isinstance(left.op, ast.Add) else -left.right.value
        left = left.left
    if isinstance(left, ast.Name) and fn is not None:
        defs_ = [st.value for st in walk(fn) if isinstance(st, ast.Assign) and dotted(st.targets[0]) == left.id]
        if len(defs_) == 1:
            left = defs_[0]
    if not (isinstance(left, ast.Call) and dotted(left.func) == "len"):
        return None
    lim = proj.eval_const(mi, right)
    if not isinstance(lim, int):
        return None
    if isinstance(op, ast.Gt):
        return lim - k + 1
    if isinstance(op, ast.GtE):
        return lim - k
    return None


def _measured_root(fi, e: ast.AST, depth: int = 0) -> ast.AST | None:
    """The expression whose length a comparison measures, when it is *derived*
    from the input (an attribute of a local object, a call result); None when
    it is a parameter, the read buffer, or not resolvable."""
    if depth > 6:
        return None
    if isinstance(e, ast.BinOp):
        return _measured_root(fi, e.left, depth + 1) or _measured_root(fi, e.right, depth + 1)
    if isinstance(e, ast.Constant):
        return None
    if isinstance(e, ast.Call) and dotted(e.func) == "len" and e.args:
        return _measured_root(fi, e.args[0], depth + 1)
    if isinstance(e, ast.Call) and method_call(e) and method_call(e)[1] == "encode":
        return _measured_root(fi, method_call(e)[0], depth + 1)
    if isinstance(e, ast.Name):
        if e.id in fi.params:
            return None
        ds = [st.value for st in walk(fi.node) if isinstance(st, ast.Assign) and len(st.targets) == 1 and isinstance(st.targets[0], ast.Name) and st.targets[0].id == e.id]
        if len(ds) == 1:
            return _measured_root(fi, ds[0], depth + 1)
        return None
    if isinstance(e, ast.Attribute):
        d = dotted(e) or ""
        if d.startswith("self."):
            return None
        base = e
        while isinstance(base, ast.Attribute):
            base = base.value
        if isinstance(base, ast.Name) and base.id in fi.params:
            return None
        return e
    if isinstance(e, ast.Call):
        if any(isinstance(x, ast.Attribute) and (dotted(x) or "").startswith("self.buffer") for x in walk(e)):
            return None
        return e
    return None


def rule_v4(chk: Check) -> None:
    chk.rule("V4", "all request-length comparisons use the single constant 1024 and reject exactly lines longer than 1022 bytes (+CRLF)")
    cm = chk.proj.module("protocol.constants")
    v = chk.proj.const_value(cm, "MAX_REQUEST_SIZE")
    ok = v == 1024
    if not ok:
        chk.finding("V4", "protocol.constants:MAX_REQUEST_SIZE", "limit-value", f"MAX_REQUEST_SIZE is {v!r}, the protocol limit is 1024", cm.relpath)
    chk.ob("V4", "MAX_REQUEST_SIZE == 1024", ok)
    sites = []
    for key in (SERVER_PROTO + ".data_received", "utils.url:validate_url"):
        fi = chk.proj.func(key)
        for n in walk(fi.node):
            if isinstance(n, ast.Compare) and any(isinstance(x, ast.Name) and x.id == "MAX_REQUEST_SIZE" for x in walk(n)):
                sites.append((fi, n))
    chk.floor("V4", "length comparisons", len(sites), 1)
    for fi, cmp in sites:
        t = _threshold(chk.proj, fi.module, cmp, fi.node)
        txt = norm(cmp)
        whole_buffer = "self.buffer" in txt
        if t is None:
            good = False
            why = "comparison is not of the form len(x) [+k] > LIMIT"
        elif whole_buffer:
            good = t >= 1024
            why = f"refuses an unterminated buffer from {t} bytes on (must be >= 1024: a 1022-byte line may still be followed by a pending CR)"
        else:
            good = t == 1023
            why = f"rejects lines of >= {t} bytes (must be exactly 1023 = 1024 - CRLF + 1)"
        if not good:
            chk.finding("V4", fi.key, f"limit:{txt[:60]}", f"length check `{txt}`: {why}", fi.loc(cmp))
        chk.ob("V4", f"{fi.key}: {txt}", good, why)
        # what is measured is what was received: the limit is a limit on the request line
        # (the function's input / the read buffer), not on a form derived from it
        root = _measured_root(fi, cmp.left)
        derived = root is not None
        if derived:
            chk.finding(
                "V4", fi.key, f"limit-on-derived:{norm(root)[:50]}",
                f"length check `{txt}` measures `{norm(root)}`, a value derived from the request line, not the line itself: a derived form can be longer than what was received (normalisation turns an empty path into '/'), so a protocol-valid line of exactly the maximum length is refused with 59",
                fi.loc(cmp),
            )
        chk.ob("V4", f"{fi.key}: `{txt}` measures the received line itself", not derived)


def run(chk: Check) -> None:
    rule_v1(chk)
    rule_v2(chk)
    rule_v3(chk)
    rule_v4(chk)
    # V5: the request line is found independently of read boundaries (= C07.S3): a
    # terminator split across two reads must still be the one that ends the line,
    # otherwise a valid line is never dispatched and a "line" with an embedded
    # CRLF can be
    from .c07 import segmentation_rules

    chk.rule("V5", "the request line is cut at the first terminator however the bytes were split into reads (chunk only appended, nothing read before the append, consistent limits)")
    segmentation_rules(chk, "V5", chk.proj.func(SERVER_PROTO + ".data_received"))
    # V6: on the PyOpenSSL backend every decrypted record reaches the protocol (= C07.S4):
    # a valid request sent as several TLS records must not be held back
    from .c01 import rule_w10
    from .c07 import rule_s4
    from .common import reuse

    reuse(chk, rule_w10, "V7", "the refusal itself can always be sent: building the 59 / 50 response from a message that echoes the request line cannot raise out of the callback (= C01.W10)", ("W10",))

    from .c19 import received_line_fidelity

    received_line_fidelity(chk, "V8", "a protocol-valid request reaches the handler with a path / query other than the one sent")
    reuse(chk, rule_s4, "V6", "PyOpenSSL pump: every decrypted record is handed to the protocol and the pump keeps reading until the engine has nothing left (= C07.S4)", ("S4",))
    chk.trusted = ["CPython ast parser", "engine CFG / inliner / abstract evaluator", "urllib.parse.urlparse field semantics (hostname, username, password, fragment, port)"]
    chk.assumptions = ["acceptance of every grammatical URL is not decided (only C19's bracket clause)"]
