"""C12 - The trust store changes atomically and survives export/import.

Atomicity rests on SQLite's transaction = everything between the implicit
BEGIN and commit() on one connection.  Structural conditions for "one
operation = one transaction":
  D1 in every mutating method all DML runs on the connection of a single
     `with self._connection()` block; commit() is not inside a loop; every
     normal path that executed DML passes exactly the commit after it; no DML
     follows a commit
  D2 a mutating method does not call another method of the class that commits
  D3 inside a block that executes DML no method that opens its own connection
     is called (it could not see the pending rows)
  D4 the connection context manager closes without committing; the connection
     is not opened in autocommit mode
  D5 export/import field fidelity: columns selected = keys exported = fields
     required by the import = values bound in the INSERT; the TOML table key is
     used only in messages
  D6 per-host statements are keyed WHERE hostname = ? AND port = ? with the
     method's own (hostname, port) bound in that order (pins of other hosts are
     never touched) - shared with C03.T5
Not decided: crash behaviour of SQLite's journal / the filesystem; TOML escaping.
"""

from __future__ import annotations

import ast
import re

from ..astutil import calls, dotted, is_none, kwarg, method_call, norm, walk
from ..cfg import build_cfg
from ..flow import Defs, _Sel, origins
from ..loader import ClassInfo, FunctionInfo
from ..paths import normal_only
from ..report import Check
from .common import nodes_calling

EXPLANATION = (
    "Static necessary conditions of C12 on TOFUDatabase (SQLite's transaction = everything "
    "between the implicit BEGIN and commit() on one connection). A small SQL literal reader "
    "classifies the execute() statements (verb, table, WHERE columns, bound parameters). (D1) "
    "per mutating method: one `with self._connection()` block holds all DML, commit is outside "
    "any loop, every normal path from a DML statement reaches the commit and no DML follows it; "
    "(D2) no mutating method calls another committing method; (D3) no method that opens its "
    "own connection is called inside a block that executes DML; (D4) _connection closes "
    "without committing and sqlite3.connect is not put in autocommit mode; (D5) list_hosts "
    "columns, export keys, import required fields and INSERT columns/bindings agree and the "
    "TOML key only feeds messages; (D6) per-host statements carry WHERE hostname = ? AND port "
    "= ? bound to the method's own parameters. SQLite and filesystem crash behaviour are trusted. "
    "(D7) no caller of import_toml puts another committing store operation on the same path."
    ' (D8) a CLI command commits at most one trust-store operation on any path (distinct committing call sites on a TOFUDatabase built in the command; helpers inlined).'
)

DB = "security.tofu:TOFUDatabase"
DML = {"INSERT", "UPDATE", "DELETE", "REPLACE"}


def sql_of(call: ast.Call) -> str | None:
    if not (method_call(call) and method_call(call)[1] in ("execute", "executemany", "executescript") and call.args):
        return None
    a = call.args[0]
    if isinstance(a, ast.Constant) and isinstance(a.value, str):
        return " ".join(a.value.split())
    if isinstance(a, ast.JoinedStr):
        return "<dynamic> " + " ".join(norm(a).split())
    return None


def parse_sql(sql: str) -> dict:
    toks = sql.split()
    verb = toks[0].upper() if toks else ""
    out = {"verb": verb, "sql": sql, "where": [], "cols": [], "table": None, "nparams": sql.count("?")}
    m = re.search(r"\bWHERE\b(.*?)(?:\bORDER\b|\bGROUP\b|\bLIMIT\b|$)", sql, re.I)
    if m:
        out["where"] = re.findall(r"(\w+)\s*=\s*\?", m.group(1))
    if verb == "SELECT":
        m2 = re.match(r"SELECT\s+(.*?)\s+FROM\s+(\w+)", sql, re.I)
        if m2:
            out["cols"] = [c.strip() for c in m2.group(1).split(",")]
            out["table"] = m2.group(2)
    elif verb == "INSERT":
        m2 = re.search(r"INTO\s+(\w+)\s*\((.*?)\)", sql, re.I)
        if m2:
            out["table"] = m2.group(1)
            out["cols"] = [c.strip() for c in m2.group(2).split(",")]
    elif verb == "UPDATE":
        m2 = re.match(r"UPDATE\s+(\w+)\s+SET\s+(.*?)(?:\bWHERE\b|$)", sql, re.I)
        if m2:
            out["table"] = m2.group(1)
            out["cols"] = re.findall(r"(\w+)\s*=\s*\?", m2.group(2))
    elif verb == "DELETE":
        m2 = re.match(r"DELETE\s+FROM\s+(\w+)", sql, re.I)
        if m2:
            out["table"] = m2.group(1)
    return out


def _sql_helpers(ci: ClassInfo | None) -> dict[str, int]:
    """Methods that execute one of their own parameters as SQL
    (`def _run(self, sql, params): ... cursor.execute(sql, params)`):
    name -> index of that parameter (self excluded)."""
    out: dict[str, int] = {}
    if ci is None:
        return out
    for name, m in ci.methods.items():
        params = [p for p in m.params if p != "self"]
        for c in calls(m.node):
            mc = method_call(c)
            if mc and mc[1] in ("execute", "executemany") and c.args and isinstance(c.args[0], ast.Name) and c.args[0].id in params:
                out[name] = params.index(c.args[0].id)
    return out


def _literal_sql(a: ast.AST) -> str | None:
    if isinstance(a, ast.Constant) and isinstance(a.value, str):
        return " ".join(a.value.split())
    return None


def statements(fi: FunctionInfo, scope: str = "all") -> list[tuple[ast.Call, dict]]:
    """SQL statements of a method as (call, parsed SQL); for every call
    ``call.args[0]`` is the SQL and ``call.args[1]`` (if any) the bindings.
      own        literal SQL in execute() calls of the method
      delegated  literal SQL the method passes to a helper of its class that
                 executes its parameter (the statement belongs to this method,
                 the transaction to the helper)
      received   for such a helper: its execute(<param>) call, once per literal
                 SQL its callers pass
    scope: all = own + delegated; local = own + received."""
    out = []
    ci = fi.cls
    helpers = _sql_helpers(ci)
    for c in calls(fi.node):
        s = sql_of(c)
        if s is not None:
            out.append((c, parse_sql(s)))
            continue
        d = dotted(c.func) or ""
        if scope == "all" and d.startswith("self.") and d[5:] in helpers and len(c.args) > helpers[d[5:]]:
            lit_sql = _literal_sql(c.args[helpers[d[5:]]])
            if lit_sql is not None and helpers[d[5:]] == 0:
                out.append((c, parse_sql(lit_sql)))
    if scope == "local" and ci is not None and fi.node.name in helpers:
        idx = helpers[fi.node.name]
        ex = next(c for c in calls(fi.node) if method_call(c) and method_call(c)[1] in ("execute", "executemany") and c.args and isinstance(c.args[0], ast.Name))
        for m in ci.methods.values():
            for c in calls(m.node):
                if dotted(c.func) == f"self.{fi.node.name}" and len(c.args) > idx:
                    lit_sql = _literal_sql(c.args[idx])
                    out.append((ex, parse_sql(lit_sql) if lit_sql is not None else {"verb": "?", "sql": norm(c.args[idx]), "where": [], "cols": [], "table": None, "nparams": 0}))
    return out


def commits_in(fi: FunctionInfo) -> list[ast.Call]:
    return [c for c in calls(fi.node) if method_call(c) and method_call(c)[1] == "commit"]


def opens_connection(fi: FunctionInfo) -> bool:
    return any(dotted(c.func) == "self._connection" for c in calls(fi.node))


def rule_d1(chk: Check, ci: ClassInfo) -> list[FunctionInfo]:
    chk.rule("D1", "per mutating method: one connection block holds all DML; commit outside loops; every DML path reaches the commit; no DML after commit")
    mutating = []
    n_stmts = 0
    for name, fi in ci.methods.items():
        sts = statements(fi, "local")
        n_stmts += len(sts)
        for c, p in sts:
            if p["verb"] == "?":
                chk.finding("D1", fi.key, f"unreadable-sql:{p['sql'][:40]}", f"the SQL `{p['sql']}` passed to a statement-executing helper is not a literal: the transaction structure cannot be checked", fi.loc(c))
        dml = [(c, p) for c, p in sts if p["verb"] in DML]
        if not dml or name.startswith("_initialize"):
            continue
        mutating.append(fi)
        g = build_cfg(chk.proj, fi)
        dml_nodes = [n for n in g.nodes if n.ast is not None and n.kind in ("stmt", "test") and any(any(cc is c for c, _ in dml) for cc in calls(n.ast))]
        commit_nodes = [n for n in g.nodes if n.ast is not None and n.kind == "stmt" and any(method_call(cc) and method_call(cc)[1] == "commit" for cc in calls(n.ast))]
        withs = [w for w in walk(fi.node) if isinstance(w, (ast.With, ast.AsyncWith)) and any(isinstance(i.context_expr, ast.Call) and dotted(i.context_expr.func) == "self._connection" for i in w.items)]
        ok = True
        holders = [w for w in withs if any(any(sub is c for sub in ast.walk(w)) for c, _ in dml)]
        outside = [c for c, _ in dml if not any(any(sub is c for sub in ast.walk(w)) for w in withs)]
        if len(holders) != 1 or outside:
            ok = False
            chk.finding("D1", fi.key, "dml-spread", f"the method's DML statements are spread over {len(holders)} connection blocks ({len(outside)} outside any): they do not form one transaction", fi.loc())
        if not commit_nodes:
            ok = False
            chk.finding("D1", fi.key, "no-commit", "a method that executes INSERT/UPDATE/DELETE never commits", fi.loc())
        for cn in commit_nodes:
            call = next(cc for cc in calls(cn.ast) if method_call(cc) and method_call(cc)[1] == "commit")
            if any(isinstance(l, (ast.For, ast.While, ast.AsyncFor)) and any(sub is call for sub in ast.walk(l)) for l in walk(fi.node)):
                ok = False
                chk.finding("D1", fi.key, "commit-in-loop", "commit() is executed inside a loop: a failure in a later iteration leaves the earlier ones committed (partly applied operation)", cn.where())
            # the committing receiver is the with-bound connection
            recv = dotted(method_call(call)[0])
            bound = {dotted(i.optional_vars) for w in holders for i in w.items if i.optional_vars is not None}
            if holders and recv not in bound:
                ok = False
                chk.finding("D1", fi.key, f"commit-other-connection:{recv}", f"commit() is called on `{recv}`, not on the connection that executed the DML", cn.where())
        cids = {c.id for c in commit_nodes}
        for dn in dml_nodes:
            par = g.reach([b for b, lab in g.succ[dn.id] if lab not in ("exc", "raise")], blocked_nodes=cids, follow=normal_only)
            # looping back to further DML is fine; reaching the exit without a commit is not
            if g.exit.id in par:
                ok = False
                chk.finding("D1", fi.key, f"dml-without-commit:{dn.text(40)}", "a normal path executes DML and returns without committing: the change is silently rolled back when the connection closes", dn.where(), g.fmt_path(g.path_to(par, g.exit.id)))
        for cn in commit_nodes:
            par = g.reach([b for b, lab in g.succ[cn.id] if lab not in ("exc", "raise")], follow=normal_only)
            late = [dn for dn in dml_nodes if dn.id in par]
            if late:
                ok = False
                chk.finding("D1", fi.key, f"dml-after-commit:{late[0].text(40)}", "DML is executed after the commit: the operation is split over two transactions", late[0].where())
        # the cursor executing DML belongs to the with-bound connection
        for c, p in dml:
            recv = dotted(method_call(c)[0])
            okc = False
            for st in walk(fi.node):
                if isinstance(st, ast.Assign) and dotted(st.targets[0]) == recv and isinstance(st.value, ast.Call) and method_call(st.value) and method_call(st.value)[1] == "cursor":
                    src = dotted(method_call(st.value)[0])
                    bound = {dotted(i.optional_vars) for w in holders for i in w.items if i.optional_vars is not None}
                    okc = src in bound
            if recv in {dotted(i.optional_vars) for w in holders for i in w.items if i.optional_vars is not None}:
                okc = True
            if not okc:
                ok = False
                chk.finding("D1", fi.key, f"dml-other-connection:{recv}", f"`{recv}.execute({p['verb']} ...)` does not run on the cursor of the operation's own connection", fi.loc(c))
        chk.ob("D1", f"{fi.key}: {len(dml)} DML, {len(commit_nodes)} commit", ok, evals=len(dml_nodes) + len(commit_nodes))
        chk.sample({"rule": "D1", "method": fi.key, "statements": [p["sql"][:70] for _, p in sts]})
    chk.floor("D1", "SQL statements read", n_stmts, 10)
    chk.require("D1", ci.key, "mutating methods", len(mutating), 1, "no method of the trust store executes INSERT/UPDATE/DELETE any more")
    return mutating


def rule_d2_d3(chk: Check, ci: ClassInfo, mutating: list[FunctionInfo]) -> None:
    chk.rule("D2", "a mutating method does not call another method of the class that commits")
    chk.rule("D3", "inside a connection block that executes DML no method opening its own connection is called")
    committing = {fi.node.name for fi in ci.methods.values() if commits_in(fi) and not fi.node.name.startswith("_initialize")}
    opening = {fi.node.name for fi in ci.methods.values() if opens_connection(fi)}
    for fi in mutating:
        ok2 = True
        for c in calls(fi.node):
            mc = method_call(c)
            if mc and dotted(mc[0]) == "self" and mc[1] in committing and mc[1] != fi.node.name:
                ok2 = False
                chk.finding("D2", fi.key, f"nested-commit:{mc[1]}", f"`self.{mc[1]}()` commits on its own connection in the middle of this operation: if a later step fails, that part stays applied (e.g. a failed replace-import leaves the store empty)", fi.loc(c))
        chk.ob("D2", f"{fi.key}: no nested committing call", ok2)
        ok3 = True
        withs = [w for w in walk(fi.node) if isinstance(w, (ast.With, ast.AsyncWith)) and any(isinstance(i.context_expr, ast.Call) and dotted(i.context_expr.func) == "self._connection" for i in w.items)]
        for w in withs:
            if not any(sql_of(c) and parse_sql(sql_of(c))["verb"] in DML for c in calls(ast.Module(body=w.body, type_ignores=[]))):
                continue
            for c in calls(ast.Module(body=w.body, type_ignores=[])):
                mc = method_call(c)
                if mc and dotted(mc[0]) == "self" and mc[1] in opening:
                    ok3 = False
                    chk.finding("D3", fi.key, f"second-connection:{mc[1]}", f"`self.{mc[1]}()` opens a second connection inside the write transaction: it cannot see rows this operation has written but not yet committed", fi.loc(c))
        chk.ob("D3", f"{fi.key}: reads use the operation's own connection", ok3)


def rule_d4(chk: Check, ci: ClassInfo) -> None:
    chk.rule("D4", "_connection yields the connection and closes it in finally without committing; sqlite3.connect is not in autocommit mode")
    fi = ci.methods.get("_connection")
    if fi is None:
        chk.require("D4", ci.key, "_connection context manager", 0, 1, "the database has no connection context manager")
        return
    ok = True
    conn_calls = [c for c in calls(fi.node) if (dotted(c.func) or "").endswith("sqlite3.connect") or dotted(c.func) == "connect"]
    chk.require("D4", fi.key, "sqlite3.connect call", len(conn_calls), 1, "_connection does not open an sqlite3 connection")
    for c in conn_calls:
        iso = kwarg(c, "isolation_level")
        auto = kwarg(c, "autocommit")
        if (iso is not None and is_none(iso)) or (auto is not None and isinstance(auto, ast.Constant) and auto.value is True):
            ok = False
            chk.finding("D4", fi.key, "autocommit", "the connection is opened in autocommit mode: every statement is its own transaction and multi-statement operations are no longer atomic", fi.loc(c))
    if commits_in(fi):
        ok = False
        chk.finding("D4", fi.key, "commit-on-exit", "the context manager commits on exit: a block that raised part-way has its partial changes committed", fi.loc())
    for st in walk(fi.node):
        if isinstance(st, ast.Assign) and any((dotted(t) or "").endswith(".isolation_level") for t in st.targets) and is_none(st.value):
            ok = False
            chk.finding("D4", fi.key, "autocommit", "isolation_level is set to None (autocommit)", fi.loc(st))
    g = build_cfg(chk.proj, fi)
    closes = {n.id for n in g.nodes if n.ast is not None and n.kind == "stmt" and any(method_call(c) and method_call(c)[1] == "close" for c in calls(n.ast))}
    ys = [n for n in g.nodes if n.ast is not None and n.kind == "stmt" and any(isinstance(x, ast.Yield) for x in walk(n.ast))]
    if not ys or not closes:
        ok = False
        chk.finding("D4", fi.key, "no-close", "the connection is not closed after use", fi.loc())
    else:
        par = g.reach([ys[0].id], blocked_nodes=closes)
        if g.exit.id in par or g.raise_exit.id in par:
            ok = False
            chk.finding("D4", fi.key, "close-not-in-finally", "after the block there is a path (normal or exceptional) that does not close the connection", fi.loc())
    chk.ob("D4", f"{fi.key}: rollback-on-error context manager", ok, evals=3)


def rule_d5(chk: Check, ci: ClassInfo) -> None:
    chk.rule("D5", "list_hosts columns ⊇ export keys = import required fields ⊇ INSERT columns, bound to the like-named values; TOML table key only used in messages")
    lh, ex, im = ci.methods.get("list_hosts"), ci.methods.get("export_toml"), ci.methods.get("import_toml")
    if not (lh and ex and im):
        chk.floor("D5", "list_hosts/export_toml/import_toml", 0, 1)
    sel = [p for _c, p in statements(lh) if p["verb"] == "SELECT"]
    cols = set(sel[0]["cols"]) if sel else set()
    # export keys: dict literal assigned into data["hosts"][key]
    exp_keys: dict[str, str] = {}
    # the per-host record: a dict literal with the constant key "hostname", wherever it is
    # built (subscript store in a loop, value of a dict comprehension, helper of the class)
    ex_nodes = [ex.node] + [ci.methods[(dotted(c.func) or "")[5:]].node for c in calls(ex.node) if (dotted(c.func) or "").startswith("self.") and (dotted(c.func) or "")[5:] in ci.methods and (dotted(c.func) or "")[5:] not in ("list_hosts",)]
    for fn_ in ex_nodes:
        for dct in walk(fn_):
            if isinstance(dct, ast.Dict) and any(isinstance(k, ast.Constant) and k.value == "hostname" for k in dct.keys):
                for k, v in zip(dct.keys, dct.values):
                    if isinstance(k, ast.Constant):
                        rd = [x.slice.value for x in walk(v) if isinstance(x, ast.Subscript) and isinstance(x.slice, ast.Constant)]
                        exp_keys[k.value] = rd[0] if rd else "?"
    req = []
    for st in walk(im.node):
        if isinstance(st, ast.Assign) and isinstance(st.value, (ast.List, ast.Tuple)) and "required" in (dotted(st.targets[0]) or "").lower():
            req = [e.value for e in st.value.elts if isinstance(e, ast.Constant)]
    if not req:
        # a module-level constant iterated in the import loop
        for l in [x for x in walk(im.node) if isinstance(x, ast.For) and isinstance(x.iter, ast.Name)]:
            cv = im.module.constants.get(l.iter.id)
            if isinstance(cv, (ast.List, ast.Tuple, ast.Set)) and any(isinstance(t, ast.Compare) and isinstance(t.ops[0], ast.NotIn) and dotted(t.left) == dotted(l.target) for t in walk(l)):
                req = [e.value for e in cv.elts if isinstance(e, ast.Constant)]
    ins = [(c, p) for c, p in statements(im) if p["verb"] == "INSERT"]
    ok = True
    essential = {"hostname", "port", "fingerprint", "first_seen"}
    if not essential <= cols:
        ok = False
        chk.finding("D5", lh.key, "select-columns", f"list_hosts selects {sorted(cols)}: export cannot reproduce {sorted(essential - cols)}", lh.loc())
    for k in essential:
        if exp_keys.get(k) != k:
            ok = False
            chk.finding("D5", ex.key, f"export-key:{k}", f"exported key `{k}` is fed from column `{exp_keys.get(k)}`", ex.loc())
    if not essential <= set(req):
        ok = False
        chk.finding("D5", im.key, "required-fields", f"import does not require {sorted(essential - set(req))}", im.loc())
    chk.require("D5", im.key, "INSERT statement in import", len(ins), 1, "import_toml never inserts")
    g = build_cfg(chk.proj, im)
    defs = Defs(g)
    for c, p in ins:
        if len(c.args) < 2 or not isinstance(c.args[1], ast.Tuple):
            ok = False
            chk.finding("D5", im.key, "insert-binding", "INSERT parameters are not a literal tuple", im.loc(c))
            continue
        node = next(x for x in g.nodes if x.ast is not None and any(cc is c for cc in calls(x.ast)))
        for col, val in zip(p["cols"], c.args[1].elts):
            if col not in essential:
                continue
            keys = set()
            for _dn, le in origins(defs, node, val) if isinstance(val, ast.Name) else [(node, val)]:
                if not isinstance(le, _Sel):
                    keys |= {x.slice.value for x in walk(le) if isinstance(x, ast.Subscript) and isinstance(x.slice, ast.Constant)}
            if keys != {col}:
                ok = False
                chk.finding("D5", im.key, f"insert-crossed:{col}", f"INSERT column `{col}` is bound to the TOML field(s) {sorted(keys)}", im.loc(c))
        if not essential <= set(p["cols"]):
            ok = False
            chk.finding("D5", im.key, "insert-columns", f"INSERT omits {sorted(essential - set(p['cols']))}", im.loc(c))
    # TOML table key only in messages
    loop = next((l for l in walk(im.node) if isinstance(l, ast.For) and "items" in norm(l.iter)), None)
    if loop is not None and isinstance(loop.target, ast.Tuple):
        kname = dotted(loop.target.elts[0])
        for x in walk(loop):
            if isinstance(x, ast.Name) and x.id == kname and isinstance(x.ctx, ast.Load):
                # must sit inside an f-string / exception message
                holder = next((r for r in walk(loop) if isinstance(r, ast.Raise) and any(sub is x for sub in ast.walk(r))), None)
                if holder is None:
                    ok = False
                    chk.finding("D5", im.key, f"table-key-parsed:{kname}", "the TOML table key is used for more than messages: host names with dots, colons or quotes can be mis-split", im.loc(x))
    chk.ob("D5", "export/import field fidelity", ok, f"select={sorted(cols)} export={sorted(exp_keys)} required={req}", evals=4)


def rule_d6(chk: Check, ci: ClassInfo) -> None:
    chk.rule("D6", "per-host statements: WHERE hostname = ? AND port = ? bound to the method's own (hostname, port), in that order")
    n = 0
    for name, fi in ci.methods.items():
        params = fi.params
        if "hostname" not in params:
            continue
        for c, p in statements(fi):
            if p["verb"] not in ("SELECT", "UPDATE", "DELETE"):
                continue
            n += 1
            wants_port = "port" in params
            ok = p["where"][-2:] == ["hostname", "port"] if wants_port else p["where"][-1:] == ["hostname"]
            if ok and len(c.args) >= 2 and isinstance(c.args[1], ast.Tuple):
                names = [dotted(e) for e in c.args[1].elts]
                ok = names[-2:] == ["hostname", "port"] if wants_port else names[-1:] == ["hostname"]
                ok = ok and len(names) == p["nparams"]
            else:
                ok = False
            if not ok:
                chk.finding("D6", fi.key, f"key:{p['verb']}:{' '.join(p['where'])}", f"`{p['sql'][:80]}` is not restricted to this method's own (hostname{', port' if wants_port else ''}): pins of other hosts or ports are read or altered", fi.loc(c))
            chk.ob("D6", f"{fi.key}: {p['verb']} keyed by ({', '.join(p['where'])})", ok)
    chk.floor("D6", "per-host statements", n, 6)
    # primary key
    init = ci.methods.get("_initialize_db")
    okp = init is not None and any("PRIMARY KEY (hostname, port)" in (sql_of(c) or "") for c in calls(init.node))
    if not okp:
        chk.finding("D6", ci.key, "primary-key", "known_hosts is not keyed PRIMARY KEY (hostname, port)", init.loc() if init else "")
    chk.ob("D6", "PRIMARY KEY (hostname, port)", okp)


def rule_d7(chk: Check, ci: ClassInfo, mutating) -> None:
    """An import is one store operation for its callers too: a function that
    calls import_toml must not compose it with another committing store
    operation (clear / revoke / trust ...) on the same path - that splits the
    import into two transactions, and a failure of the second leaves the first
    committed."""
    chk.rule("D7", "callers of import_toml (CLI) do not combine it with another committing trust-store operation in the same command: replace mode is import_toml's own, single-transaction job")
    committing = {m.node.name for m in mutating if m.node.name != "import_toml"}
    n = 0
    for mi in chk.proj.modules.values():
        for fi in mi.functions.values():
            if fi.cls is ci:
                continue
            imps = [c for c in calls(fi.node) if method_call(c) and method_call(c)[1] == "import_toml"]
            if not imps:
                continue
            n += 1
            g = build_cfg(chk.proj, fi)
            others = nodes_calling(g, lambda c: method_call(c) is not None and method_call(c)[1] in committing and dotted(method_call(c)[0]) == dotted(method_call(imps[0])[0]))
            impn = nodes_calling(g, lambda c: method_call(c) is not None and method_call(c)[1] == "import_toml")
            ok = True
            for o in others:
                fwd = g.reach([o.id])
                back = {x.id for x in impn if o.id in g.reach([x.id])}
                if any(x.id in fwd for x in impn) or back:
                    ok = False
                    chk.finding(
                        "D7", fi.key, f"import-composed-with:{method_call(next(c for c in calls(o.ast) if method_call(c) and method_call(c)[1] in committing))[1]}",
                        f"`{o.text(60)}` commits on its own and lies on a path with import_toml in the same command: the operation is two transactions, so a failing import (malformed entry, aborted prompt, I/O error) leaves the first one's effect - e.g. an emptied store",
                        o.where(),
                    )
            chk.ob("D7", f"{fi.key}: import is the only committing store operation on its paths", ok, evals=len(others) + 1)
    chk.ob("D7", "callers of import_toml outside the store examined", True, f"{n} functions", nontrivial=False)


def rule_d8(chk: Check, ci: ClassInfo, mutating) -> None:
    """Each CLI command is one operation for the user: it must be one store
    transaction.  Two committing store calls on one path of a command (revoke
    then trust) leave, after a crash or a failure between them, a state that is
    neither the one before nor the one after - e.g. a pinned host with no pin."""
    chk.rule("D8", "a CLI command performs at most one committing trust-store operation on any path: no second committing call is reachable from a first one inside one command function")
    committing = {m.node.name for m in mutating}
    mi = chk.proj.modules.get("__main__") or next((m for m in chk.proj.modules.values() if m.name.endswith("__main__")), None)
    if mi is None:
        chk.floor("D8", "CLI module", 0, 1)
    n = 0
    for fi in mi.functions.values():
        sites = [c for c in ast.walk(fi.node) if isinstance(c, ast.Call) and method_call(c) and method_call(c)[1] in committing and isinstance(method_call(c)[0], ast.Name)]
        if not sites:
            continue
        # receivers that are TOFUDatabase objects: assigned from TOFUDatabase(...) in this command
        dbs = {t.id for st in ast.walk(fi.node) if isinstance(st, ast.Assign) and isinstance(st.value, ast.Call) and (dotted(st.value.func) or "").split(".")[-1] == ci.name for t in st.targets if isinstance(t, ast.Name)}
        sites = [c for c in sites if method_call(c)[0].id in dbs]
        if not sites:
            continue
        n += 1
        from ..cfg import Builder, inline_local

        g = Builder(chk.proj, inline_local, 2).build(fi)
        nodes = nodes_calling(g, lambda c: any(c is s_ for s_ in sites))
        ok = True
        for a in nodes:
            fwd = g.reach([b for b, lab in g.succ[a.id] if lab not in ("exc", "raise")])
            sa = next(c for c in calls(a.ast) if any(c is s_ for s_ in sites))
            for b in nodes:
                sb = next(c for c in calls(b.ast) if any(c is s_ for s_ in sites))
                if sb is not sa and b.id in fwd:
                    ok = False
                    ma, mb = method_call(sa)[1], method_call(sb)[1]
                    chk.finding(
                        "D8", fi.key, f"command-two-transactions:{ma}+{mb}",
                        f"the command commits `{ma}` and then `{mb}` as two separate store transactions: a crash or a failure of the second leaves the store in a state that is neither the one before nor the one after the command (after revoke + trust: a pinned host without any pin, so the next connection accepts any certificate)",
                        b.where(),
                    )
        chk.ob("D8", f"{fi.key}: one committing store operation per path", ok, f"{len(nodes)} committing call sites", evals=len(nodes) + 1)
    chk.require("D8", mi.name, "CLI commands that change the trust store", n, 1, "no CLI command changes the trust store any more: rule anchor lost")


def run(chk: Check) -> None:
    ci = chk.proj.cls(DB)
    mutating = rule_d1(chk, ci)
    rule_d2_d3(chk, ci, mutating)
    rule_d4(chk, ci)
    rule_d5(chk, ci)
    rule_d6(chk, ci)
    rule_d7(chk, ci, mutating)
    rule_d8(chk, ci, mutating)
    chk.trusted = ["CPython ast parser", "engine CFG", "sqlite3: implicit BEGIN before DML, rollback when a connection is closed uncommitted", "tomllib / tomli_w"]
    chk.assumptions = ["process crashes are covered only through SQLite's own atomic commit (trusted)"]
