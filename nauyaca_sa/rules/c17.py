"""C17 - The reverse proxy only talks to its upstream and maps URLs faithfully.

  Y1 the authority cannot be extended: at `f"{self.upstream}{path}"` the path
     is proven (abstract string domain, path-sensitive) to start with "/" on
     every path, the upstream is configuration validated to start with
     gemini:// with trailing slashes stripped, and the query is appended only
     behind a literal "?"
  Y2 strip table: abstract evaluation with exact samples - the prefix is
     removed iff stripping is on and the prefix matches on a segment boundary
  Y3 no re-encoding of path or query on the way to the join
  Y4 one fetch through the fixed client with follow_redirects=False (literal)
  Y5 routing order: locations are registered in list order as prefix routes and
     the router returns at the first match
Not decided: how parse_url re-parses the joined string for exotic hosts.
"""

from __future__ import annotations

import ast

from ..astutil import calls, dotted, kwarg, method_call, norm, walk
from ..cfg import Builder, build_cfg, inline_local
from ..flow import Defs, _Sel, origins
from ..paths import normal_only
from ..report import Check
from ..strdom import TOP, BoolV, Interp, StrV, lit

EXPLANATION = (
    "Static necessary conditions of C17 on ProxyHandler. (Y1) _handle_async is interpreted "
    "path-sensitively in the abstract string domain with request.path known only to start with "
    "'/' (library fact for URLs with an authority; the parser substitutes '/' for an empty "
    "path) and arbitrary prefix / strip settings: at the join f'{self.upstream}{path}' the "
    "path must still be proven to start with '/', so nothing a client sends can land in the "
    "authority; the upstream is validated in __init__ (gemini://, trailing slashes stripped); "
    "the query is only appended behind a literal '?'. (Y2) exact samples (prefix with and "
    "without trailing slash, exact match, partial-segment match, no match, stripping off) must "
    "yield exactly the specified upstream URL. (Y3) no quote/unquote/lower/encode on path or "
    "query. (Y4) exactly one self._client.get with follow_redirects=False; the client is built "
    "once in __init__. (Y5) locations are registered in order as PREFIX routes; Router.route "
    "returns at the first match. "
    "(Y3, accessor) The request accessors the proxy reads path and query through return the raw, still percent-escaped components. "
    "(Y5, sharing) each proxy location gets its own ProxyHandler (none is kept in a container). (Y6) the proxy's client sends the joined URL with path and query as given (C19.N1-N3). "
    "(Y5, fresh) the handler registered for a location is built in that iteration from that location. "
    "(Y7) the proxy handler writes no attribute of self outside __init__."
    " (Y8) stateless client: the proxy's shared GeminiClient remembers nothing between fetches (no remembered redirects, no target cache)."
)

PROXY = "server.proxy:ProxyHandler"


def _join_nodes(g, upstream="self.upstream"):
    out = []
    defs = None
    for n in g.nodes:
        if n.kind == "stmt" and isinstance(n.ast, ast.Assign) and isinstance(n.ast.value, ast.JoinedStr):
            vals = n.ast.value.values
            if vals and isinstance(vals[0], ast.FormattedValue):
                v = vals[0].value
                if dotted(v) == upstream:
                    out.append(n)
                elif isinstance(v, ast.Name):
                    defs = defs or Defs(g)
                    ls = origins(defs, n, v)
                    if ls and all(not isinstance(le, _Sel) and dotted(le) == upstream for _, le in ls):
                        out.append(n)
    return out


def _graph(chk: Check, fi):
    return Builder(chk.proj, inline_local, 3).build(fi)


def _req_name(g, fi) -> str:
    """Name under which the incoming request is known where the join is built
    (the helper's own parameter when the URL mapping was extracted)."""
    joins = _join_nodes(g)
    if joins and joins[0].stack:
        callee = joins[0].func
        ps = [p for p in callee.params if p not in ("self", "cls")]
        if ps:
            return ps[0]
    return [p for p in fi.params if p != "self"][0]


def rule_y1(chk: Check, ci) -> None:
    chk.rule("Y1", "at the join with the upstream base the path provably starts with '/'; upstream validated; query only behind '?'")
    fi = ci.methods.get("_handle_async")
    if fi is None:
        chk.floor("Y1", "_handle_async", 0, 1)
    g = _graph(chk, fi)
    joins = _join_nodes(g)
    if not chk.require("Y1", fi.key, "join f'{self.upstream}{path}'", len(joins), 1, "the upstream URL is no longer built as upstream base + path"):
        return
    jn = joins[0]
    parts = jn.ast.value.values
    path_expr = parts[1].value if len(parts) >= 2 and isinstance(parts[1], ast.FormattedValue) else None
    ok = path_expr is not None and len(parts) == 2
    if not ok:
        chk.finding("Y1", fi.key, "join-shape", f"the upstream URL is built as `{norm(jn.ast.value)}`: something other than base + path is concatenated", jn.where())
    req = _req_name(g, fi)
    outer = [p for p in fi.params if p != "self"][0]
    n_paths = 0
    bad = None
    for strip in (BoolV(True), BoolV(False)):
        interp = Interp(chk.proj, fi)
        interp.oracle = {f"{outer}.path": StrV("str", prefix="/"), f"{outer}.query": StrV("str"), f"{req}.path": StrV("str", prefix="/"), f"{req}.query": StrV("str"), "self.prefix": StrV("str"), "self.strip_prefix": strip, "self.upstream": StrV("str", prefix="gemini://")}
        res = interp.run_paths(g, lambda n, _j=jn, _e=path_expr: [_e] if n.id == _j.id and _e is not None else [], {})
        for path, (st, recs) in res:
            for node, vals, _ in recs:
                n_paths += 1
                v = vals[0]
                if not (isinstance(v, StrV) and ((v.prefix or "").startswith("/") or (isinstance(v.exact, str) and v.exact.startswith("/")))):
                    bad = (path, v)
    if bad is not None:
        ok = False
        chk.finding(
            "Y1", fi.key, "path-may-lack-leading-slash",
            f"on some path the value joined to the upstream base is not proven to start with '/' ({bad[1]}): `gemini://backend` + `evil.example/x` or `:70/x` would change the host or port the proxy talks to",
            jn.where(), g.fmt_path(bad[0]),
        )
    chk.ob("Y1", f"{fi.key}: path starts with '/' at the join", ok and bad is None, f"{n_paths} path evaluations", evals=max(1, n_paths))
    # query only behind literal "?"
    okq = True
    nq = 0
    for n in g.nodes:
        if n.kind == "stmt" and isinstance(n.ast, ast.AugAssign) and "upstream_url" in norm(n.ast.target):
            nq += 1
            v = n.ast.value
            if not (isinstance(v, ast.JoinedStr) and isinstance(v.values[0], ast.Constant) and v.values[0].value == "?" and len(v.values) == 2 and dotted(v.values[1].value) in (f"{req}.query", f"{outer}.query")):
                okq = False
                chk.finding("Y1", fi.key, f"query-append:{norm(v)[:40]}", "something other than '?' + the client's query string is appended to the upstream URL", n.where())
    chk.ob("Y1", "query appended only as '?' + request.query", okq, evals=max(1, nq))
    # upstream validation in __init__
    init = ci.methods.get("__init__")
    gi = build_cfg(chk.proj, init)
    tests = [n for n in gi.nodes if n.kind == "test" and isinstance(n.ast, ast.Call) and method_call(n.ast) and method_call(n.ast)[1] == "startswith" and n.ast.args and isinstance(n.ast.args[0], ast.Constant) and n.ast.args[0].value == "gemini://"]
    oku = bool(tests)
    if tests:
        blocked = {(t.id, b, lab) for t in tests for b, lab in gi.succ[t.id] if lab == "T"}
        par = gi.reach([gi.entry.id], blocked_edges=blocked, follow=normal_only)
        oku = gi.exit.id not in par
    assigns = [st for st in walk(init.node) if isinstance(st, ast.Assign) and any(dotted(t) == "self.upstream" for t in st.targets)]
    from .common import resolve_simple

    av = resolve_simple(chk.proj, ci, init, assigns[0].value) if len(assigns) == 1 else None
    oku = oku and len(assigns) == 1 and isinstance(av, ast.Call) and method_call(av) and method_call(av)[1] == "rstrip" and dotted(method_call(av)[0]) == init.params[1]
    others = [m for m in ci.methods.values() if m is not init for st in walk(m.node) if isinstance(st, (ast.Assign, ast.AugAssign)) and any(dotted(t) == "self.upstream" for t in (st.targets if isinstance(st, ast.Assign) else [st.target]))]
    oku = oku and not others
    if not oku:
        chk.finding("Y1", init.key, "upstream-validation", "the upstream base is not validated to start with gemini:// (constructor must raise otherwise), stripped of trailing slashes and left untouched afterwards", init.loc())
    chk.ob("Y1", "upstream base validated and fixed", oku)


def rule_y2(chk: Check, ci) -> None:
    chk.rule("Y2", "strip table with exact samples: prefix removed iff stripping is on and the prefix matches on a segment boundary")
    fi = ci.methods["_handle_async"]
    g = _graph(chk, fi)
    joins = _join_nodes(g)
    if not joins:
        return
    jn = joins[0]
    req = _req_name(g, fi)
    outer = [p for p in fi.params if p != "self"][0]
    table = [
        # (prefix, strip, path) -> expected path sent upstream
        ("/api/", True, "/api/resource", "/resource"),
        ("/api/", True, "/api/", "/"),
        ("/api", True, "/api/resource", "/resource"),
        ("/api", True, "/api", "/"),
        ("/api", True, "/apikey", "/apikey"),
        ("/api", True, "/other/x", "/other/x"),
        ("/api/", True, "/other", "/other"),
        ("/api/", False, "/api/resource", "/api/resource"),
        ("/", True, "/x/y", "/x/y"),
        ("/api/", True, "/api//evil.example/x", "/evil.example/x"),
    ]
    for prefix, strip, path, want in table:
        interp = Interp(chk.proj, fi)
        interp.oracle = {f"{outer}.path": lit(path), f"{outer}.query": lit(""), f"{req}.path": lit(path), f"{req}.query": lit(""), "self.prefix": lit(prefix), "self.strip_prefix": BoolV(strip), "self.upstream": lit("gemini://backend:1965")}
        res = interp.run_paths(g, lambda n, _j=jn: [_j.ast.value] if n.id == _j.id else [], {})
        got = set()
        for p, (st, recs) in res:
            for node, vals, _ in recs:
                got.add(vals[0].exact if isinstance(vals[0], StrV) else repr(vals[0]))
        # "//evil" case: the leading-slash repair must not turn it into an authority: base + "//evil..." keeps base's authority
        exp = {"gemini://backend:1965" + want}
        ok = got == exp
        inst = f"prefix={prefix!r} strip={strip} path={path!r}"
        if not ok:
            chk.finding("Y2", fi.key, f"strip-table:{inst}", f"for {inst} the proxy requests {sorted(map(str, got))}, expected {sorted(exp)}", jn.where())
        chk.ob("Y2", inst, ok, f"-> {sorted(map(str, got))}", evals=max(1, len(res)))


def rule_y3_y4(chk: Check, ci) -> None:
    chk.rule("Y3", "no re-encoding (quote/unquote/lower/encode/normpath) of path or query before the join")
    chk.rule("Y4", "exactly one fetch through self._client with follow_redirects=False; the client is constructed once in __init__")
    fi = ci.methods["_handle_async"]
    g = _graph(chk, fi)
    all_calls = [c for n in g.nodes if n.ast is not None and n.kind in ("stmt", "test", "with") for c in calls(n.ast if not isinstance(n.ast, ast.withitem) else n.ast.context_expr)]
    bad = []
    for c in all_calls:
        d = (dotted(c.func) or "").split(".")[-1]
        mc = method_call(c)
        if d in ("quote", "unquote", "quote_plus", "unquote_plus", "normpath", "urljoin", "urlunparse"):
            bad.append(c)
        if mc and mc[1] in ("lower", "upper", "encode", "decode", "casefold", "translate") and any(x in norm(mc[0]) for x in ("path", "query", "upstream_url", "remaining")):
            bad.append(c)
    for c in bad:
        chk.finding("Y3", fi.key, f"reencode:{norm(c)[:40]}", f"`{norm(c)}` reinterprets the client's path/query on its way upstream", fi.loc(c))
    chk.ob("Y3", f"{fi.key}: path and query forwarded verbatim", not bad, evals=len(all_calls))
    # the accessors the proxy reads the path and query through must hand out the raw
    # (still percent-escaped) components: a decoding accessor turns %2F / %3F / %23
    # into live delimiters when the joined URL is parsed again
    from .common import request_accessor_decodes

    seen_acc = 0
    for n in g.nodes:
        if n.ast is None or n.kind not in ("stmt", "test"):
            continue
        for x in walk(n.ast):
            if isinstance(x, ast.Attribute) and x.attr in ("path", "query") and isinstance(x.value, ast.Name):
                k = request_accessor_decodes(chk.proj, n.func, x)
                if k == 0 and not any(a.arg == x.value.id for a in n.func.node.args.args):
                    continue
                seen_acc += 1
                if k != 0:
                    chk.finding(
                        "Y3", fi.key, f"decoding-accessor:{norm(x)}",
                        f"`{norm(x)}` is percent-decoded by the request class before the proxy joins it to the upstream base: an escaped reserved character (%2F, %3F, %23, %25) reaches the upstream as a delimiter or is decoded twice",
                        n.where(),
                    )
                chk.ob("Y3", f"{fi.key}: `{norm(x)}` is the raw component", k == 0)
    chk.require("Y3", fi.key, "request path/query accessor reads", seen_acc, 1, "the proxy no longer derives the upstream URL from the request's path")
    gets = [c for c in all_calls if method_call(c) and method_call(c)[1] == "get" and dotted(method_call(c)[0]) == "self._client"]
    ok = len(gets) == 1
    other_net = [c for c in all_calls if method_call(c) and method_call(c)[1] in ("create_connection", "open_connection", "upload", "delete") or (dotted(c.func) or "").split(".")[-1] in ("GeminiClient",)]
    if ok:
        fr = kwarg(gets[0], "follow_redirects")
        ok = isinstance(fr, ast.Constant) and fr.value is False
        d = Defs(g)
        node = next(x for x in g.nodes if x.ast is not None and any(cc is gets[0] for cc in calls(x.ast)))
        arg = gets[0].args[0] if gets[0].args else kwarg(gets[0], "url")
        ls = origins(d, node, arg)
        # the URL fetched is the joined one (possibly with the query appended)
        ok = ok and all(
            (isinstance(le, _Sel) and le.selector == "aug") or isinstance(le, ast.JoinedStr) or (not isinstance(le, _Sel) and "self.upstream" in norm(le))
            for _, le in ls
        )
    if not ok or other_net:
        chk.finding("Y4", fi.key, "fetch-shape", "the proxy does not make exactly one self._client.get(<upstream URL>, follow_redirects=False): it could follow upstream redirects to other hosts or contact something else", fi.loc())
    chk.ob("Y4", f"{fi.key}: one fetch, redirects not followed", ok and not other_net)
    init = ci.methods["__init__"]
    mk = [st for m in ci.methods.values() for st in walk(m.node) if isinstance(st, ast.Assign) and any(dotted(t) == "self._client" for t in st.targets)]
    from .common import resolve_simple as _rs

    cv = _rs(chk.proj, ci, init, mk[0].value) if len(mk) == 1 else None
    okc = len(mk) == 1 and any(st is mk[0] for st in walk(init.node)) and isinstance(cv, ast.Call) and (dotted(cv.func) or "").split(".")[-1] == "GeminiClient"
    if okc:
        t = kwarg(cv, "timeout")
        okc = t is not None and dotted(t) == "timeout"
    if not okc:
        chk.finding("Y4", init.key, "client-construction", "the upstream client is not constructed exactly once in __init__ with the location's timeout", init.loc())
    chk.ob("Y4", "client built once with the location timeout", okc)


def rule_y7(chk: Check, ci) -> None:
    """Each request is mapped and fetched on its own: the handler keeps no state
    that one request writes and another reads (a response cache, an in-flight
    table, a remembered redirect): such state answers a request with the result
    of a different URL."""
    chk.rule("Y7", "the proxy handler is stateless across requests: outside __init__ no method stores to, or mutates, an attribute of self")
    n = 0
    ok = True
    mutators = {"setdefault", "pop", "update", "append", "add", "clear", "popitem", "insert", "extend", "remove", "discard"}
    for name, m in ci.methods.items():
        if name == "__init__":
            continue
        for x in ast.walk(m.node):
            hit = None
            if isinstance(x, (ast.Assign, ast.AugAssign, ast.AnnAssign)):
                tg = x.targets if isinstance(x, ast.Assign) else [x.target]
                for t in tg:
                    base = t.value if isinstance(t, ast.Subscript) else t
                    if (dotted(base) or "").startswith("self."):
                        hit = norm(t)
            elif isinstance(x, ast.Call) and method_call(x) and method_call(x)[1] in mutators and (dotted(method_call(x)[0]) or "").startswith("self.") and (dotted(method_call(x)[0]) or "").count(".") == 1:
                hit = norm(x)[:60]
            elif isinstance(x, ast.Delete) and any((dotted(t.value if isinstance(t, ast.Subscript) else t) or "").startswith("self.") for t in x.targets):
                hit = norm(x)[:60]
            if hit:
                n += 1
                ok = False
                chk.finding(
                    "Y7", m.key, f"request-state:{hit[:50]}",
                    f"`{hit}` keeps state on the handler that outlives the request: a later or concurrent request can be answered from it (e.g. an in-flight table keyed by the path answers `?q=beta` with the response to `?q=alpha`, and its own URL is never requested upstream)",
                    m.loc(x),
                )
    chk.ob("Y7", f"{ci.key}: no attribute of self is written outside __init__", ok, f"{n} writes")


def rule_y5(chk: Check) -> None:
    chk.rule("Y5", "locations are registered in list order as PREFIX routes with their own prefix; Router.route returns at the first match")
    fi = chk.proj.func("server.config:ServerConfig.get_location_router")
    loops = [l for l in walk(fi.node) if isinstance(l, ast.For)]
    ok = False
    for l in loops:
        if dotted(l.iter) == "self.locations":
            var = dotted(l.target)
            for c in calls(ast.Module(body=l.body, type_ignores=[])):
                mc = method_call(c)
                if mc and mc[1] == "add_route":
                    rt = kwarg(c, "route_type")
                    ok = c.args and dotted(c.args[0]) == f"{var}.prefix" and rt is not None and (dotted(rt) or "").endswith("PREFIX")
    if not ok:
        chk.finding("Y5", fi.key, "registration-order", "locations are not registered in configuration order as prefix routes under their own prefix", fi.loc())
    chk.ob("Y5", "locations registered in order as PREFIX routes", ok)
    # ProxyHandler receives the location's own settings
    okp = False
    for c in [x for x in ast.walk(fi.node) if isinstance(x, ast.Call)]:
        if (dotted(c.func) or "").split(".")[-1] == "ProxyHandler":
            # all four settings come from one and the same location object (whatever it is called)
            bases = set()
            for k in ("upstream", "prefix", "strip_prefix", "timeout"):
                d = dotted(kwarg(c, k)) or ""
                bases.add(d[: -len(k) - 1] if d.endswith("." + k) else f"?{k}")
            okp = len(bases) == 1 and not next(iter(bases)).startswith("?") and "." not in next(iter(bases))
    if not okp:
        chk.finding("Y5", fi.key, "proxy-wiring", "a proxy location's upstream/prefix/strip_prefix/timeout do not reach the ProxyHandler unchanged", fi.loc())
    chk.ob("Y5", "ProxyHandler wired from its location", okp)
    # one handler per location: a ProxyHandler carries its location's prefix and strip
    # setting, so it must not be kept in / taken from a container shared between locations
    oks = True
    for st in ast.walk(fi.node):
        if not isinstance(st, (ast.Assign, ast.AnnAssign, ast.Expr, ast.Return)):
            continue
        val = st.value
        if val is None or not any(isinstance(x, ast.Call) and (dotted(x.func) or "").split(".")[-1] == "ProxyHandler" for x in ast.walk(val)):
            continue
        direct = isinstance(val, ast.Call) and (dotted(val.func) or "").split(".")[-1] == "ProxyHandler"
        tgt_ok = isinstance(st, ast.Return) or (isinstance(st, ast.Assign) and all(isinstance(t, ast.Name) for t in st.targets)) or (isinstance(st, ast.AnnAssign) and isinstance(st.target, ast.Name))
        if not (direct and tgt_ok):
            oks = False
            chk.finding(
                "Y5", fi.key, f"handler-shared:{norm(st)[:50]}",
                f"`{norm(st)[:80]}` keeps a ProxyHandler in a container instead of building one per location: a second location with the same key is served by the first one's handler, with the wrong prefix / strip_prefix, so its requests reach the upstream under a different path",
                fi.loc(st),
            )
    # ... and the handler registered for a location is the one built for it in that iteration
    g5 = build_cfg(chk.proj, fi)
    d5 = Defs(g5)
    for n5 in g5.nodes:
        if n5.ast is None or n5.kind != "stmt":
            continue
        for c in calls(n5.ast):
            mc = method_call(c)
            if not (mc and mc[1] == "add_route" and len(c.args) >= 2):
                continue
            h = c.args[1]
            base = h.value if isinstance(h, ast.Attribute) else h  # handler.handle -> handler
            for _dn, le in (origins(d5, n5, base) if isinstance(base, ast.Name) else [(n5, base)]):
                fresh = isinstance(le, ast.Call) and not (method_call(le) and method_call(le)[1] in ("get", "setdefault", "pop"))
                if not fresh:
                    oks = False
                    chk.finding(
                        "Y5", fi.key, f"handler-shared:{norm(le)[:50] if not isinstance(le, _Sel) else repr(le)}",
                        f"the handler registered for a location can be `{norm(le) if not isinstance(le, _Sel) else repr(le)}`, one that was built for another location: it carries that location's prefix / strip_prefix / timeout, so requests are mapped or timed out by the wrong settings",
                        n5.where(),
                    )
    chk.ob("Y5", "each proxy location gets its own handler", oks)
    rr = chk.proj.func("server.router:Router.route")
    g = build_cfg(chk.proj, rr)
    heads = [n for n in g.nodes if n.kind == "for"]
    okr = bool(heads) and dotted(heads[0].ast.iter) == "self.routes"
    if okr:
        var = dotted(heads[0].ast.target)
        tests = [n for n in g.nodes if n.kind == "test" and isinstance(n.ast, ast.Call) and "_matches" in norm(n.ast.func)]
        okr = bool(tests)
        for t in tests:
            ts = [b for b, lab in g.succ[t.id] if lab == "T"]
            par = g.reach(ts, follow=normal_only)
            rets = [g.nodes[i] for i in par if g.nodes[i].kind == "stmt" and isinstance(g.nodes[i].ast, ast.Return)]
            first = g.reach(ts, blocked_nodes={r.id for r in rets if f"{var}.handler" in norm(r.ast)}, follow=normal_only)
            if heads[0].id in first or g.exit.id in first:
                okr = False
    if not okr:
        chk.finding("Y5", rr.key, "first-match", "the router does not return the first matching route's handler result", rr.loc())
    chk.ob("Y5", "Router.route: first match wins", okr)
    ar = chk.proj.func("server.router:Router.add_route")
    oka = any(method_call(c) and method_call(c)[1] == "append" and dotted(method_call(c)[0]) == "self.routes" for c in calls(ar.node))
    if not oka:
        chk.finding("Y5", ar.key, "route-order", "routes are not appended in registration order", ar.loc())
    chk.ob("Y5", "add_route appends", oka)


def run(chk: Check) -> None:
    ci = chk.proj.cls(PROXY)
    rule_y1(chk, ci)
    rule_y2(chk, ci)
    rule_y3_y4(chk, ci)
    rule_y5(chk)
    rule_y7(chk, ci)
    from .c19 import wire_fidelity

    wire_fidelity(chk, "Y6", "the proxy's client puts the joined URL on the wire with path and query as given: normalisation does not rewrite them (= C19.N1-N3)")
    from .common import client_stateless

    client_stateless(chk, "Y8", "the proxy shares one client per location, so a remembered redirect / cached target makes a later request contact another server, or another URL, than the one the handler built")
    chk.trusted = ["CPython ast parser", "engine CFG / abstract string domain", "urllib.parse: with an authority, the path is empty or starts with '/'"]
    chk.assumptions = ["how parse_url re-parses the joined string for exotic hosts is not decided (IPv6 upstreams rely on C19.N1)"]
