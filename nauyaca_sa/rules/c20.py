"""C20 - No service below TLS 1.2 and none without TLS.

Decided (structural) clauses:
  K1 every TLS context constructed anywhere in the package gets a >=1.2 floor
     on every path to the function's return, and nothing lowers it afterwards
  K2 every listener (create_server) and every connection (create_connection)
     is given such a context on every feasible path
  K3 plaintext never reaches the inner protocol of the manual-TLS wrapper
  K4 the raw TCP transport of the manual-TLS wrapper only ever carries what
     came out of the TLS engine (bio_read)
Not decided: what OpenSSL negotiates given those settings.
"""

from __future__ import annotations

import ast

from ..astutil import calls, dotted, is_none, is_self_attr, kwarg, method_call, norm, walk
from ..cfg import Resolver, build_cfg
from ..flow import Defs, origins
from ..loader import ClassInfo, FunctionInfo
from ..paths import BoolFacts, boolfacts_step, normal_only, walk_paths
from ..report import Check

EXPLANATION = (
    "Static necessary conditions of C20 decided on the source: (K1) every TLS context "
    "construction site in the package (ssl.SSLContext, ssl.create_default_context, "
    "OpenSSL.SSL.Context) is followed on every CFG path to the function's return by a "
    "minimum-version floor of TLS 1.2/1.3 on that object and by nothing that lowers it; "
    "(K2) every create_server / create_connection call receives such a context on every "
    "feasible path (path enumeration with consistent branch outcomes), or is the manual "
    "PyOpenSSL wrapper fed with a floor-carrying context; (K3) the wrapper constructs and "
    "feeds its inner protocol only after do_handshake() returned and only with bytes that "
    "came from tls_conn.recv; the raw chunk flows only into bio_write; (K4) the raw "
    "transport is written only with bio_read output. What OpenSSL negotiates is trusted."
)

CTX_CTORS = {
    "ssl.SSLContext": "stdlib",
    "ssl.create_default_context": "stdlib",
    "ssl._create_unverified_context": "stdlib",
    "ssl._create_stdlib_context": "stdlib",
    "OpenSSL.SSL.Context": "pyopenssl",
}
OK_STD_FLOOR = {"TLSv1_2", "TLSv1_3"}
OK_PYO_FLOOR = {"TLS1_2_VERSION", "TLS1_3_VERSION"}
OK_STD_PROTOCOL = {"PROTOCOL_TLS_SERVER", "PROTOCOL_TLS_CLIENT", "PROTOCOL_TLS"}
OK_PYO_METHOD = {"TLS_SERVER_METHOD", "TLS_METHOD", "TLS_CLIENT_METHOD", "SSLv23_METHOD"}
LOW_STD = {"SSLv3", "TLSv1", "TLSv1_1", "MINIMUM_SUPPORTED"}
LOW_PYO = {"SSL3_VERSION", "TLS1_VERSION", "TLS1_1_VERSION"}


def _last(d: str | None) -> str:
    return (d or "").split(".")[-1]


def _ctx_sites(chk: Check):
    """All context construction calls in the package: (fi, call, kind)."""
    res = Resolver(chk.proj)
    out = []
    for fi in chk.proj.functions.values():
        # skip nested duplicates: only direct body (walk does not descend)
        for c in calls(fi.node):
            ext = res.external_name(fi, c)
            if ext in CTX_CTORS:
                out.append((fi, c, CTX_CTORS[ext]))
    # module level
    return out


def _floor_stmt(node_ast: ast.AST, var: str, kind: str):
    """Classify a statement w.r.t. the version floor of context ``var``:
    'floor' | 'lower' | None."""
    if isinstance(node_ast, ast.Assign) and len(node_ast.targets) == 1:
        t = node_ast.targets[0]
        if isinstance(t, ast.Attribute) and dotted(t.value) == var:
            v = _last(dotted(node_ast.value))
            if t.attr == "minimum_version":
                return "floor" if v in OK_STD_FLOOR else "lower"
            if t.attr == "maximum_version":
                return "lower" if v in LOW_STD else None
            if t.attr == "options":
                return "lower" if _clears_no_tls(node_ast.value) else None
    if isinstance(node_ast, ast.AugAssign):
        t = node_ast.target
        if isinstance(t, ast.Attribute) and dotted(t.value) == var and t.attr == "options":
            if isinstance(node_ast.op, ast.BitAnd):
                return "lower" if _clears_no_tls(node_ast.value) else None
    for c in calls(node_ast):
        mc = method_call(c)
        if mc and dotted(mc[0]) == var:
            if mc[1] == "set_min_proto_version" and c.args:
                return "floor" if _last(dotted(c.args[0])) in OK_PYO_FLOOR else "lower"
            if mc[1] == "set_max_proto_version" and c.args:
                return "lower" if _last(dotted(c.args[0])) in LOW_PYO else None
            if mc[1] == "clear_options":
                return "lower"
    return None


def _clears_no_tls(expr: ast.AST) -> bool:
    return any("OP_NO_TLS" in (dotted(n) or "") for n in walk(expr))


def rule_k1(chk: Check) -> set[str]:
    chk.rule(
        "K1",
        "every TLS context construction site is followed, on every path to the function's "
        "return, by a TLS>=1.2 floor on that object; nothing afterwards lowers it; the "
        "protocol/method argument is a negotiating one",
    )
    sites = _ctx_sites(chk)
    chk.floor("K1", "TLS context construction sites", len(sites), 4)
    producers: set[str] = set()
    for fi, call, kind in sites:
        inst = f"{fi.key}:{norm(call.func)}"
        g = build_cfg(chk.proj, fi)
        node = next((n for n in g.nodes if n.ast is not None and n.kind in ("stmt", "with") and any(c is call for c in calls(n.ast))), None)
        if node is None:
            chk.finding("K1", fi.key, f"ctx:{norm(call.func)}", "context construction not in a statement the CFG models", fi.loc(call))
            chk.ob("K1", inst, False)
            continue
        # protocol / method argument
        ok_arg = True
        if call.args:
            a = _last(dotted(call.args[0]))
            if kind == "stdlib" and norm(call.func).endswith("SSLContext") and a not in OK_STD_PROTOCOL:
                ok_arg = False
            if kind == "pyopenssl" and a not in OK_PYO_METHOD:
                ok_arg = False
        if not ok_arg:
            chk.finding("K1", fi.key, f"ctx-method:{norm(call)}", f"context pinned to a legacy protocol method: {norm(call)}", fi.loc(call))
        # variable bound
        var = None
        st = node.ast
        if isinstance(st, ast.Assign) and len(st.targets) == 1 and st.value is call:
            var = dotted(st.targets[0])
        elif isinstance(st, ast.AnnAssign) and st.value is call:
            var = dotted(st.target)
        if var is None:
            chk.finding("K1", fi.key, f"ctx-unbound:{norm(call.func)}", "TLS context is used without being bound to a name, so no version floor can be applied", fi.loc(call))
            chk.ob("K1", inst, False)
            continue
        floors = {n.id for n in g.nodes if n.ast is not None and n.kind == "stmt" and _floor_stmt(n.ast, var, kind) == "floor"}
        lowers = [n for n in g.nodes if n.ast is not None and n.kind == "stmt" and _floor_stmt(n.ast, var, kind) == "lower"]
        par = g.reach([node.id], blocked_nodes=floors, follow=normal_only)
        ok = g.exit.id not in par
        if not ok:
            chk.finding(
                "K1", fi.key, f"no-floor:{var}",
                f"a path from the construction of `{var}` reaches the return without setting a TLS>=1.2 minimum version",
                fi.loc(call), g.fmt_path(g.path_to(par, g.exit.id)),
            )
        for ln in lowers:
            # a lowering statement reachable after construction
            par2 = g.reach([node.id], follow=normal_only)
            if ln.id in par2:
                ok = False
                chk.finding("K1", fi.key, f"lowered:{norm(ln.ast)}", f"TLS floor of `{var}` is lowered/cleared: {norm(ln.ast)}", ln.where())
        chk.ob("K1", inst, ok and ok_arg, f"var={var} floors={len(floors)}", evals=2 + len(lowers))
        chk.sample({"rule": "K1", "site": inst, "floor_nodes": [g.nodes[i].text(80) for i in floors]})
        if ok and ok_arg:
            # producer if the function returns that variable
            for r in walk(fi.node):
                if isinstance(r, ast.Return) and r.value is not None and dotted(r.value) == var:
                    producers.add(fi.key)
    # functions that return the result of a producer are producers too
    res = Resolver(chk.proj)
    changed = True
    while changed:
        changed = False
        for fi in chk.proj.functions.values():
            if fi.key in producers:
                continue
            rets = [r for r in walk(fi.node) if isinstance(r, ast.Return) and r.value is not None]
            if rets and all(
                isinstance(r.value, ast.Call) and (lambda t: t is not None and t.key in producers)(res.resolve(fi, r.value))
                for r in rets
            ):
                producers.add(fi.key)
                changed = True
    chk.note(f"K1 producers: {sorted(producers)}")
    return producers


def _producer_value(chk, fi: FunctionInfo, expr: ast.AST | None, producers, res) -> bool:
    if isinstance(expr, ast.Call):
        t = res.resolve(fi, expr)
        return t is not None and t.key in producers
    return False


def _manual_tls_classes(chk: Check) -> list[ClassInfo]:
    out = []
    for ci in chk.proj.classes.values():
        for m in ci.methods.values():
            if any(method_call(c) and method_call(c)[1] == "bio_write" for c in calls(m.node)):
                out.append(ci)
                break
    return out


def rule_k2(chk: Check, producers: set[str]) -> None:
    chk.rule(
        "K2",
        "each create_server call gets, on every feasible path, ssl=<context from a K1 producer> "
        "or its factory builds the manual-TLS wrapper with such a context; each "
        "create_connection passes ssl=<client context>, which the client constructor assigns "
        "on all branches from a K1 producer or the caller's own context",
    )
    res = Resolver(chk.proj)
    manual = {c.name for c in _manual_tls_classes(chk)}
    servers = []
    conns = []
    for fi in chk.proj.functions.values():
        for c in calls(fi.node):
            mc = method_call(c)
            if mc and mc[1] == "create_server":
                servers.append((fi, c))
            if mc and mc[1] in ("create_connection", "open_connection"):
                conns.append((fi, c))
            if dotted(c.func) in ("asyncio.start_server", "asyncio.open_connection"):
                (servers if "server" in dotted(c.func) else conns).append((fi, c))
    # nested functions are indexed separately AND seen in their parent's walk? no:
    # walk() does not descend into nested defs, so each call is seen once.
    chk.floor("K2", "create_server call sites", len(servers), 2)
    chk.floor("K2", "create_connection call sites", len(conns), 2)

    for fi, call in servers:
        inst = f"{fi.key}:create_server@{norm(call.args[0])[:50] if call.args else ''}"
        g = build_cfg(chk.proj, fi)
        node = next(n for n in g.nodes if n.ast is not None and n.kind == "stmt" and any(c is call for c in calls(n.ast)))
        paths = walk_paths(g, g.entry.id, BoolFacts(), boolfacts_step, stop=lambda n: n.id == node.id, follow=normal_only)
        paths = [(p, s) for p, s in paths if p[-1][0].id == node.id]
        ok = True
        sslkw = kwarg(call, "ssl")
        for p, st in paths:
            if sslkw is not None and not is_none(sslkw):
                var = dotted(sslkw)
                d = st.last_def.get(var) if var else None
                val = None
                if d is not None:
                    a = d.ast
                    val = a.value if isinstance(a, (ast.Assign, ast.AnnAssign)) else None
                good = _producer_value(chk, fi, val, producers, res)
                if not good:
                    ok = False
                    chk.finding(
                        "K2", fi.key, f"server-ssl:{var}",
                        f"create_server(ssl={var}) is reachable with `{var}` = {norm(val) if val is not None else 'undefined'} "
                        "which is not a TLS>=1.2 context from a checked producer",
                        fi.loc(call), g.fmt_path(p),
                    )
                    break
            else:
                # no ssl=: the factory must be the manual TLS wrapper with a produced context
                fac = call.args[0] if call.args else kwarg(call, "protocol_factory")
                good = False
                # the factory: a lambda, or a named local function, that returns the wrapper
                fbody = None
                if isinstance(fac, ast.Lambda) and isinstance(fac.body, ast.Call):
                    fbody = fac.body
                elif isinstance(fac, ast.Name):
                    for fd in ast.walk(fi.node):
                        if isinstance(fd, (ast.FunctionDef, ast.AsyncFunctionDef)) and fd.name == fac.id and fd is not fi.node:
                            rv = [r.value for r in ast.walk(fd) if isinstance(r, ast.Return)]
                            if len(rv) == 1 and isinstance(rv[0], ast.Call):
                                fbody = rv[0]
                if fbody is not None:
                    fac = ast.Lambda(args=None, body=fbody)
                if isinstance(fac, ast.Lambda) and isinstance(fac.body, ast.Call):
                    cname = _last(dotted(fac.body.func))
                    if cname in manual:
                        ctxargs = [a for a in fac.body.args[1:]] + [k.value for k in fac.body.keywords if k.arg == "ssl_context"]
                        for a in ctxargs:
                            v = dotted(a)
                            d = st.last_def.get(v) if v else None
                            val = d.ast.value if d is not None and isinstance(d.ast, (ast.Assign, ast.AnnAssign)) else None
                            if _producer_value(chk, fi, val, producers, res):
                                good = True
                if not good:
                    ok = False
                    chk.finding(
                        "K2", fi.key, "server-plaintext",
                        "create_server without ssl= whose factory is not the manual TLS wrapper fed with a checked context: plaintext listener",
                        fi.loc(call), g.fmt_path(p),
                    )
                    break
        if not paths:
            chk.note(f"K2: create_server at {fi.loc(call)} is unreachable on feasible paths")
        chk.ob("K2", inst, ok, f"{len(paths)} feasible paths", evals=max(1, len(paths)))
        chk.sample({"rule": "K2", "site": inst, "feasible_paths": len(paths)})

    # client side
    client_attr_ok: dict[str, bool] = {}
    for fi, call in conns:
        inst = f"{fi.key}:create_connection"
        sslkw = kwarg(call, "ssl")
        ok = True
        if sslkw is None or is_none(sslkw) or (isinstance(sslkw, ast.Constant) and sslkw.value is False):
            ok = False
            chk.finding("K2", fi.key, "conn-no-ssl", "create_connection without a TLS context (ssl= missing/None/False)", fi.loc(call))
        else:
            d = dotted(sslkw) or ""
            if isinstance(sslkw, ast.Constant) and sslkw.value is True:
                ok = False
                chk.finding("K2", fi.key, "conn-default-ssl", "create_connection(ssl=True) uses a default context without the TLS 1.2 floor", fi.loc(call))
            elif d.endswith(".ssl_context"):
                # attribute of a client object: check the class that defines it
                owner = None
                if d.startswith("self.") and fi.cls is not None:
                    owner = fi.cls
                else:
                    for t in res.receiver_types(fi, sslkw.value):  # type: ignore[attr-defined]
                        ci = chk.proj.lookup_internal(t)
                        if isinstance(ci, ClassInfo):
                            owner = ci
                if owner is None:
                    ok = False
                    chk.finding("K2", fi.key, f"conn-ssl:{d}", f"cannot resolve the owner of `{d}`", fi.loc(call))
                else:
                    if owner.key not in client_attr_ok:
                        client_attr_ok[owner.key] = _attr_always_produced(chk, owner, "ssl_context", producers, res)
                    ok = client_attr_ok[owner.key]
            else:
                # a local: all reaching definitions must be producer calls
                g = build_cfg(chk.proj, fi)
                node = next(n for n in g.nodes if n.ast is not None and any(c is call for c in calls(n.ast)))
                defs = Defs(g)
                ds = defs.at(node, d)
                if not ds or not all(_producer_value(chk, fi, v, producers, res) for _, v, _ in ds):
                    ok = False
                    chk.finding("K2", fi.key, f"conn-ssl:{d}", f"create_connection(ssl={d}): `{d}` does not come from a checked context producer on every path", fi.loc(call))
        chk.ob("K2", inst, ok)


def _attr_always_produced(chk: Check, ci: ClassInfo, attr: str, producers, res) -> bool:
    init = chk.proj.find_method(ci, "__init__")
    if init is None:
        chk.finding("K2", ci.key, f"attr:{attr}", f"{ci.name} has no __init__ assigning {attr}")
        return False
    g = build_cfg(chk.proj, init)
    def_nodes = []
    ok = True
    for n in g.nodes:
        if n.kind == "stmt" and isinstance(n.ast, (ast.Assign, ast.AnnAssign)):
            tg = n.ast.targets if isinstance(n.ast, ast.Assign) else [n.ast.target]
            if any(is_self_attr(t, attr) for t in tg):
                def_nodes.append(n)
                v = n.ast.value
                good = _producer_value(chk, init, v, producers, res) or (
                    isinstance(v, ast.Name) and v.id in init.params
                )
                if not good:
                    ok = False
                    chk.finding("K2", init.key, f"attr-value:{norm(v)}", f"self.{attr} is assigned `{norm(v)}`, which is neither a checked context producer nor the caller's own context", n.where())
    par = g.reach([g.entry.id], blocked_nodes={n.id for n in def_nodes}, follow=normal_only)
    if g.exit.id in par:
        ok = False
        chk.finding("K2", init.key, f"attr-unset:{attr}", f"a path through __init__ leaves self.{attr} unassigned", init.loc(), g.fmt_path(g.path_to(par, g.exit.id)))
    # no other method may reassign it
    for m in ci.methods.values():
        if m is init:
            continue
        for n in walk(m.node):
            if isinstance(n, (ast.Assign, ast.AnnAssign, ast.AugAssign)):
                tg = n.targets if isinstance(n, ast.Assign) else [n.target]
                if any(is_self_attr(t, attr) for t in tg):
                    ok = False
                    chk.finding("K2", m.key, f"attr-reassigned:{attr}", f"self.{attr} is reassigned outside __init__", m.loc(n))
    chk.ob("K2", f"{ci.key}.{attr} definitely assigned from producer", ok, f"{len(def_nodes)} assignment sites", evals=len(def_nodes) + 1)
    return ok


def rule_k3_k4(chk: Check) -> None:
    chk.rule(
        "K3",
        "in the manual-TLS wrapper: the inner protocol is constructed/connected only after "
        "do_handshake() returned; everything passed to inner data_received comes from "
        "tls_conn.recv; the raw chunk flows only into bio_write",
    )
    chk.rule("K4", "the raw transport of the manual-TLS wrapper is written only with tls_conn.bio_read output")
    classes = _manual_tls_classes(chk)
    chk.floor("K3", "manual TLS wrapper classes", len(classes), 1)
    res = Resolver(chk.proj)
    for ci in classes:
        # (b) raw data only into bio_write
        dr = ci.methods.get("data_received")
        if dr is None:
            chk.finding("K3", ci.key, "no-data_received", "manual TLS wrapper without data_received")
            continue
        param = [p for p in dr.params if p != "self"][0]
        bad_uses = []
        n_uses = 0
        for n in walk(dr.node):
            if isinstance(n, ast.Name) and n.id == param and isinstance(n.ctx, ast.Load):
                n_uses += 1
        ok_uses = 0
        for c in calls(dr.node):
            mc = method_call(c)
            if mc and mc[1] == "bio_write" and len(c.args) == 1 and isinstance(c.args[0], ast.Name) and c.args[0].id == param:
                ok_uses += 1
        okb = n_uses == ok_uses and ok_uses >= 1
        if not okb:
            chk.finding("K3", dr.key, f"raw-chunk:{param}", f"the raw network chunk `{param}` is used other than as the argument of bio_write ({n_uses} uses, {ok_uses} into bio_write)", dr.loc())
        chk.ob("K3", f"{dr.key}:raw chunk only into bio_write", okb, evals=n_uses)

        # (a) inner data_received args come from recv
        n_feed = 0
        for m in ci.methods.values():
            g = None
            for c in calls(m.node):
                mc = method_call(c)
                if not mc:
                    continue
                recv, name = mc
                if name == "data_received" and dotted(recv) and dotted(recv).startswith("self.") and dotted(recv) != "self":
                    n_feed += 1
                    if g is None:
                        g = build_cfg(chk.proj, m)
                        defs = Defs(g)
                    node = next(n for n in g.nodes if n.ast is not None and any(cc is c for cc in calls(n.ast)))
                    arg = c.args[0] if c.args else None
                    leaves = origins(defs, node, arg) if arg is not None else []
                    good = bool(leaves) and all(
                        isinstance(le, ast.Call) and method_call(le) and method_call(le)[1] == "recv" and "tls_conn" in norm(method_call(le)[0])
                        for _, le in leaves
                    )
                    if not good:
                        chk.finding("K3", m.key, f"inner-feed:{norm(arg)}", f"inner protocol is fed `{norm(arg)}` whose provenance is not tls_conn.recv(...)", m.loc(c))
                    chk.ob("K3", f"{m.key}:inner data_received fed from recv", good, norm(c))
        chk.floor("K3", "inner data_received feed sites", n_feed, 2)

        # (c) inner protocol creation only after handshake
        creators = []
        for m in ci.methods.values():
            for c in calls(m.node):
                d = dotted(c.func) or ""
                if d.startswith("self.") and "factory" in d:
                    creators.append((m, c))
        chk.floor("K3", "inner protocol factory call sites", len(creators), 1)
        for m, c in creators:
            # every caller chain of m inside the class must pass do_handshake() first
            okc = _only_after_handshake(chk, ci, m, set())
            if not okc:
                chk.finding("K3", m.key, "inner-before-handshake", "the inner protocol can be constructed on a path that has not passed do_handshake()", m.loc(c))
            chk.ob("K3", f"{m.key}:inner protocol only after do_handshake", okc)

        # K4 raw transport writes
        n_w = 0
        for m in ci.methods.values():
            g = None
            for c in calls(m.node):
                mc = method_call(c)
                if mc and mc[1] in ("write", "writelines", "sendall", "send") and dotted(mc[0]) == "self.transport":
                    n_w += 1
                    if g is None:
                        g = build_cfg(chk.proj, m)
                        defs = Defs(g)
                    node = next(n for n in g.nodes if n.ast is not None and any(cc is c for cc in calls(n.ast)))
                    arg = c.args[0] if c.args else None
                    leaves = origins(defs, node, arg) if arg is not None else []
                    good = bool(leaves) and all(
                        isinstance(le, ast.Call) and method_call(le) and method_call(le)[1] == "bio_read"
                        for _, le in leaves
                    )
                    if not good:
                        chk.finding("K4", m.key, f"raw-write:{norm(arg)}", f"raw TCP transport is written with `{norm(arg)}`, which is not TLS engine output (bio_read)", m.loc(c))
                    chk.ob("K4", f"{m.key}:raw write carries bio_read output", good, norm(c))
        chk.floor("K4", "raw transport write sites", n_w, 1)
    # any other class holding a reference to the wrapper must not write its raw transport
    for fi in chk.proj.functions.values():
        for c in calls(fi.node):
            mc = method_call(c)
            if mc and mc[1] in ("write", "writelines") and (dotted(mc[0]) or "").endswith("tls_protocol.transport"):
                chk.finding("K4", fi.key, f"raw-write:{norm(c)}", "raw TCP transport of the TLS wrapper written from outside the wrapper", fi.loc(c))


def _only_after_handshake(chk: Check, ci: ClassInfo, m: FunctionInfo, seen: set[str]) -> bool:
    """True iff every intra-class call chain leading to ``m`` passes a
    ``do_handshake()`` call (on the normal edge) before calling towards m."""
    if m.key in seen:
        return True
    seen = seen | {m.key}
    callers = []
    for other in ci.methods.values():
        for c in calls(other.node):
            mc = method_call(c)
            if mc and dotted(mc[0]) == "self" and mc[1] == m.node.name:
                callers.append((other, c))
    if not callers:
        return False  # an entry point reachable from outside without handshake
    for other, c in callers:
        g = build_cfg(chk.proj, other)
        node = next(n for n in g.nodes if n.ast is not None and any(cc is c for cc in calls(n.ast)))
        hs = {
            n.id for n in g.nodes if n.ast is not None and n.kind == "stmt"
            and any(method_call(cc) and method_call(cc)[1] == "do_handshake" for cc in calls(n.ast))
        }
        # leaving the handshake node by its exception edge does not count as passing
        blocked_edges = set()
        par = g.reach([g.entry.id], blocked_nodes=hs)
        direct_ok = node.id not in par
        if not direct_ok:
            # maybe this caller itself is only reached after the handshake
            if not _only_after_handshake(chk, ci, other, seen):
                return False
        else:
            # the handshake node's exc edge must not lead to the call
            for h in hs:
                for b, lab in g.succ[h]:
                    if lab in ("exc", "raise"):
                        par2 = g.reach([b], blocked_nodes=hs)
                        if node.id in par2:
                            return False
    return True


def run(chk: Check) -> None:
    producers = rule_k1(chk)
    rule_k2(chk, producers)
    rule_k3_k4(chk)
    chk.trusted = [
        "CPython ast parser",
        "engine CFG construction and call resolver",
        "OpenSSL / ssl module honour minimum_version / set_min_proto_version",
        "asyncio's SSL transport does not deliver plaintext to the protocol",
    ]
