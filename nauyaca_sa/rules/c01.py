"""C01 - Exactly one well-formed response per connection.

  W1 who-may-write: the protocol's transport is written/closed only by methods
     of the protocol class (so the machine below sees every write)
  W2 sink atomicity: in every function that writes the transport, nothing that
     can raise is evaluated between the first write and the close; every
     written path closes; no write after close (also across activations)
  W3 header shape at every header construction site: two-digit status proven
     in 10..69, one space, meta proven CR/LF-free and <= 1024 bytes, CRLF
  W4 a body is written only when the status of that same response is 2x
  W5 respond-exactly-once over all activation sequences (abstract machine):
     no second header, no write after close, no half response, and never a
     state where the connection is open, unanswered, with no pending callback
     and no armed timer
  W6 funnels: calls into handler / middleware code and task.result() sit in a
     try with a catch-all handler
Not decided: run-time ordering of timers/tasks, transport behaviour after
close, file contents, custom middleware returning an ill-formed header.
"""

from __future__ import annotations

import ast
import re

from ..astutil import calls, dotted, method_call, norm, walk
from ..cfg import Builder, Resolver, build_cfg, handler_types, inline_local, may_raise
from ..flow import Defs, _Sel, origins
from ..loader import ClassInfo, FunctionInfo
from ..paths import normal_only
from ..report import Check
from ..strdom import INT_FMT_BYTES, IntV, Interp, StrV, concat, lit
from .common import SERVER_PROTO, machine_findings, machine_floor, nodes_calling

EXPLANATION = (
    "Static necessary conditions of C01 decided on the source. (W5) An abstract state "
    "machine built from the protocol class's own inlined CFG explores every sequence of "
    "data_received / timer / done-callback / connection_lost activations and reports a "
    "second header, a write after close, a half-written response, or a reachable state in "
    "which the connection is open and unanswered with no pending callback and no armed "
    "timer. (W2) In each function that writes the transport nothing that may raise is "
    "evaluated between the first write and close(). (W3) Every header construction site "
    "(sink f-string, timeout literal, the built-in middlewares' rejection strings) is "
    "evaluated path-sensitively in an abstract string/integer domain: status proven in "
    "10..69, meta proven CR/LF-free and at most 1024 bytes through whatever sanitiser the "
    "domain can see through, CRLF terminator. (W4) On every path that writes a body the "
    "status interpolated into that response's header is proven 2x. (W1/W6) only protocol "
    "methods touch the transport; foreign code is called inside catch-all funnels. "
    "Event ordering at run time and behaviour of transports after close() are not decided. "
    "(W7) A strict .encode() in a response sink before the first write is either applied to a provably surrogate-free string (flow-sensitive provenance) or caught on every call chain up to the asyncio callback. "
    "(W8) The request-line parsers raise only ValueError: constant subscripts are dominated by an existence test (or the protocol catches everything around the parser). "
    "(W9) = C15.X5: the transport facade's close() reaches the TCP close on every normal path."
    " (W11) = C15.X6: the package's own log processors cannot raise, so a log call before the write cannot lose the response."
    ' (W12) every method the protocol calls on self.transport exists on TLSTransportWrapper (the transport it is given on the PyOpenSSL backend).'
)

HEADER_RE = re.compile(r"^[1-6][0-9] [^\r\n]*\r\n$")


def _transport_calls(fi: FunctionInfo, names: set[str]) -> list[ast.Call]:
    return [c for c in calls(fi.node) if method_call(c) and dotted(method_call(c)[0]) == "self.transport" and method_call(c)[1] in names]


def rule_w1(chk: Check) -> list[FunctionInfo]:
    chk.rule("W1", "the server protocol's transport is written and closed only by methods of the protocol class")
    ci = chk.proj.cls(SERVER_PROTO)
    sinks = [fi for fi in ci.methods.values() if _transport_calls(fi, {"write", "writelines"})]
    chk.floor("W1", "functions writing the transport", len(sinks), 2)
    # outside the class: anything reaching <protocol>.transport.write
    bad = 0
    for fi in chk.proj.functions.values():
        if fi.cls is ci:
            continue
        for c in calls(fi.node):
            mc = method_call(c)
            if mc and mc[1] in ("write", "writelines", "close") and (dotted(mc[0]) or "").endswith("inner_protocol.transport"):
                bad += 1
                chk.finding("W1", fi.key, f"foreign-write:{norm(c)}", "the server protocol's transport is written from outside the protocol class", fi.loc(c))
    chk.ob("W1", f"{ci.key}: writers={sorted(f.node.name for f in sinks)}", bad == 0, evals=len(chk.proj.functions))
    chk.sample({"rule": "W1", "sinks": sorted(f.key for f in sinks)})
    return sinks


def _w2_may_raise(node_ast: ast.AST) -> bool:
    """May evaluating this statement raise?  Stricter than "contains a call":
    slicing a plain name, range()/len()/min()/max() of such, and the transport's
    own write/close are treated as non-raising."""
    import copy

    class Strip(ast.NodeTransformer):
        def visit_Subscript(self, n):  # noqa: N802
            self.generic_visit(n)
            if isinstance(n.slice, ast.Slice) and isinstance(n.value, ast.Name):
                return ast.copy_location(ast.Name(id=n.value.id, ctx=ast.Load()), n)
            return n

        def visit_Call(self, n):  # noqa: N802
            self.generic_visit(n)
            if isinstance(n.func, ast.Name) and n.func.id in ("range", "len", "min", "max") and not any(isinstance(x, (ast.Call, ast.Subscript, ast.Await)) for a in n.args for x in ast.walk(a)):
                return ast.copy_location(ast.Constant(value=0), n)
            return n

    probe = Strip().visit(copy.deepcopy(node_ast))
    if isinstance(probe, ast.For):
        probe = ast.Expr(value=probe.iter)
    return may_raise(probe)


def rule_w2(chk: Check, sinks: list[FunctionInfo]) -> None:
    chk.rule("W2", "between the first transport write and close() in a sink nothing that may raise is evaluated; each written path closes")
    for fi in sinks:
        g = build_cfg(chk.proj, fi)
        wn = nodes_calling(g, lambda c: method_call(c) is not None and dotted(method_call(c)[0]) == "self.transport" and method_call(c)[1] in ("write", "writelines"))
        cn = {n.id for n in nodes_calling(g, lambda c: method_call(c) is not None and dotted(method_call(c)[0]) == "self.transport" and method_call(c)[1] in ("close", "abort"))}
        ok = True
        # (c) every path from a write reaches close before the exit
        for w in wn:
            par = g.reach([w.id], blocked_nodes=cn, follow=normal_only)
            if g.exit.id in par:
                ok = False
                chk.finding("W2", fi.key, f"write-without-close:{norm(w.ast)[:60]}", "a path writes to the transport and returns without closing it", w.where(), g.fmt_path(g.path_to(par, g.exit.id)))
        # (b) nothing that may raise between first write and close
        first = [w for w in wn if not any(o.id != w.id and w.id in g.reach([o.id], follow=normal_only) for o in wn)]
        for w in first:
            par = g.reach([w.id], blocked_nodes=cn, follow=normal_only)
            for nid in par:
                n = g.nodes[nid]
                if n.ast is None or n.kind not in ("stmt", "test", "with"):
                    continue
                risky = _w2_may_raise(n.ast) if n.id != w.id else False
                if n.id == w.id:
                    # arguments of the first write are evaluated before it writes
                    continue
                if risky:
                    ok = False
                    chk.finding(
                        "W2", fi.key, f"may-raise-after-write:{norm(n.ast)[:70]}",
                        f"`{norm(n.ast)[:90]}` is evaluated after the header was written and before close(): if it raises, the response is left half-written or the caller's error path writes a second header",
                        n.where(),
                    )
        # (a) no write reachable after close
        for c in cn:
            par = g.reach([c], follow=normal_only)
            for w in wn:
                if w.id in par and w.id != c:
                    ok = False
                    chk.finding("W2", fi.key, f"write-after-close:{norm(w.ast)[:60]}", "a transport write is reachable after close() in the same function", w.where())
        chk.ob("W2", f"{fi.key}: {len(wn)} write sites, {len(cn)} close sites", ok, evals=len(wn) + len(cn))


# ---------------------------------------------------------------- W3 / W4
def _strip_encode(e: ast.AST) -> ast.AST:
    while isinstance(e, ast.Call) and method_call(e) and method_call(e)[1] == "encode":
        e = method_call(e)[0]
    return e


def _header_pieces(interp: Interp, expr: ast.AST, st: dict, resolve=None, depth: int = 0):
    """Abstract pieces of a header expression: list of (AbsVal, is_int_render,
    IntV|None).  ``resolve(name_expr)`` maps a local name inside a
    concatenation to its (single) defining expression and the state there."""
    expr = _strip_encode(expr)
    if isinstance(expr, ast.Constant) and isinstance(expr.value, (str, bytes)):
        return [(lit(expr.value if isinstance(expr.value, str) else expr.value.decode("latin-1")), False, None)]
    if isinstance(expr, ast.JoinedStr):
        out = []
        for p in expr.values:
            if isinstance(p, ast.Constant):
                out.append((lit(p.value), False, None))
            else:
                v = interp.eval(p.value, st)
                if isinstance(v, IntV):
                    out.append((interp._to_str(v, p), True, v))
                else:
                    out.append((interp._to_str(v, p), False, None))
        return out
    if isinstance(expr, ast.BinOp) and isinstance(expr.op, ast.Add):
        return _header_pieces(interp, expr.left, st, resolve, depth) + _header_pieces(interp, expr.right, st, resolve, depth)
    if isinstance(expr, ast.Name) and resolve is not None and depth < 4:
        r = resolve(expr)
        if r is not None:
            leaf, st2 = r
            if not (isinstance(leaf, ast.Name) and leaf.id == expr.id):
                return _header_pieces(interp, leaf, st2, resolve, depth + 1)
    v = interp.eval(expr, st)
    if isinstance(v, StrV):
        if v.kind == "bytes" and isinstance(v.exact, bytes):
            v = lit(v.exact.decode("latin-1"))
        return [(v, False, None)]
    return [(StrV("str"), False, None)]


def _status_expr(leaf: ast.AST, resolve, depth: int = 0):
    """The expression interpolated as the status (first formatted value)."""
    leaf = _strip_encode(leaf)
    if isinstance(leaf, ast.JoinedStr) and leaf.values and isinstance(leaf.values[0], ast.FormattedValue):
        return leaf.values[0].value
    if isinstance(leaf, ast.BinOp) and isinstance(leaf.op, ast.Add):
        return _status_expr(leaf.left, resolve, depth)
    if isinstance(leaf, ast.Name) and resolve is not None and depth < 4:
        r = resolve(leaf)
        if r is not None and not (isinstance(r[0], ast.Name) and r[0].id == leaf.id):
            return _status_expr(r[0], resolve, depth + 1)
    return None


def split_body(pieces):
    """Single-write idiom ``header + body``: pieces after the first literal
    that ends with CRLF belong to the body."""
    for i, (v, _, _) in enumerate(pieces):
        if isinstance(v.exact, str) and v.exact.endswith("\r\n"):
            return pieces[: i + 1], pieces[i + 1 :]
    return pieces, []


def check_header(pieces) -> tuple[bool, str, IntV | None]:
    """Shape ``DD SP meta CRLF``.  Returns (ok, reason, status interval)."""
    full = lit("")
    for v, _, _ in pieces:
        full = concat(full, v)
    if isinstance(full, StrV) and isinstance(full.exact, str):
        s = full.exact
        if not HEADER_RE.match(s):
            return False, f"literal header {s!r} is not `DD SP meta CRLF` with DD in 10..69", None
        if len(s[3:-2].encode()) > 1024:
            return False, "literal meta longer than 1024 bytes", None
        return True, "literal", IntV(int(s[:2]), int(s[:2]))
    if not pieces:
        return False, "empty header", None
    # status
    v0, is_int, iv = pieces[0]
    rest = pieces[1:]
    status: IntV | None = None
    lead = ""
    if is_int and iv is not None:
        if not iv.within(10, 69):
            return False, f"status {iv} is not proven to be within 10..69", iv
        status = iv
    elif isinstance(v0.exact, str) and re.match(r"^[1-6][0-9] ", v0.exact):
        status = IntV(int(v0.exact[:2]), int(v0.exact[:2]))
        lead = v0.exact[2:]
        rest = [(lit(lead), False, None)] + rest
    else:
        return False, f"header does not start with a proven two-digit status (first piece {v0})", None
    if not rest:
        return False, "header has no space/meta/CRLF after the status", status
    sp = rest[0][0]
    if not (isinstance(sp.exact, str) and sp.exact.startswith(" ")):
        return False, "status is not followed by a literal space", status
    last = rest[-1][0]
    if not (isinstance(last.exact, str) and last.exact.endswith("\r\n")):
        return False, "header does not end with a literal CRLF", status
    # meta = everything between the first space and the final CRLF
    metas = []
    for i, (v, _, _) in enumerate(rest):
        e = v
        if i == 0:
            e = lit(v.exact[1:])  # type: ignore[index]
        if i == len(rest) - 1:
            base = e.exact if i == 0 else v.exact
            e = lit(base[:-2])  # type: ignore[index]
        metas.append(e)
    total = 0
    for e in metas:
        if not (e.no_cr and e.no_lf):
            return False, f"meta piece {e} is not proven free of CR/LF", status
        if e.maxb is None:
            return False, f"meta piece {e} has no proven byte bound (<= 1024 required)", status
        total += e.maxb
    if total > 1024 + INT_FMT_BYTES:
        return False, f"meta may be {total} bytes (> 1024)", status
    return True, f"status {status}, meta <= {total} bytes, CR/LF-free", status


def _leaf_exprs(g, defs, node, arg):
    """Origin expressions of a written/returned value (through local copies and
    a trailing .encode())."""
    arg = _strip_encode(arg)
    out = []
    for dn, leaf in origins(defs, node, arg):
        leaf2 = _strip_encode(leaf) if not isinstance(leaf, _Sel) else leaf
        if isinstance(leaf2, ast.Name) and leaf2 is not leaf:
            out += _leaf_exprs(g, defs, dn, leaf2)
        else:
            out.append((dn, leaf2))
    return out


def _reassigned(path, frm, to, expr: ast.AST) -> bool:
    """Is any name read by ``expr`` assigned on the path strictly between
    node ``frm`` and node ``to``?"""
    names = {dotted(n) for n in walk(expr) if isinstance(n, (ast.Name, ast.Attribute))}
    inside = False
    for n, _lab in path:
        if n.id == to.id:
            break
        if inside and n.kind == "stmt" and isinstance(n.ast, (ast.Assign, ast.AnnAssign, ast.AugAssign)):
            tg = n.ast.targets if isinstance(n.ast, ast.Assign) else [n.ast.target]
            for t in tg:
                for sub in walk(t):
                    if dotted(sub) in names:
                        return True
        if n.id == frm.id:
            inside = True
    return False


def rule_w3_w4(chk: Check, sinks: list[FunctionInfo]) -> None:
    chk.rule("W3", "every header construction site yields `DD SP meta CRLF`: status proven 10..69, meta proven CR/LF-free and <= 1024 bytes (abstract string/int domain, path-sensitive)")
    chk.rule("W4", "on every path that writes a body, the status of that response's header is proven 2x")
    n_sites = 0
    sink_names = {f.node.name for f in sinks}
    for fi in sinks:
        # helpers extracted from the sink are inlined; other sinks are analysed on their own
        pol = lambda caller, call, callee, depth, _s=sink_names: inline_local(caller, call, callee, depth) and callee.node.name not in _s  # noqa: E731
        g = Builder(chk.proj, pol, 3).build(fi)
        defs = Defs(g)
        interp = Interp(chk.proj, fi)
        wnodes = nodes_calling(g, lambda c: method_call(c) is not None and dotted(method_call(c)[0]) == "self.transport" and method_call(c)[1] == "write")
        # static pass: origin of each written value
        origin: dict[int, list] = {}
        for w in wnodes:
            call = next(c for c in calls(w.ast) if method_call(c) and method_call(c)[1] == "write" and dotted(method_call(c)[0]) == "self.transport")
            origin[w.id] = _leaf_exprs(g, defs, w, call.args[0]) if call.args else []
        watch_nodes = {w.id for w in wnodes}
        for w in wnodes:
            for dn, leaf in origin[w.id]:
                watch_nodes.add(dn.id)

        for n in g.nodes:
            if n.kind == "stmt" and isinstance(n.ast, (ast.Assign, ast.AnnAssign, ast.AugAssign, ast.Return)):
                watch_nodes.add(n.id)

        def watch(node, _wn=watch_nodes):
            return [ast.Constant(value=0)] if node.id in _wn else []

        results = interp.run_paths(g, watch)
        n_paths = 0
        bad_hdr: dict[str, str] = {}
        bad_body: dict[str, str] = {}
        ok_hdr = 0
        for path, (st_end, recs) in results:
            if path[-1][0].kind != "exit":
                continue
            seen_state = {node.id: st for node, _v, st in recs}
            writes_on_path = [node for node, _v, _s in recs if node.id in origin]
            if not writes_on_path:
                continue
            n_paths += 1
            hdr = writes_on_path[0]
            status = None
            status_expr = None
            hdr_def = None
            for dn, leaf in origin[hdr.id]:
                key = f"{norm(leaf)[:70] if not isinstance(leaf, _Sel) else repr(leaf)}"
                if isinstance(leaf, _Sel):
                    if leaf.selector == "param" or (isinstance(leaf.selector, tuple) and leaf.selector[0] == "unpack"):
                        # relayed from a middleware component: producers are checked below
                        chk.note(f"W3: {fi.key} relays a header produced elsewhere ({leaf!r}); built-in producers are checked at their return sites")
                        continue
                st_at = seen_state.get(dn.id, st_end)

                def resolve(name_expr, _dn=dn, _seen=seen_state, _end=st_end):
                    ls = _leaf_exprs(g, defs, _dn, name_expr)
                    if len(ls) != 1 or isinstance(ls[0][1], _Sel):
                        return None
                    return ls[0][1], _seen.get(ls[0][0].id, _end)

                pieces, body_pieces = split_body(_header_pieces(interp, leaf, st_at, resolve))
                ok, why, stt = check_header(pieces)
                if ok and body_pieces:
                    # single-write form: W4 on the appended body
                    nonempty = [v for v, _, _ in body_pieces if not (v.exact is not None and len(v.exact) == 0)]
                    sv = stt
                    sx = _status_expr(leaf, resolve)
                    if sx is not None:
                        v2 = interp.eval(sx, seen_state.get(hdr.id, st_end))
                        if isinstance(v2, IntV):
                            sv = v2
                    if nonempty and (sv is None or not sv.within(20, 29)):
                        bad_body[norm(hdr.ast)[:70]] = f"body appended to the header with status {sv}"
                if ok:
                    ok_hdr += 1
                    status = stt
                    hdr_def = dn
                    lf = _strip_encode(leaf)
                    if isinstance(lf, ast.JoinedStr) and lf.values and isinstance(lf.values[0], ast.FormattedValue):
                        status_expr = lf.values[0].value
                else:
                    bad_hdr[key] = why
            for body in writes_on_path[1:]:
                stv = status
                if status_expr is not None and hdr_def is not None and not _reassigned(path, hdr_def, body, status_expr):
                    # same variable, later knowledge (e.g. refined by the is_success
                    # test): the last recorded state of the activation that built the
                    # header, before this body write
                    st_body = None
                    for node, _v, stt_ in recs:
                        if node.id == body.id:
                            break
                        if node.stack == hdr_def.stack:
                            st_body = stt_
                    s_expr = status_expr
                    if body.stack == hdr_def.stack:
                        st_body = seen_state.get(body.id, st_body)
                    else:
                        # the header was assembled in a helper: follow its status parameter back
                        # to the expression the writing function passed, and evaluate that at the
                        # body write
                        from ..flow import _bindings

                        stack, e2 = hdr_def.stack, status_expr
                        while stack != body.stack and stack and len(stack) > len(body.stack):
                            b_ = _bindings(g.nodes[stack[-1]])
                            if isinstance(e2, ast.Name) and e2.id in b_:
                                e2, stack = b_[e2.id], stack[:-1]
                            else:
                                break
                        if stack == body.stack and body.id in seen_state:
                            s_expr, st_body = e2, seen_state[body.id]
                    v = interp.eval(s_expr, st_body) if st_body is not None else None
                    if isinstance(v, IntV):
                        stv = v
                if stv is None or not stv.within(20, 29):
                    bad_body[norm(body.ast)[:70]] = f"body write reachable with header status {stv}"
        for key, why in bad_hdr.items():
            chk.finding("W3", fi.key, f"header:{key}", f"header built from `{key}`: {why}", fi.loc())
        for key, why in bad_body.items():
            chk.finding("W4", fi.key, f"body:{key}", f"{why}: a body may be sent with a non-2x response", fi.loc())
        n_sites += len(wnodes)
        chk.ob("W3", f"{fi.key}: header sites on {n_paths} writing paths", not bad_hdr, f"{ok_hdr} header evaluations proven", evals=max(1, n_paths))
        if any(len([n for n, _v, _s in recs if n.id in origin]) > 1 for _p, (_s, recs) in results):
            chk.ob("W4", f"{fi.key}: body only with 2x", not bad_body, evals=max(1, n_paths))
        chk.sample({"rule": "W3", "sink": fi.key, "writing_paths": n_paths, "header_origins": {g.nodes[k].text(60): [norm(l)[:80] if not isinstance(l, _Sel) else repr(l) for _d, l in v] for k, v in origin.items()}})
    chk.floor("W3", "transport write sites", n_sites, 3)

    # producers of rejection headers: `return False, <header>` in middleware classes
    mw = chk.proj.module("server.middleware")
    n_prod = 0
    for ci in mw.classes.values():
        fi = ci.methods.get("process_request")
        if fi is None:
            continue
        body = [s for s in fi.node.body if not (isinstance(s, ast.Expr) and isinstance(s.value, ast.Constant))]
        if not body or (len(body) == 1 and isinstance(body[0], ast.Expr)):
            continue  # Protocol stub
        g = build_cfg(chk.proj, fi)
        defs = Defs(g)
        interp = Interp(chk.proj, fi)
        rets = [n for n in g.nodes if n.kind == "stmt" and isinstance(n.ast, ast.Return) and isinstance(n.ast.value, ast.Tuple) and len(n.ast.value.elts) == 2]
        watch_ids = set()
        leafs: dict[int, list] = {}
        for r in rets:
            first = r.ast.value.elts[0]
            if isinstance(first, ast.Constant) and first.value is True:
                continue
            leafs[r.id] = _leaf_exprs(g, defs, r, r.ast.value.elts[1])
            watch_ids.add(r.id)
            for dn, _l in leafs[r.id]:
                watch_ids.add(dn.id)
        if not leafs:
            continue
        results = interp.run_paths(g, lambda node, _w=watch_ids: [ast.Constant(value=0)] if node.id in _w else [])
        bad: dict[str, str] = {}
        proven = 0
        for path, (st_end, recs) in results:
            seen_state = {node.id: st for node, _v, st in recs}
            for node, _v, _s in recs:
                if node.id in leafs:
                    for dn, leaf in leafs[node.id]:
                        if isinstance(leaf, _Sel):
                            continue  # relayed from a component (MiddlewareChain)
                        if isinstance(leaf, ast.Constant) and leaf.value is None:
                            continue  # rejection without text: the protocol answers 40 itself (W5)
                        n_prod += 1
                        ok, why, _stt = check_header(_header_pieces(interp, leaf, seen_state.get(dn.id, st_end)))
                        if ok:
                            proven += 1
                        else:
                            bad[norm(leaf)[:70]] = why
        for key, why in bad.items():
            chk.finding("W3", fi.key, f"reject-header:{key}", f"rejection response `{key}`: {why}", fi.loc())
        chk.ob("W3", f"{fi.key}: rejection headers", not bad, f"{proven} evaluations proven", evals=max(1, proven))
    chk.floor("W3", "middleware rejection header evaluations", n_prod, 4)


def rule_w5(chk: Check) -> None:
    chk.rule(
        "W5",
        "over every activation sequence of the protocol: no second header, no write after close, no half response, and never open+unanswered with no pending callback and no armed timer",
    )
    mach = machine_findings(
        chk, "W5", {"write-after-close", "second-header", "half-response", "orphan"},
        "exactly one response over all activation sequences",
    )
    machine_floor(chk, "W5", mach, write=2, close=1, pending=1, cancel=1)


def rule_w6(chk: Check) -> None:
    chk.rule("W6", "calls into handler/middleware code and task.result() are inside a try with a catch-all handler")
    ci = chk.proj.cls(SERVER_PROTO)
    n = 0
    for fi in ci.methods.values():
        g = None
        for c in calls(fi.node):
            d = dotted(c.func) or ""
            mc = method_call(c)
            foreign = d == "self.request_handler" or (mc and mc[1] == "result" and isinstance(mc[0], ast.Name) and mc[0].id in fi.params)
            if not foreign:
                continue
            n += 1
            if g is None:
                g = build_cfg(chk.proj, fi)
            node = next(x for x in g.nodes if x.ast is not None and x.kind in ("stmt", "test") and any(cc is c for cc in calls(x.ast)))
            hs = [g.nodes[b] for b, lab in g.succ[node.id] if lab == "exc" and g.nodes[b].kind == "handler"]
            catch_all = any(t in (None, "Exception", "BaseException") for h in hs for t in handler_types(h.ast))
            escapes = any(lab == "exc" and g.nodes[b].kind == "raise_exit" for b, lab in g.succ[node.id])
            ok = catch_all and not escapes
            if not ok:
                chk.finding("W6", fi.key, f"unfunnelled:{norm(c)[:50]}", f"`{norm(c)}` runs foreign code outside a catch-all try: an exception escapes the callback and no response is ever written", fi.loc(c))
            chk.ob("W6", f"{fi.key}:{norm(c)[:50]}", ok)
            if mc and mc[1] == "result":
                # Task.result() raises CancelledError when the task ended cancelled, and that is a
                # BaseException: `except Exception` lets it through.  It must be caught (bare
                # except, BaseException or CancelledError), or ruled out by a cancelled() test.
                types = {t for h in hs for t in handler_types(h.ast)}
                covered = bool(types & {None, "BaseException", "CancelledError", "asyncio.CancelledError"})
                guarded = False
                for t in g.nodes:
                    if t.kind == "test" and t.ast is not None and any(method_call(x) and method_call(x)[1] == "cancelled" and dotted(method_call(x)[0]) == dotted(mc[0]) for x in calls(t.ast)):
                        blocked = {(t.id, b, lab) for b, lab in g.succ[t.id] if lab == "F"}
                        if node.id not in g.reach([g.entry.id], blocked_edges=blocked) or node.id not in g.reach([g.entry.id], blocked_edges={(t.id, b, lab) for b, lab in g.succ[t.id] if lab == "T"}):
                            guarded = True
                okc = covered or guarded
                if not okc:
                    chk.finding(
                        "W6", fi.key, f"cancelled-task:{norm(c)[:40]}",
                        f"`{norm(c)}` raises CancelledError when the handler / middleware task ended cancelled; that is a BaseException, the surrounding `except {sorted(str(t) for t in types)}` does not catch it, so the done-callback dies: nothing is written and the connection is never closed",
                        fi.loc(c),
                    )
                chk.ob("W6", f"{fi.key}:{norm(c)[:40]} cancelled task handled", okc)
    chk.floor("W6", "foreign-code call sites", n, 4)


# ---------------------------------------------------------------- W7
_CATCHES_UNICODE = {None, "Exception", "BaseException", "ValueError", "UnicodeError", "UnicodeEncodeError"}


def _surrogate_free(defs: Defs, node, e: ast.AST, depth: int = 0) -> bool:
    """Can `e` (a str expression evaluated at `node`) be proven free of lone
    surrogates, so that a strict .encode("utf-8") of it cannot raise?
    Constants, numbers, results of bytes.decode with errors strict / ignore /
    replace, and strings assembled from such parts are; text handed in from
    handlers / middleware is not.  Names are followed through their reaching
    definitions (flow-sensitive)."""
    if depth > 10:
        return False
    sf = lambda x, n=node: _surrogate_free(defs, n, x, depth + 1)  # noqa: E731
    if isinstance(e, ast.Constant):
        return True
    if isinstance(e, ast.JoinedStr):
        return all(isinstance(v, ast.Constant) or sf(v.value) for v in e.values)
    if isinstance(e, ast.BinOp) and isinstance(e.op, (ast.Add, ast.Mod)):
        return sf(e.left) and sf(e.right)
    if isinstance(e, ast.Call):
        mc = method_call(e)
        if mc is not None:
            recv, name = mc
            if name == "decode":
                errs = e.args[1] if len(e.args) > 1 else next((k.value for k in e.keywords if k.arg == "errors"), None)
                return errs is None or (isinstance(errs, ast.Constant) and errs.value in ("strict", "ignore", "replace"))
            if name in ("replace", "strip", "lstrip", "rstrip", "lower", "upper", "ljust", "rjust"):
                return sf(recv) and all(sf(a) for a in e.args)
        if (dotted(e.func) or "") in ("str", "repr") and e.args:
            return _int_like(e.args[0]) or sf(e.args[0])
        # a helper of the package: surrogate-free if every value it returns is (its
        # parameters are not assumed to be)
        if _PROJ7[0] is not None and depth < 6:
            try:
                callee = Resolver(_PROJ7[0]).resolve(node.func, e)
            except Exception:  # noqa: BLE001
                callee = None
            if callee is not None and callee.node.name != "__init__":
                g2 = build_cfg(_PROJ7[0], callee)
                d2 = Defs(g2)
                rets = [x for x in g2.nodes if x.kind == "stmt" and isinstance(x.ast, ast.Return)]
                return bool(rets) and all(r.ast.value is not None and _surrogate_free(d2, r, r.ast.value, depth + 1) for r in rets)
        return False
    if isinstance(e, ast.Name):
        ds = defs.at(node, e.id)
        if not ds:
            # a module-level string constant (possibly imported)
            cv = _PROJ7[0].const_value(node.func.module, e.id) if _PROJ7[0] is not None else None
            return isinstance(cv, (str, int))
        for dn, val, sel in ds:
            if val is None or sel is not None:
                return False  # parameter, loop target, unpacking ...
            if not (_int_like(val) or _surrogate_free(defs, dn, val, depth + 1)):
                return False
        return True
    if isinstance(e, ast.Attribute):
        return e.attr in ("status", "value")  # integers render as digits
    if isinstance(e, ast.IfExp):
        return sf(e.body) and sf(e.orelse)
    return False


_PROJ7: list = [None]


def _int_like(v: ast.AST) -> bool:
    return (isinstance(v, ast.Constant) and isinstance(v.value, int)) or (isinstance(v, ast.Attribute) and v.attr in ("status", "value"))


def _contained(proj, ci: ClassInfo, fi: FunctionInfo, inner: ast.AST, seen: set, chain: list[str], catches=None) -> list[str] | None:
    """None if an exception (UnicodeEncodeError) raised at `inner` inside `fi`
    is always caught before it leaves a protocol callback; otherwise the call
    chain along which it escapes."""
    for t in walk(fi.node):
        if isinstance(t, ast.Try) and any(sub is inner for b in t.body for sub in ast.walk(b)):
            for h in t.handlers:
                if any(x in (catches or _CATCHES_UNICODE) for x in handler_types(h)):
                    return None
    if fi.key in seen:
        return None
    seen = seen | {fi.key}
    callers = []
    for m in ci.methods.values():
        for c in calls(m.node):
            if dotted(c.func) == f"self.{fi.node.name}":
                callers.append((m, c))
    if not callers:
        return chain + [fi.node.name]  # an entry point (asyncio callback / done-callback): the exception escapes
    for m, c in callers:
        esc = _contained(proj, ci, m, c, seen, chain + [fi.node.name], catches)
        if esc is not None:
            return esc
    return None


def rule_w7(chk: Check, sinks: list[FunctionInfo]) -> None:
    chk.rule("W7", "sink totality: a strict .encode() of text supplied by a handler or middleware, evaluated in a response sink before anything is written, cannot leave the protocol callback uncaught (it would end the connection without any response)")
    ci = chk.proj.cls(SERVER_PROTO)
    _PROJ7[0] = chk.proj
    n = 0
    for fi in sinks:
        g = build_cfg(chk.proj, fi)
        defs = Defs(g)
        for c in calls(fi.node):
            mc = method_call(c)
            if not (mc and mc[1] == "encode"):
                continue
            node = next((x for x in g.nodes if x.ast is not None and x.kind in ("stmt", "test") and any(cc is c for cc in calls(x.ast))), None)
            if node is None:
                continue
            errs = c.args[1] if len(c.args) > 1 else next((k.value for k in c.keywords if k.arg == "errors"), None)
            if errs is not None and not (isinstance(errs, ast.Constant) and errs.value == "strict"):
                continue  # replace / ignore / surrogateescape... do not raise on text
            n += 1
            safe = _surrogate_free(defs, node, mc[0])
            esc = None if safe else _contained(chk.proj, ci, fi, c, set(), [])
            ok = safe or esc is None
            if not ok:
                chk.finding(
                    "W7", fi.key, f"encode-may-escape:{norm(c)[:50]}",
                    f"`{norm(c)}` encodes text supplied by a handler/middleware strictly; a lone surrogate (e.g. a directory listing with a file name that is not valid UTF-8) raises UnicodeEncodeError before anything is written, and along {' <- '.join(esc)} no handler catches it: the exception leaves the asyncio callback and the client gets no response at all",
                    fi.loc(c),
                )
            chk.ob("W7", f"{fi.key}: `{norm(c)[:50]}` cannot escape", ok, "provably surrogate-free" if safe else ("caught by every caller" if ok else "escapes"))
    chk.ob("W7", "strict encodes in response sinks examined", True, f"{n} sites", nontrivial=False)


def rule_w8(chk: Check) -> None:
    """The request parser fails with ValueError only.  The protocol answers 59
    from `except ValueError` around the parser; any other exception type raised
    on a request line leaves data_received uncaught and the client without a
    response.  Catalogue: an integer-indexed or string-keyed subscript load on a
    local whose emptiness / key presence no dominating test has established."""
    chk.rule("W8", "the request-line parsers raise nothing but ValueError on client input: every constant-index / constant-key subscript load on a local is dominated by a test that the element / key exists (unless the protocol catches everything around the parser)")
    ci = chk.proj.cls(SERVER_PROTO)
    # does the protocol catch everything around the parser calls?
    catch_all = True
    n_sites = 0
    for m in ci.methods.values():
        for t in walk(m.node):
            if isinstance(t, ast.Try) and any(method_call(c) and method_call(c)[1] == "from_line" for b in t.body for c in calls(b)):
                n_sites += 1
                if not any(x in (None, "Exception", "BaseException") for h in t.handlers for x in handler_types(h)):
                    catch_all = False
    chk.require("W8", ci.key, "guarded request-parser calls", n_sites, 1, "the protocol no longer parses the request line inside a try block")
    if catch_all and n_sites:
        chk.ob("W8", "the protocol catches every exception around the parser", True)
        return
    parsers = [f for f in chk.proj.functions.values() if f.node.name == "from_line" and f.module.name == "protocol.request"]
    n = 0
    for fi in parsers:
        g = Builder(chk.proj, lambda caller, call, callee, depth: callee.module.name in ("protocol.request", "utils.url") and callee.node.name not in ("from_line", "__init__"), 3).build(fi)
        for node in g.nodes:
            if node.ast is None or node.kind not in ("stmt", "test", "for"):
                continue
            probe = node.ast.iter if node.kind == "for" and isinstance(node.ast, (ast.For, ast.AsyncFor)) else node.ast
            for sub in walk(probe):
                if not (isinstance(sub, ast.Subscript) and isinstance(sub.ctx, ast.Load) and isinstance(sub.value, ast.Name)):
                    continue
                idx = sub.slice
                if isinstance(idx, ast.UnaryOp) and isinstance(idx.op, ast.USub) and isinstance(idx.operand, ast.Constant):
                    key = -idx.operand.value
                elif isinstance(idx, ast.Constant) and isinstance(idx.value, (int, str)) and not isinstance(idx.value, bool):
                    key = idx.value
                else:
                    continue
                name = sub.value.id
                if name in ("dict", "list", "tuple", "set", "type"):
                    continue  # annotations
                n += 1
                blocked = set()
                # the value may have been tested in a caller before it was passed down: follow
                # the parameter binding through the enclosing activations
                from ..flow import _bindings

                levels = {node.stack: name}
                stk, nm_ = node.stack, name
                while stk:
                    enter = g.nodes[stk[-1]]
                    arg = _bindings(enter).get(nm_) if nm_ in (enter.extra.get("callee").params if enter.extra.get("callee") else ()) else None
                    if not isinstance(arg, ast.Name):
                        break
                    stk, nm_ = stk[:-1], arg.id
                    levels[stk] = nm_
                for t in g.nodes:
                    if t.kind != "test" or t.ast is None or t.stack not in levels:
                        continue
                    name = levels[t.stack]
                    a, flip = t.ast, False
                    while isinstance(a, ast.UnaryOp) and isinstance(a.op, ast.Not):
                        a, flip = a.operand, not flip
                    sat = None
                    if isinstance(key, str) and isinstance(a, ast.Compare) and len(a.ops) == 1 and isinstance(a.ops[0], (ast.In, ast.NotIn)) and isinstance(a.left, ast.Constant) and a.left.value == key and dotted(a.comparators[0]) == name:
                        sat = "T" if isinstance(a.ops[0], ast.In) else "F"
                    elif isinstance(key, int) and dotted(a) == name:
                        sat = "T"  # non-empty
                    elif isinstance(key, int) and isinstance(a, ast.Compare) and len(a.ops) == 1 and norm(a.left) == f"len({name})" and isinstance(a.ops[0], (ast.Gt, ast.GtE, ast.NotEq)):
                        sat = "T"
                    elif isinstance(key, int) and isinstance(a, ast.Compare) and len(a.ops) == 1 and norm(a.left) == f"len({name})" and isinstance(a.ops[0], (ast.Lt, ast.LtE, ast.Eq)):
                        sat = "F"
                    if sat is None:
                        continue
                    if flip:
                        sat = {"T": "F", "F": "T"}[sat]
                    blocked |= {(t.id, b, lab) for b, lab in g.succ[t.id] if lab == sat}
                par = g.reach([g.entry.id], blocked_edges=blocked)
                ok = node.id not in par
                if not ok:
                    exc = "KeyError" if isinstance(key, str) else "IndexError"
                    chk.finding(
                        "W8", node.func.key, f"parser-may-raise:{exc}:{norm(sub)}",
                        f"`{norm(sub)}` can raise {exc} on a request line (e.g. an empty element / a missing key) and no dominating test rules that out; the protocol answers 59 only for ValueError, so the exception leaves data_received and the client gets no response",
                        node.where(),
                    )
                chk.ob("W8", f"{node.func.key}: `{norm(sub)}` guarded", ok)
    chk.ob("W8", "constant subscripts in the request parsers examined", True, f"{n} sites in {len(parsers)} parsers", nontrivial=False)


def rule_w10(chk: Check) -> None:
    """The error path is total.  Refusals are sent by building a response object
    from a message that may echo the client's line; if the response class
    validates in __init__ / __post_init__ and raises, that construction must not
    be able to leave the callback, or the refusal itself is lost."""
    chk.rule("W10", "constructing a response inside the protocol cannot leave a callback: the response class does not raise on construction, or every construction site is caught up to the asyncio callback")
    from .c13 import _raise_set

    ci = chk.proj.cls(SERVER_PROTO)
    n = 0
    for fi in ci.methods.values():
        for c in calls(fi.node):
            if (dotted(c.func) or "").split(".")[-1] != "GeminiResponse":
                continue
            rs = _raise_set(c, chk.proj)
            n += 1
            if not rs:
                continue
            catches = {None, "Exception", "BaseException"} | rs | ({"ValueError"} if any(r in ("UnicodeError", "UnicodeDecodeError") for r in rs) else set())
            esc = _contained(chk.proj, ci, fi, c, set(), [], catches)
            ok = esc is None
            if not ok:
                chk.finding(
                    "W10", fi.key, f"response-ctor-may-escape:{'+'.join(sorted(rs))}",
                    f"`{norm(c)[:60]}` can raise {sorted(rs)} (the response class validates its fields on construction) and along {' <- '.join(esc)} nothing catches it: a refusal whose message echoes a long request line cannot be built, the exception leaves the callback and the client gets no response",
                    fi.loc(c),
                )
            chk.ob("W10", f"{fi.key}: `{norm(c)[:40]}` cannot escape", ok)
    chk.ob("W10", "response constructions in the protocol examined", True, f"{n} sites", nontrivial=False)


def run(chk: Check) -> None:
    sinks = rule_w1(chk)
    rule_w2(chk, sinks)
    rule_w3_w4(chk, sinks)
    rule_w5(chk)
    rule_w6(chk)
    rule_w7(chk, sinks)
    rule_w8(chk)
    rule_w10(chk)
    from .c15 import rule_x5
    from .common import reuse

    reuse(chk, rule_x5, "W9", "after the response the connection is really closed on both backends: close() of the transport facade reaches the TCP close on every normal path (= C15.X5)", ("X5",))
    from .c15 import rule_x6
    from .common import reuse as _reuse11

    _reuse11(chk, rule_x6, "W11", "log calls sit before the response is written (sink, timeout reply): the package's own structlog processors are total (= C15.X6), so logging cannot turn a request into a connection without response", ("X6",))
    from .common import facade_complete

    facade_complete(chk, "W12")
    chk.trusted = [
        "CPython ast parser",
        "engine CFG / inliner / BoolFacts path pruning / abstract string domain",
        "transport.write/close/is_closing do not raise; asyncio invokes the protocol callbacks sequentially",
        "dataclass field annotations (int fields render as decimal digits)",
    ]
    chk.assumptions = [
        "an event loop is running whenever a protocol callback runs (RuntimeError 'no loop' fallbacks not explored; C04.M1b checks they cannot admit)",
        "implicit exceptions that would escape an entry point are not modelled except through W6",
        "custom middleware returns a well-formed header line (built-in ones are proven)",
    ]
