"""Loader and symbol resolver for the package under analysis.

Parses every ``*.py`` below the source root (default ``/repo/src/nauyaca``,
overridable with ``$NAUYACA_SRC`` so the self-test can point the very same
rules at scratch copies) and builds:

* a module table (dotted name relative to the package -> ``ModuleInfo``),
* a function table keyed ``"<module>:<Qual.name>"`` (nested functions are
  ``outer.inner``),
* per class: methods, bases, attribute annotations / constructor assignments,
* per module: import map (local name -> dotted target).

Nothing from the analysed package is imported or executed.
"""

from __future__ import annotations

import ast
import hashlib
import os
from dataclasses import dataclass, field
from pathlib import Path


class AnalysisError(Exception):
    """The analysis itself cannot proceed (missing anchor, parse error)."""


def src_root() -> Path:
    return Path(os.environ.get("NAUYACA_SRC", "/repo/src/nauyaca"))


@dataclass
class FunctionInfo:
    module: "ModuleInfo"
    qualname: str  # e.g. "GeminiServerProtocol.data_received"
    node: ast.FunctionDef | ast.AsyncFunctionDef
    cls: "ClassInfo | None" = None

    @property
    def key(self) -> str:
        return f"{self.module.name}:{self.qualname}"

    @property
    def is_async(self) -> bool:
        return isinstance(self.node, ast.AsyncFunctionDef)

    @property
    def params(self) -> list[str]:
        a = self.node.args
        names = [x.arg for x in a.posonlyargs + a.args]
        if a.vararg:
            names.append(a.vararg.arg)
        names += [x.arg for x in a.kwonlyargs]
        if a.kwarg:
            names.append(a.kwarg.arg)
        return names

    def loc(self, node: ast.AST | None = None) -> str:
        n = node if node is not None else self.node
        return f"{self.module.relpath}:{getattr(n, 'lineno', 0)}"


@dataclass
class ClassInfo:
    module: "ModuleInfo"
    name: str
    node: ast.ClassDef
    methods: dict[str, FunctionInfo] = field(default_factory=dict)
    bases: list[str] = field(default_factory=list)  # dotted source text
    # attribute name -> dotted type names collected from annotations and
    # constructor-call assignments in any method (``self.x = Foo(...)``)
    attr_types: dict[str, set[str]] = field(default_factory=dict)
    # dataclass-style class-level annotated fields, in order
    fields: list[str] = field(default_factory=list)

    @property
    def key(self) -> str:
        return f"{self.module.name}:{self.name}"


@dataclass
class ModuleInfo:
    name: str  # dotted, relative to package root; "" for __init__ of the root
    relpath: str  # relative to the repo (for reports)
    path: Path
    source: str
    tree: ast.Module
    imports: dict[str, str] = field(default_factory=dict)  # local -> dotted target
    functions: dict[str, FunctionInfo] = field(default_factory=dict)
    classes: dict[str, ClassInfo] = field(default_factory=dict)
    constants: dict[str, ast.expr] = field(default_factory=dict)


def _dotted(expr: ast.AST) -> str | None:
    if isinstance(expr, ast.Name):
        return expr.id
    if isinstance(expr, ast.Attribute):
        b = _dotted(expr.value)
        return f"{b}.{expr.attr}" if b else None
    return None


def _ann_names(ann: ast.AST) -> set[str]:
    """Dotted names mentioned in an annotation (``A | None`` -> {A})."""
    out: set[str] = set()
    if isinstance(ann, ast.Constant) and isinstance(ann.value, str):
        try:
            return _ann_names(ast.parse(ann.value, mode="eval").body)
        except SyntaxError:
            return out
    if isinstance(ann, ast.BinOp) and isinstance(ann.op, ast.BitOr):
        return _ann_names(ann.left) | _ann_names(ann.right)
    if isinstance(ann, ast.Subscript):
        base = _dotted(ann.value)
        if base in ("Optional", "typing.Optional", "Union", "typing.Union"):
            sl = ann.slice
            elts = sl.elts if isinstance(sl, ast.Tuple) else [sl]
            for e in elts:
                out |= _ann_names(e)
            return out
        if base:
            out.add(base)
        return out
    d = _dotted(ann)
    if d and d != "None":
        out.add(d)
    return out


class Project:
    def __init__(self, root: Path | None = None) -> None:
        self.root = Path(root) if root else src_root()
        if not self.root.is_dir():
            raise AnalysisError(f"source root not found: {self.root}")
        self.pkg = self.root.name
        self.modules: dict[str, ModuleInfo] = {}
        self.functions: dict[str, FunctionInfo] = {}
        self.classes: dict[str, ClassInfo] = {}
        self._load()

    # ------------------------------------------------------------------ load
    def _load(self) -> None:
        h = hashlib.sha256()
        for p in sorted(self.root.rglob("*.py")):
            rel = p.relative_to(self.root)
            parts = list(rel.with_suffix("").parts)
            if parts[-1] == "__init__":
                parts = parts[:-1]
            name = ".".join(parts)
            src = p.read_text(encoding="utf-8")
            h.update(str(rel).encode())
            h.update(src.encode())
            try:
                tree = ast.parse(src, filename=str(p))
            except SyntaxError as e:  # a unit that does not parse: never a pass
                raise AnalysisError(f"cannot parse {p}: {e}") from e
            mi = ModuleInfo(
                name=name,
                relpath=f"src/{self.pkg}/{rel}",
                path=p,
                source=src,
                tree=tree,
            )
            mi._is_pkg = rel.name == "__init__.py"  # type: ignore[attr-defined]
            self.modules[name] = mi
        self.digest = h.hexdigest()
        for mi in self.modules.values():
            self._index_module(mi)

    def _abs_import(self, mi: ModuleInfo, level: int, module: str | None) -> str:
        """Resolve a (relative) import to a dotted name; names inside the
        package are prefixed ``@`` + module path relative to the root."""
        if level == 0:
            m = module or ""
            if m == self.pkg or m.startswith(self.pkg + "."):
                return "@" + m[len(self.pkg) + 1 :] if m != self.pkg else "@"
            return m
        parts = mi.name.split(".") if mi.name else []
        if not getattr(mi, "_is_pkg", False):
            parts = parts[:-1]
        up = level - 1
        if up:
            parts = parts[: len(parts) - up]
        if module:
            parts = parts + module.split(".")
        return "@" + ".".join(parts)

    def _index_module(self, mi: ModuleInfo) -> None:
        for node in ast.walk(mi.tree):
            if isinstance(node, ast.Import):
                for a in node.names:
                    local = a.asname or a.name.split(".")[0]
                    target = a.name if a.asname else a.name.split(".")[0]
                    mi.imports.setdefault(local, target)
            elif isinstance(node, ast.ImportFrom):
                base = self._abs_import(mi, node.level, node.module)
                for a in node.names:
                    local = a.asname or a.name
                    sep = "." if base not in ("@",) else ""
                    mi.imports.setdefault(local, f"{base}{sep}{a.name}")
        for st in mi.tree.body:
            if isinstance(st, ast.Assign) and len(st.targets) == 1:
                t = st.targets[0]
                if isinstance(t, ast.Name):
                    mi.constants[t.id] = st.value
            elif isinstance(st, ast.AnnAssign) and isinstance(st.target, ast.Name):
                if st.value is not None:
                    mi.constants[st.target.id] = st.value
        self._index_body(mi, mi.tree.body, prefix="", cls=None)

    def _index_body(self, mi, body, prefix, cls) -> None:
        for st in body:
            if isinstance(st, (ast.FunctionDef, ast.AsyncFunctionDef)):
                q = f"{prefix}{st.name}"
                fi = FunctionInfo(mi, q, st, cls)
                mi.functions[q] = fi
                self.functions[fi.key] = fi
                if cls is not None and prefix == cls.name + ".":
                    cls.methods[st.name] = fi
                self._index_nested(mi, st, q + ".", cls)
            elif isinstance(st, ast.ClassDef):
                ci = ClassInfo(mi, f"{prefix}{st.name}", st)
                ci.bases = [b for b in (_dotted(x) for x in st.bases) if b]
                mi.classes[ci.name] = ci
                self.classes[ci.key] = ci
                for s2 in st.body:
                    if isinstance(s2, ast.AnnAssign) and isinstance(s2.target, ast.Name):
                        ci.fields.append(s2.target.id)
                        ci.attr_types.setdefault(s2.target.id, set()).update(
                            _ann_names(s2.annotation)
                        )
                self._index_body(mi, st.body, ci.name + ".", ci)
                self._collect_attr_types(ci)
            elif isinstance(st, (ast.If, ast.Try)):
                # e.g. ``if TYPE_CHECKING:`` / version switches: defs are rare
                for sub in ast.iter_child_nodes(st):
                    if isinstance(sub, list):
                        continue
                blocks = []
                if isinstance(st, ast.If):
                    blocks = [st.body, st.orelse]
                else:
                    blocks = [st.body, st.orelse, st.finalbody] + [
                        h.body for h in st.handlers
                    ]
                for b in blocks:
                    self._index_body(mi, b, prefix, cls)

    def _index_nested(self, mi, fn, prefix, cls) -> None:
        for node in ast.walk(fn):
            if node is fn:
                continue
            if isinstance(node, (ast.FunctionDef, ast.AsyncFunctionDef)):
                # direct children only get a simple qualified name; deeper
                # nesting is flattened (names are unique in this code base)
                q = f"{prefix}{node.name}"
                if q not in mi.functions:
                    fi = FunctionInfo(mi, q, node, cls)
                    mi.functions[q] = fi
                    self.functions[fi.key] = fi

    def _collect_attr_types(self, ci: ClassInfo) -> None:
        for fi in ci.methods.values():
            for node in ast.walk(fi.node):
                tgt = val = ann = None
                if isinstance(node, ast.AnnAssign):
                    tgt, val, ann = node.target, node.value, node.annotation
                elif isinstance(node, ast.Assign) and len(node.targets) == 1:
                    tgt, val = node.targets[0], node.value
                if (
                    isinstance(tgt, ast.Attribute)
                    and isinstance(tgt.value, ast.Name)
                    and tgt.value.id == "self"
                ):
                    s = ci.attr_types.setdefault(tgt.attr, set())
                    if ann is not None:
                        s |= _ann_names(ann)
                    if isinstance(val, ast.Call):
                        d = _dotted(val.func)
                        if d:
                            s.add(d)
                    if isinstance(val, ast.BoolOp):
                        for v in val.values:
                            if isinstance(v, ast.Call):
                                d = _dotted(v.func)
                                if d:
                                    s.add(d)
                    if isinstance(val, ast.Name) and val.id in fi.params:
                        # parameter annotation
                        for a in fi.node.args.args + fi.node.args.kwonlyargs:
                            if a.arg == val.id and a.annotation is not None:
                                s |= _ann_names(a.annotation)

    # --------------------------------------------------------------- lookups
    def module(self, name: str) -> ModuleInfo:
        if name not in self.modules:
            raise AnalysisError(f"anchor vanished: module {name!r} not found")
        return self.modules[name]

    def func(self, key: str) -> FunctionInfo:
        if key not in self.functions:
            raise AnalysisError(f"anchor vanished: function {key!r} not found")
        return self.functions[key]

    def has_func(self, key: str) -> bool:
        return key in self.functions

    def cls(self, key: str) -> ClassInfo:
        if key not in self.classes:
            raise AnalysisError(f"anchor vanished: class {key!r} not found")
        return self.classes[key]

    def resolve_name(self, mi: ModuleInfo, dotted: str) -> str:
        """Expand the first component of a dotted name through the module's
        import map.  In-package targets come back as ``@mod.path.Name``."""
        head, _, rest = dotted.partition(".")
        if head in mi.imports:
            base = mi.imports[head]
            return f"{base}.{rest}" if rest else base
        if head in mi.classes or head in mi.functions or head in mi.constants:
            base = f"@{mi.name}.{head}" if mi.name else f"@{head}"
            return f"{base}.{rest}" if rest else base
        return dotted

    def lookup_internal(self, ref: str):
        """``@a.b.Name[.attr]`` -> FunctionInfo | ClassInfo | (ModuleInfo, const) | None"""
        if not ref.startswith("@"):
            return None
        parts = ref[1:].split(".")
        # longest module prefix
        for i in range(len(parts), -1, -1):
            mod = ".".join(parts[:i])
            if mod in self.modules:
                rest = parts[i:]
                mi = self.modules[mod]
                if not rest:
                    return mi
                q = ".".join(rest)
                if q in mi.functions:
                    return mi.functions[q]
                if q in mi.classes:
                    return mi.classes[q]
                if rest[0] in mi.classes and len(rest) == 2:
                    m = self.find_method(mi.classes[rest[0]], rest[1])
                    if m:
                        return m
                if len(rest) == 1 and rest[0] in mi.constants:
                    return (mi, rest[0])
                if len(rest) == 1 and rest[0] in mi.imports:
                    # re-export through a package __init__
                    tgt = mi.imports[rest[0]]
                    if tgt.startswith("@") and tgt != ref:
                        return self.lookup_internal(tgt)
                return None
        return None

    def find_method(self, ci: ClassInfo, name: str) -> FunctionInfo | None:
        seen = set()
        todo = [ci]
        while todo:
            c = todo.pop(0)
            if c.key in seen:
                continue
            seen.add(c.key)
            if name in c.methods:
                return c.methods[name]
            for b in c.bases:
                r = self.resolve_name(c.module, b)
                t = self.lookup_internal(r)
                if isinstance(t, ClassInfo):
                    todo.append(t)
        return None

    def class_of_type(self, mi: ModuleInfo, dotted: str) -> ClassInfo | None:
        t = self.lookup_internal(self.resolve_name(mi, dotted))
        return t if isinstance(t, ClassInfo) else None

    def const_value(self, mi: ModuleInfo, name: str, _depth: int = 0):
        """Evaluate a module-level constant (ints, floats, strings, bytes and
        products/sums of those), following imports inside the package."""
        if _depth > 5:
            return None
        expr = None
        if name in mi.constants:
            expr = mi.constants[name]
        elif name in mi.imports:
            t = self.lookup_internal(mi.imports[name])
            if isinstance(t, tuple):
                return self.const_value(t[0], t[1], _depth + 1)
            return None
        if expr is None:
            return None
        return self.eval_const(mi, expr, _depth)

    def const_expr(self, mi: ModuleInfo, name: str, _depth: int = 0):
        """(module, AST) of a module-level constant's defining expression,
        following imports inside the package; None if unknown."""
        if _depth > 5:
            return None
        if name in mi.constants:
            return mi, mi.constants[name]
        if name in mi.imports:
            t = self.lookup_internal(mi.imports[name])
            if isinstance(t, tuple):
                return self.const_expr(t[0], t[1], _depth + 1)
        return None

    def eval_const(self, mi: ModuleInfo, expr: ast.AST, _depth: int = 0):
        if isinstance(expr, ast.Constant):
            return expr.value
        if isinstance(expr, ast.Name):
            return self.const_value(mi, expr.id, _depth + 1)
        if isinstance(expr, ast.UnaryOp) and isinstance(expr.op, ast.USub):
            v = self.eval_const(mi, expr.operand, _depth)
            return -v if isinstance(v, (int, float)) else None
        if isinstance(expr, ast.Call) and isinstance(expr.func, ast.Name) and expr.func.id == "len" and len(expr.args) == 1 and not expr.keywords:
            v = self.eval_const(mi, expr.args[0], _depth)
            return len(v) if isinstance(v, (str, bytes)) else None
        if isinstance(expr, ast.BinOp):
            a = self.eval_const(mi, expr.left, _depth)
            b = self.eval_const(mi, expr.right, _depth)
            if isinstance(expr.op, ast.Add) and ((isinstance(a, str) and isinstance(b, str)) or (isinstance(a, bytes) and isinstance(b, bytes))):
                return a + b
            if isinstance(a, (int, float)) and isinstance(b, (int, float)):
                if isinstance(expr.op, ast.Mult):
                    return a * b
                if isinstance(expr.op, ast.Add):
                    return a + b
                if isinstance(expr.op, ast.Sub):
                    return a - b
        return None

    def unit_list(self) -> list[str]:
        return sorted(m.relpath for m in self.modules.values())


_CACHE: dict[str, Project] = {}


def load_project() -> Project:
    r = str(src_root())
    if r not in _CACHE:
        _CACHE[r] = Project(Path(r))
    return _CACHE[r]
