"""Findings, obligations, evidence files and the check driver."""

from __future__ import annotations

import json
import os
import sys
import time
import traceback
from dataclasses import dataclass, field
from pathlib import Path

from .loader import AnalysisError, Project, load_project

VERIF = Path(__file__).resolve().parent.parent
EVIDENCE_DIR = Path(os.environ.get("NAUYACA_SA_OUT") or (VERIF / "evidence"))
KNOWN_FILE = VERIF / "known_findings.json"


@dataclass
class Finding:
    prop: str
    rule: str
    func: str  # qualified function / construct owner, "module:Qual.name"
    construct: str  # stable construct id inside the function
    message: str
    where: str = ""
    path: list[str] = field(default_factory=list)

    @property
    def key(self) -> str:
        return f"{self.prop}:{self.rule}:{self.func}:{self.construct}"


class Check:
    """Accumulates what a run analysed: obligations, findings, samples."""

    def __init__(self, prop: str, tier: str, proj: Project) -> None:
        self.prop = prop
        self.tier = tier
        self.proj = proj
        self.findings: list[Finding] = []
        self.obligations: list[dict] = []
        self.notes: list[str] = []
        self.samples: list = []
        self.evaluations = 0  # CFG paths / call sites / table rows examined
        self.rules: dict[str, str] = {}
        self.trusted: list[str] = []
        self.assumptions: list[str] = []
        self._nontrivial: set[str] = set()

    # -- bookkeeping
    def rule(self, rid: str, text: str) -> None:
        self.rules[rid] = text

    def ob(self, rule: str, instance: str, ok: bool, detail: str = "", nontrivial: bool = True, evals: int = 1) -> None:
        self.obligations.append(
            {"rule": f"{self.prop}.{rule}", "instance": instance, "ok": bool(ok), "detail": detail}
        )
        self.evaluations += max(1, evals)
        if nontrivial:
            self._nontrivial.add(f"{rule}:{instance}")

    def finding(self, rule, func, construct, message, where="", path=None) -> Finding:
        f = Finding(self.prop, rule, func, construct, message, where, list(path or []))
        # de-duplicate on key
        if all(x.key != f.key for x in self.findings):
            self.findings.append(f)
        return f

    def note(self, text: str) -> None:
        self.notes.append(text)

    def sample(self, obj) -> None:
        if len(self.samples) < 12:
            self.samples.append(obj)

    def require(self, rule: str, func: str, what: str, found: int, floor: int, message: str, where: str = "") -> bool:
        """Like ``floor`` but for a *mechanism* whose absence itself breaks the
        property: fewer sites than confirmed is reported as a finding that
        names the missing mechanism, not as an analysis error."""
        ok = found >= floor
        if not ok:
            self.finding(rule, func, f"missing:{what}", f"{message} (found {found}, the tree this rule was confirmed on had {floor})", where)
        self.ob(rule, f"{func}: {what} present", ok, f"{found} sites", nontrivial=False)
        return ok

    def floor(self, rule: str, what: str, found: int, floor: int) -> None:
        """A rule that matches fewer sites than were confirmed by hand passes
        vacuously forever: fail the run as analysis-broken instead."""
        if found < floor:
            raise AnalysisError(
                f"{self.prop}.{rule}: anchor vanished - {what}: found {found}, "
                f"confirmed floor {floor}"
            )


def load_known() -> dict:
    if KNOWN_FILE.exists():
        return json.loads(KNOWN_FILE.read_text())
    return {"findings": [], "fixed": []}


def _write_evidence(chk: Check, wall: float, violations: int, known_hits: list[Finding], explanation: str) -> None:
    EVIDENCE_DIR.mkdir(parents=True, exist_ok=True)
    obligations = len(chk.obligations)
    discharged = sum(1 for o in chk.obligations if o["ok"])
    samples = list(chk.samples)
    if not samples:
        samples = chk.obligations[:6]
    ev = {
        "property_id": chk.prop,
        "tier": chk.tier,
        "seed": int(os.environ.get("VERIF_SEED", "0") or 0),
        "level": "other",
        "coverage": {
            "explanation": explanation,
            "obligations": obligations,
            "discharged": discharged,
            "evaluations": max(chk.evaluations, 0),
            "distinct_nontrivial": len(chk._nontrivial),
            "rule": (
                "one obligation per (rule, instance); an instance is a call site, "
                "CFG path set, decision-table row set or writer/reader pair of the "
                "analysed source; non-trivial = it involved at least one branch, "
                "call or table row (pure existence checks are trivial); evaluations "
                "= CFG paths / reachability queries / table rows examined"
            ),
            "samples": samples,
            "rules": chk.rules,
            "obligation_list": chk.obligations,
            "units": chk.proj.unit_list(),
            "source_digest": chk.proj.digest,
            "source_root": str(chk.proj.root),
            "trusted_base": chk.trusted
            or ["CPython ast parser", "the engine's CFG construction (nauyaca_sa/cfg.py)"],
            "checker_cmd": f"/venv/bin/python -m nauyaca_sa check {chk.prop} --tier {chk.tier}",
            "known_findings_reported": [f.key for f in known_hits],
            "notes": chk.notes,
            "exhaustive": True,
        },
        "assumptions": chk.assumptions
        or ["library and runtime behaviour (asyncio, OpenSSL, SQLite, pathlib, urllib) is trusted"],
        "wall_s": round(wall, 3),
        "violations": violations,
    }
    out = EVIDENCE_DIR / f"{chk.prop}.json"
    tmp = out.with_suffix(".json.tmp")
    tmp.write_text(json.dumps(ev, indent=1, default=str))
    tmp.replace(out)


def run_check(prop: str, tier: str, rule_fn, explanation: str, quiet: bool = False) -> int:
    """Run one property's rules against the current source; return exit code."""
    t0 = time.time()
    try:
        proj = load_project()
        chk = Check(prop, tier, proj)
        rule_fn(chk)
    except AnalysisError as e:
        print(f"ANALYSIS-ERROR property={prop} {e}")
        return 2
    except Exception:  # noqa: BLE001 - never let a traceback look like a violation
        tb = traceback.format_exc()
        print(f"ANALYSIS-ERROR property={prop} internal error:\n{tb}")
        return 2

    known = load_known()
    known_keys = {k["key"]: k for k in known.get("findings", []) if k.get("property") == prop}
    new: list[Finding] = []
    hits: list[Finding] = []
    for f in chk.findings:
        (hits if f.key in known_keys else new).append(f)

    if not quiet:
        print(
            f"[{prop}] tier={tier} src={proj.root} units={len(proj.modules)} "
            f"functions={len(proj.functions)} digest={proj.digest[:12]}"
        )
        by_rule: dict[str, list[dict]] = {}
        for o in chk.obligations:
            by_rule.setdefault(o["rule"], []).append(o)
        for r, obs in by_rule.items():
            ok = sum(1 for o in obs if o["ok"])
            print(f"  {r}: {ok}/{len(obs)} obligations discharged")
        for n in chk.notes:
            print(f"  note: {n}")
    for f in hits:
        what = known_keys[f.key].get("what", f.message)
        print(f"KNOWN-FINDING: property={prop} {f.key} {what}")

    replay_dir = EVIDENCE_DIR / "replay"
    rc = 0
    if new:
        replay_dir.mkdir(parents=True, exist_ok=True)
        for i, f in enumerate(new):
            rp = replay_dir / f"{prop}-{i}.json"
            rp.write_text(
                json.dumps(
                    {
                        "property": prop,
                        "rule": f"{prop}.{f.rule}",
                        "rule_text": chk.rules.get(f.rule, ""),
                        "key": f.key,
                        "function": f.func,
                        "construct": f.construct,
                        "where": f.where,
                        "message": f.message,
                        "path": f.path,
                        "source_root": str(proj.root),
                    },
                    indent=1,
                )
            )
            print(f"  finding {f.key}\n    at {f.where}: {f.message}")
            for line in f.path[:30]:
                print(f"      {line}")
            print(f"VIOLATION property={prop} replay={rp}")
        rc = 1
    wall = time.time() - t0
    _write_evidence(chk, wall, len(new), hits, explanation)
    if not quiet:
        print(
            f"[{prop}] obligations={len(chk.obligations)} "
            f"discharged={sum(1 for o in chk.obligations if o['ok'])} "
            f"evaluations={chk.evaluations} findings={len(chk.findings)} "
            f"(known={len(hits)}, new={len(new)}) wall={wall:.2f}s"
        )
    return rc
